#!/usr/bin/env python3
"""translate/logdefs.py — regenerates lean/CelmaVerif/Generated/LogDefs.lean from the current source.

Reads (relative to <repo>/src):
  celma/log/detail/log_defs.hpp                      LogClass / LogLevel enumerators (order, count),
                                                     logClass2text / logLevel2text switches or guarded table lookups,
                                                     the loops of text2logClass / text2logLevel
  celma/log/filter/detail/log_filter_classes.hpp     std::bitset< EXPR > size, the indexing in pass()
  library/log/filter/detail/log_filter_classes.cpp   separator, the two `throw`s, the `set( ...)`
  celma/log/filter/detail/log_filter_{max_level,min_level,level}.hpp
                                                     comparison operator of processLevel() and pass()
  celma/log/filter/detail/duplicate_policy.hpp, duplicate_policy_factory.cpp,
  celma/log/filter/detail/duplicate_policy_<x>.hpp   which policy value gives which acceptNew() behaviour
  library/log/filter/filters.cpp                     constructor (does it overwrite the global policy?),
                                                     checkSetFilter (delete before or after `new F`?),
                                                     processLevel dispatch
  library/log/logging.cpp                            limit of findCreateLog

The source is not matched as text: logdefs_cxx.py indexes the declarations of the files above (a function is found
wherever it is defined, members are identified by their type and use, aliases and named constants are resolved)
and logdefs_norm.py evaluates each anchored function body to a normal form in which the spelling of locals,
parameters and private members, the control-flow idiom, helper functions and cast / null idioms do not matter.
A construct that cannot be followed raises TranslateError (the tie is reported broken); nothing is guessed.
Hashes of the normal forms of the hand-modelled functions are reported for drift detection.
"""
import hashlib
import os
import re
import sys


sys.path.insert(0, os.path.dirname(os.path.abspath(__file__)))
from logdefs_cxx import TranslateError, Index, text_of, is_p, match_angle   # noqa: E402
from logdefs_norm import Norm, show, walk                                    # noqa: E402


# files that are indexed: whole directories of the filter classes, the named files of the routing
INDEX_DIRS = ["celma/log/filter", "celma/log/filter/detail", "library/log/filter", "library/log/filter/detail"]
INDEX_FILES = ["celma/log/detail/log_defs.hpp", "celma/log/detail/log_msg.hpp", "celma/log/detail/helper_function.hpp",
               "celma/log/detail/log.hpp", "celma/log/detail/i_log_dest.hpp", "celma/log/logging.hpp",
               "library/log/logging.cpp", "library/log/detail/log.cpp", "library/log/detail/i_log_dest.cpp"]


def read(repo, rel):
    p = os.path.join(repo, "src", rel)
    try:
        return open(p, encoding="utf-8", errors="replace").read()
    except OSError as e:
        raise TranslateError("cannot read %s: %s" % (rel, e))


def norm(s):
    return re.sub(r"\s+", " ", s).strip()


_CACHE = {}


def load(repo):
    """(Index, Norm) of the current source; re-read when a file changed"""
    rels = list(INDEX_FILES)
    for d in INDEX_DIRS:
        full = os.path.join(repo, "src", d)
        try:
            names = sorted(os.listdir(full))
        except OSError as e:
            raise TranslateError("cannot list %s: %s" % (d, e))
        rels += [d + "/" + n for n in names if n.endswith((".hpp", ".cpp", ".h"))]
    stamp = []
    for rel in rels:
        try:
            st = os.stat(os.path.join(repo, "src", rel))
            stamp.append((rel, st.st_mtime_ns, st.st_size))
        except OSError as e:
            raise TranslateError("cannot read %s: %s" % (rel, e))
    key = os.path.abspath(repo)
    if key in _CACHE and _CACHE[key][0] == stamp:
        return _CACHE[key][1], _CACHE[key][2]
    ix = Index()
    for rel in rels:
        ix.add_file(rel, read(repo, rel))
    nm = Norm(ix)
    _CACHE[key] = (stamp, ix, nm)
    return ix, nm


# --------------------------------------------------------------------------------------------------
# small tree helpers

TRUE, FALSE = ("ret", ("bool", True)), ("ret", ("bool", False))


def bool_leaf(t):
    return t == TRUE or t == FALSE


def enum_names(ix, name):
    if name not in ix.enums:
        raise TranslateError("enum %s: not found" % name)
    vals = ix.enums[name]
    for k, (n, v) in enumerate(vals):
        if v != k:
            raise TranslateError("enum %s: explicit enumerator value `%s = %d` not understood" % (name, n, v))
    return [n for n, _ in vals]


def enumerator(e, enum, names, what):
    """index of the enumerator named by the expression `Enum::x`"""
    if e[0] == "id" and e[1].startswith(enum + "::") and e[1][len(enum) + 2:] in names:
        return names.index(e[1][len(enum) + 2:])
    raise TranslateError("%s: `%s` is not an enumerator of %s" % (what, show(e), enum))


def enum_of(ix, name):
    return enum_names(ix, name)


def text_switch(ix, nm, func, enum, names):
    """[(index, text)] and the default text — from a switch / an equivalent chain of ifs (rows in source order), or from
    a lookup in a constant table guarded by range checks (one row per enumerator)"""
    f = ix.func(None, func, nparams=1)
    t = nm.beh(f, ucast=True)
    if is_table_form(t):
        return text_table(ix, t, func, enum, names)
    return text_chain(t, func, enum, names)


def is_table_form(t):
    return any(isinstance(x, tuple) and x[:1] in (("table",), ("ucast",)) for x in walk(t))


INT_MIN, INT_MAX = -(1 << 31), (1 << 31) - 1


def text_table(ix, t, func, enum, names, only=None):
    """(With `only=k`: the text for the single argument value k, nothing else is looked at.)
    The function is evaluated for EVERY value p of its argument (an enumeration with underlying type int): the set of
    values that reach a leaf is kept as a list of intervals; a condition must compare p, p converted to an unsigned
    type, or such a term plus / minus a constant, with a constant (or test p == enumerator); a leaf returns a string
    literal or an element of a constant table of string literals (every index that reaches it must lie inside the
    table).  Result: one row per enumerator and the one text that all other values give."""
    if ix.enum_base.get(enum, ""):
        raise TranslateError("%s: enum %s has an explicit underlying type: not understood" % (func, enum))
    n = len(names)
    P0 = ("id", "$p0")

    def const(e):
        try:
            return _plain_const(e, enum, names)
        except TranslateError:
            return None

    def pieces(term, ivs):
        # [(lo, hi, b)]: on lo <= p <= hi the term has the value p + b
        if term == P0:
            return [(lo, hi, 0) for lo, hi in ivs]
        if term[0] == "ucast":
            out = []
            for lo, hi, b in pieces(term[2], ivs):
                out += _wrap(lo, hi, b, term[1])
            return out
        if term[0] == "bin" and term[1] in ("+", "-"):
            c = const(term[3])
            inner = term[2]
            if c is None and term[1] == "+":
                c, inner = const(term[2]), term[3]
            if c is not None:
                if term[1] == "-":
                    c = -c
                ps = [(lo, hi, b + c) for lo, hi, b in pieces(inner, ivs)]
                if inner[0] == "ucast" and inner[1] >= 32:     # unsigned arithmetic wraps
                    out = []
                    for lo, hi, b in ps:
                        out += _wrap(lo, hi, b, inner[1])
                    return out
                if inner[0] == "ucast":
                    raise TranslateError("%s: arithmetic on a promoted %d-bit value in `%s` not understood" % (func, inner[1], show(term)))
                for lo, hi, b in ps:
                    if not (INT_MIN <= lo + b and hi + b <= INT_MAX):
                        raise TranslateError("%s: signed overflow in `%s`" % (func, show(term)))
                return ps
        raise TranslateError("%s: term `%s` not understood" % (func, show(term)))

    def _wrap(lo, hi, b, bits):
        # p + b reduced modulo 2^bits
        out = []
        m0, m1 = (lo + b) >> bits, (hi + b) >> bits
        if m1 - m0 > 8:
            raise TranslateError("%s: conversion of the argument to a %d-bit type not understood" % (func, bits))
        for m in range(m0, m1 + 1):
            l2, h2 = max(lo, (m << bits) - b), min(hi, ((m + 1) << bits) - 1 - b)
            if l2 <= h2:
                out.append((l2, h2, b - (m << bits)))
        return out

    def split(c, ivs):
        """(intervals where c holds, intervals where it does not)"""
        if c[0] in ("bool", "num"):
            return (ivs, []) if c[1] else ([], ivs)
        if c[0] == "un" and c[1] == "!":
            a, b = split(c[2], ivs)
            return b, a
        if c[0] == "bin" and c[1] in ("<", "<=", "=="):
            ca, cb = const(c[2]), const(c[3])
            if ca is not None and cb is not None:
                r = {"<": ca < cb, "<=": ca <= cb, "==": ca == cb}[c[1]]
                return (ivs, []) if r else ([], ivs)
            if (ca is None) == (cb is None):
                raise TranslateError("%s: condition `%s` not understood" % (func, show(c)))
            yes, no = [], []
            if cb is not None:
                term, k, op = c[2], cb, c[1]            # term OP k
            else:
                term, k, op = c[3], ca, {"<": ">", "<=": ">=", "==": "=="}[c[1]]     # k OP' term
            for lo, hi, b in pieces(term, ivs):
                # value p + b; the set of p in [lo, hi] with (p + b) op k
                if op == "<":
                    a0, a1 = lo, min(hi, k - b - 1)
                elif op == "<=":
                    a0, a1 = lo, min(hi, k - b)
                elif op == ">":
                    a0, a1 = max(lo, k - b + 1), hi
                elif op == ">=":
                    a0, a1 = max(lo, k - b), hi
                else:
                    a0, a1 = max(lo, k - b), min(hi, k - b)
                if a0 <= a1:
                    yes.append((a0, a1))
                    if lo < a0:
                        no.append((lo, a0 - 1))
                    if a1 < hi:
                        no.append((a1 + 1, hi))
                else:
                    no.append((lo, hi))
            return yes, no
        raise TranslateError("%s: condition `%s` not understood" % (func, show(c)))

    exact = {}          # p -> text, from table leaves
    ranges = []         # (lo, hi, text), from literal leaves

    def go(t, ivs):
        if not ivs:
            return
        if t[0] == "ite":
            yes, no = split(t[1], ivs)
            go(t[2], yes)
            go(t[3], no)
            return
        if t[0] == "ret" and t[1][0] == "str":
            ranges.extend((lo, hi, t[1][1]) for lo, hi in ivs)
            return
        if t[0] == "ret" and t[1][0] == "index" and t[1][1][0] == "table":
            tbl = t[1][1][2]
            for lo, hi, b in pieces(t[1][2], ivs):
                if lo + b < 0 or hi + b >= len(tbl):
                    bad = lo if lo + b < 0 else hi
                    raise TranslateError("%s: for the argument value %d the table of %d texts is read at index %d"
                                         % (func, bad, len(tbl), bad + b))
                for p in range(lo, hi + 1):
                    if tbl[p + b][0] != "str":
                        raise TranslateError("%s: table element `%s` is not a text" % (func, show(tbl[p + b])))
                    exact[p] = tbl[p + b][1]
            return
        raise TranslateError("%s: `%s` not understood" % (func, show(t)[:160]))

    go(t, [(INT_MIN, INT_MAX)] if only is None else [(only, only)])
    # every value is covered exactly once by construction; rows of the enumerators, one text for all other values
    def text_of_value(p):
        if p in exact:
            return exact[p]
        for lo, hi, s in ranges:
            if lo <= p <= hi:
                return s
        raise TranslateError("%s: no result for the argument value %d" % (func, p))

    if only is not None:
        return text_of_value(only)
    cases = [(k, text_of_value(k)) for k in range(n)]
    outside = set(s for p, s in exact.items() if not 0 <= p < n)
    for lo, hi, s in ranges:
        if lo < 0 or hi >= n:
            outside.add(s)
    if len(outside) != 1:
        raise TranslateError("%s: values that are no enumerators of %s give the texts %s: not understood"
                             % (func, enum, sorted(outside)))
    default = outside.pop()
    for _, txt in cases + [(None, default)]:
        if "\\" in txt:
            raise TranslateError("%s: escape sequence in text %r" % (func, txt))
    return cases, default


def _plain_const(e, enum, names):
    """integer value of a constant expression (enumerators of `enum` by position)"""
    k = e[0]
    if k == "num":
        return e[1]
    if k == "bool":
        return int(e[1])
    if k == "id" and e[1].startswith(enum + "::") and e[1][len(enum) + 2:] in names:
        return names.index(e[1][len(enum) + 2:])
    if k == "bin" and e[1] in ("+", "-", "*"):
        a, b = _plain_const(e[2], enum, names), _plain_const(e[3], enum, names)
        return a + b if e[1] == "+" else a - b if e[1] == "-" else a * b
    raise TranslateError("not a constant")


def text_chain(t, func, enum, names):
    cases = []
    while t[0] == "ite":
        c = t[1]
        if not (c[0] == "bin" and c[1] == "==" and c[2] == ("id", "$p0")):
            raise TranslateError("%s: condition `%s` not understood" % (func, show(c)))
        i = enumerator(c[3], enum, names, func)
        if not (t[2][0] == "ret" and t[2][1][0] == "str"):
            raise TranslateError("%s: the branch for %s does not return a text: %s" % (func, show(c[3]), show(t[2])[:80]))
        cases.append((i, t[2][1][1]))
        t = t[3]
    if not (t[0] == "ret" and t[1][0] == "str"):
        raise TranslateError("%s: no default text (found `%s`)" % (func, show(t)[:80]))
    default = t[1][1]
    for _, txt in cases + [(None, default)]:
        if "\\" in txt:
            raise TranslateError("%s: escape sequence in text %r" % (func, txt))
    if len(set(i for i, _ in cases)) != len(cases):
        raise TranslateError("%s: duplicate case label" % func)
    return cases, default


def text_loop(ix, nm, func, enum, names):
    f = ix.func(None, func, nparams=1)
    t = nm.beh(f)
    what = func
    if not (t[0] == "loop" and t[1][0] == "range"):
        raise TranslateError("%s: loop header not understood: %s" % (what, show(t)[:120]))
    _, var, start, op, bound = t[1]
    lo = nm.const_eval(start, what + " loop start")
    hi = nm.const_eval(bound, what + " loop bound")
    if lo < 0 or hi < 0:
        raise TranslateError("%s: negative loop bound" % what)
    body, after = t[2], t[3]
    v = ("id", var)
    ok = body[0] == "ite" and body[2] == ("cont", "L0") and body[3] == ("ret", v)
    c = body[1] if ok else None
    if not (ok and c[0] == "call" and c[1][0] == "id" and c[1][1] in ("strcasecmp", "strcmp") and len(c[2]) == 2):
        raise TranslateError("%s: comparison in the loop not understood: %s" % (what, show(body)[:160]))
    a, b = c[2]
    if b[0] == "call":
        a, b = b, a
    if not (b == ("id", "$p0") and a[0] == "call" and a[1][0] == "id" and a[2] == [v]):
        raise TranslateError("%s: operands of the comparison not understood: %s" % (what, show(c)))
    if not after[0] == "ret":
        raise TranslateError("%s: fallback return not understood" % what)
    fb = enumerator(after[1], enum, names, what + " fallback")
    return {"from": lo, "op": {"<": "lt", "<=": "le"}[op], "bound": hi, "nocase": c[1][1] == "strcasecmp",
            "via": a[1][1], "fallback": fb}


def relation(t, what):
    """(op name, left, right) of a bool function whose body is one comparison"""
    if t[0] != "ite" or not bool_leaf(t[2]) or not bool_leaf(t[3]) or t[2] == t[3]:
        raise TranslateError("%s: body `%s` not understood" % (what, show(t)[:160]))
    c = t[1]
    if not (c[0] == "bin" and c[1] in ("<", "<=", "==")):
        raise TranslateError("%s: condition `%s` not understood" % (what, show(c)))
    op = {"<": "lt", "<=": "le", "==": "eq"}[c[1]]
    if t[2] == FALSE:
        op = {"lt": "ge", "le": "gt", "eq": "ne"}[op]
    return op, c[2], c[3]


FLIP = {"lt": "gt", "le": "ge", "gt": "lt", "ge": "le", "eq": "eq", "ne": "ne"}


def data_members(ix, nm, cls, pred, what, static=None):
    out = [m for m in ix.members(cls) if (static is None or m.static == static) and pred(nm.canon_type(text_of(m.type), cls))]
    if len(out) != 1:
        raise TranslateError("%s: %s (%d candidates)" % (cls, what, len(out)))
    return out[0]


def base_filter_type(ix, nm, f, what):
    for name, args in f.inits:
        if name == "IFilter":
            e = nm.nx(nm.parse_expr_tokens(args, what), {}, _ctx(nm, f))
            if e[0] == "id" and e[1].startswith("FilterTypes::"):
                return e[1][len("FilterTypes::"):]
    raise TranslateError("%s: base class initialiser IFilter( FilterTypes::...) not understood" % what)


def _ctx(nm, f):
    from logdefs_norm import Ctx
    return Ctx(f, frozenset(), 0)


def level_filter(ix, nm, cls):
    mem = data_members(ix, nm, cls, lambda ty: ty == "LogLevel", "level member not found", static=False)
    m = mem.name
    ctor = ix.func(cls, cls, nparams=1)
    ftype = base_filter_type(ix, nm, ctor, cls + " constructor")
    body = nm.beh(ctor)
    pname = ctor.params[0][1]
    from_init = [a for n, a in ctor.inits if n == m]
    if from_init and len(from_init) == 1 and pname is not None and [x[1] for x in from_init[0]] == [pname] and body == ("end",):
        pass
    elif not from_init and body == ("seq", ("assign", "=", ("id", m), ("id", "$p0")), ("end",)):
        pass
    else:
        raise TranslateError("%s: constructor not understood" % cls)
    if any(n not in (m, "IFilter") for n, _ in ctor.inits):
        raise TranslateError("%s: constructor not understood" % cls)
    pl = ix.func(cls, "processLevel", nparams=1)
    op, a, b = relation(nm.beh(pl), cls + "::processLevel")
    if a == ("id", "$p0") and b == ("id", m):
        pop = op
    elif b == ("id", "$p0") and a == ("id", m):
        pop = FLIP[op]
    else:
        raise TranslateError("%s::processLevel: operands `%s`, `%s` not understood" % (cls, show(a), show(b)))
    ps = ix.func(cls, "pass", nparams=1)
    op, a, b = relation(nm.beh(ps), cls + "::pass")
    lvl = ("call", ("member", ("id", "$p0"), "getLevel"), [])
    if a == lvl and b == ("id", m):
        sop = op
    elif b == lvl and a == ("id", m):
        sop = FLIP[op]
    else:
        raise TranslateError("%s::pass: operands `%s`, `%s` not understood" % (cls, show(a), show(b)))
    return pop, sop, ftype


def bitset_size(ix, nm, classes):
    cls = "LogFilterClasses"
    mem = data_members(ix, nm, cls, lambda ty: ty.startswith("std::bitset <"), "bitset member not found", static=False)
    ty = ix.resolve_type(mem.type, cls)
    k = next(i for i, t in enumerate(ty) if is_p(t, "<"))
    j = match_angle(ty, k)
    if j != len(ty) - 1:
        raise TranslateError("LogFilterClasses: bitset type `%s` not understood" % text_of(ty))
    expr_toks = ty[k + 1:j]
    f0 = ix.func(cls, "pass", nparams=1)
    e = nm.nx(nm.parse_expr_tokens(expr_toks, "bitset size"), {}, _ctx(nm, f0))
    n = nm.const_eval(e, "bitset size expression `%s`" % text_of(expr_toks))
    if n < 0:
        raise TranslateError("bitset size negative")
    t = nm.beh(f0)
    if not (t[0] == "ite" and t[2] == TRUE and t[3] == FALSE):
        raise TranslateError("LogFilterClasses::pass: body `%s` not understood" % show(t)[:160])
    c = t[1]
    cl = ("call", ("member", ("id", "$p0"), "getClass"), [])
    M = ("id", mem.name)
    if c == ("index", M, cl):
        checked = False
    elif c == ("call", ("member", M, "test"), [cl]):
        checked = True
    else:
        raise TranslateError("LogFilterClasses::pass: body `%s` not understood" % show(t)[:160])
    return n, show(e), checked, mem.name


def classes_ctor(ix, nm, member):
    cls = "LogFilterClasses"
    what = "LogFilterClasses constructor"
    f = ix.func(cls, cls, nparams=1)
    if base_filter_type(ix, nm, f, what) != "classes":
        raise TranslateError(what + ": does not register FilterTypes::classes")
    for n, a in f.inits:
        if n == "IFilter":
            continue
        if n != member or a:
            raise TranslateError(what + ": initialiser of %s not understood" % n)
    t = nm.beh(f)
    M = ("id", member)
    if not (t[0] == "loop" and t[1][0] == "each"):
        raise TranslateError(what + ": tokenizer loop not understood: " + show(t)[:160])
    var, cont = ("id", t[1][1]), t[1][2]
    if not (cont[0] == "construct" and cont[1] == "Tokenizer" and len(cont[2]) == 2 and cont[2][0] == ("id", "$p0")
            and cont[2][1][0] == "chr" and len(cont[2][1][1]) == 1):
        raise TranslateError(what + ": tokenizer not understood: " + show(cont))
    sep = cont[2][1][1]
    call = ("call", ("id", "text2logClass"), [("call", ("member", var, "c_str"), [])])
    body = t[2]
    rejected = None
    if body[0] == "ite" and body[2] == ("throw", "CELMA_RuntimeError"):
        c = body[1]
        if not (c[0] == "bin" and c[1] == "==" and c[2] == call and c[3][0] == "id" and c[3][1].startswith("LogClass::")):
            raise TranslateError(what + ": rejection test `%s` not understood" % show(c))
        rejected = c[3][1][len("LogClass::"):]
        body = body[3]
    setcall = ("seq", ("call", ("member", M, "set"), [call]), ("cont", "L0"))
    if body != setcall:
        if mentions_call(body, "text2logClass"):
            raise TranslateError(what + ": set( class) not found: " + show(body)[:200])
        raise TranslateError(what + ": text2logClass call not found: " + show(body)[:200])
    after = t[3]
    if after == ("end",):
        empty = False
    elif after == ("ite", ("call", ("member", M, "none"), []), ("throw", "CELMA_RuntimeError"), ("end",)):
        empty = True
    else:
        raise TranslateError(what + ": code after the loop not understood: " + show(after)[:200])
    return sep, rejected, empty


def mentions_call(t, name):
    return any(isinstance(x, tuple) and len(x) == 3 and x[0] == "call" and x[1] == ("id", name) for x in walk(t))


def policies(ix, nm):
    names = enum_names(ix, "DuplicatePolicy")
    fac = ix.func("DuplicatePolicyFactory", "createPolicy", nparams=1)
    t = nm.beh(fac)
    made = {}
    while t[0] == "ite":
        c = t[1]
        if not (c[0] == "bin" and c[1] == "==" and c[2] == ("id", "$p0")):
            raise TranslateError("createPolicy: condition `%s` not understood" % show(c))
        i = enumerator(c[3], "DuplicatePolicy", names, "createPolicy")
        r = t[2]
        if not (r[0] == "ret" and r[1][0] == "new" and not r[1][2]):
            raise TranslateError("createPolicy: branch for %s not understood: %s" % (names[i], show(r)[:80]))
        made.setdefault(names[i], r[1][1])
        t = t[3]
    if t[0] != "throw":
        raise TranslateError("createPolicy: default branch `%s` not understood" % show(t)[:80])
    res = {}
    for n in names:
        if n not in made:
            raise TranslateError("createPolicy: no case for DuplicatePolicy::" + n)
        cls = made[n]
        acc = nm.beh(ix.func(cls, "acceptNew", nparams=0))
        if acc == FALSE:
            res[n] = "keep"
        elif acc == TRUE:
            res[n] = "replace"
        elif acc == ("throw", "CELMA_RuntimeError"):
            res[n] = "throws"
        else:
            raise TranslateError("%s::acceptNew: body `%s` not understood" % (cls, show(acc)[:120]))
        pol = nm.beh(ix.func(cls, "policy", nparams=0))
        if pol != ("ret", ("id", "DuplicatePolicy::" + n)):
            raise TranslateError("%s::policy() does not return DuplicatePolicy::%s" % (cls, n))
    return names, res


REF_SET_POLICY = """
   if ((M_policy.get() == nullptr) || (M_policy->policy() != policy))
      M_policy.reset( DuplicatePolicyFactory::createPolicy( policy));
"""
REF_CHECK_SET_HEAD = """
   for (auto & it : M_filters)
   {
      if (it->filterType() == filter_type)
      {
         if (M_policy->acceptNew())
         {
            %s
         }
         if (IFilter::isLevelFilter( filter_type))
            M_level = it;
         return;
      }
   }
   M_filters.push_back( new F( filter_param));
   if (IFilter::isLevelFilter( filter_type))
      M_level = M_filters.back();
"""
REF_DELETE_FIRST = "delete it; it = new F( filter_param);"
REF_NEW_FIRST = "auto n = new F( filter_param); delete it; it = n;"
REF_PASS = """
   for (auto & it : M_filters)
   {
      if (!it->passFilter( msg))
         return false;
   }
   return true;
"""

KEEP = frozenset(["setDuplicatePolicy", "checkSetFilter", "pass", "processLevel", "maxLevel", "minLevel", "level", "classes"])


def digest(t):
    return hashlib.sha256(show(t).encode()).hexdigest()[:12]


def filters_cpp(ix, nm, pol_names):
    cls = "Filters"
    m_filters = data_members(ix, nm, cls, lambda ty: re.fullmatch(r"std::vector < IFilter \* >", ty) is not None,
                             "filter container member not found", static=False).name
    m_level_mem = data_members(ix, nm, cls, lambda ty: ty == "IFilter *", "level filter pointer member not found", static=False)
    m_level = m_level_mem.name
    m_policy = data_members(ix, nm, cls, lambda ty: "IDuplicatePolicy" in ty, "duplicate policy member not found", static=True).name
    roles = {m_filters: "M_filters", m_level: "M_level", m_policy: "M_policy"}

    def beh(name, **kw):
        return nm.beh(ix.func(cls, name, **kw), keep=KEEP, members=roles)

    # constructor
    cf = ix.func(cls, cls, nparams=0)
    init_level = [a for n, a in cf.inits if n == m_level]
    if init_level:
        lv_init = init_level[0]
    else:
        lv_init = m_level_mem.init
    if lv_init is None or [x[1] for x in lv_init] not in (["nullptr"], ["NULL"], ["0"], []):
        raise TranslateError("Filters constructor: the level filter pointer is not initialised with nullptr")
    ctor = nm.beh(cf, keep=KEEP, members=roles)
    resets = None
    t = ctor
    if t[0] == "ite" and t[1] == ("id", "M_policy") and t[2] == ("end",):
        resets = False
        t = t[3]
    else:
        resets = True
    if not (t[0] == "seq" and t[2] == ("end",) and t[1][0] == "call" and t[1][1] == ("id", "setDuplicatePolicy") and len(t[1][2]) == 1):
        raise TranslateError("Filters constructor: body `%s` not understood" % show(ctor)[:200])
    default = pol_names[enumerator(t[1][2][0], "DuplicatePolicy", pol_names, "Filters constructor")]
    # setDuplicatePolicy
    sdp = beh("setDuplicatePolicy", nparams=1)
    if sdp != nm.beh_of_text(REF_SET_POLICY, cls, False, ["policy"], "setDuplicatePolicy", KEEP):
        raise TranslateError("setDuplicatePolicy: body `%s` not understood" % show(sdp)[:300])
    # checkSetFilter
    csf = beh("checkSetFilter", nparams=2)
    ref_del = nm.beh_of_text(REF_CHECK_SET_HEAD % REF_DELETE_FIRST, cls, False, ["filter_type", "filter_param"], "checkSetFilter", KEEP)
    ref_new = nm.beh_of_text(REF_CHECK_SET_HEAD % REF_NEW_FIRST, cls, False, ["filter_type", "filter_param"], "checkSetFilter", KEEP)
    if csf == ref_del:
        deletes_first = True
    elif csf == ref_new:
        deletes_first = False
    else:
        raise TranslateError("checkSetFilter: body not understood: `%s`" % show(csf)[:600])
    # isLevelFilter
    t = nm.beh(ix.func("IFilter", "isLevelFilter", nparams=1))
    lt = []
    while t[0] == "ite":
        c = t[1]
        if not (c[0] == "bin" and c[1] == "==" and c[2] == ("id", "$p0") and c[3][0] == "id" and c[3][1].startswith("FilterTypes::")
                and t[2] == TRUE):
            raise TranslateError("isLevelFilter: body `%s` not understood" % show(t)[:200])
        lt.append(c[3][1][len("FilterTypes::"):])
        t = t[3]
    if t != FALSE:
        raise TranslateError("isLevelFilter: body not understood (ends with `%s`)" % show(t)[:80])
    level_types = sorted(set(lt))
    # pass
    ps = beh("pass", nparams=1)
    if ps != nm.beh_of_text(REF_PASS, cls, True, ["msg"], "Filters::pass", KEEP):
        raise TranslateError("Filters::pass: body `%s` not understood" % show(ps)[:300])
    # processLevel
    pl = beh("processLevel", nparams=1)
    if not (pl[0] == "ite" and pl[1] == ("id", "M_level") and pl[3] == TRUE):
        raise TranslateError("Filters::processLevel: head not understood: " + show(pl)[:200])
    t = pl[2]
    disp = {}
    ft = ("call", ("member", ("id", "M_level"), "filterType"), [])
    while t[0] == "ite":
        c = t[1]
        if not (c[0] == "bin" and c[1] == "==" and c[2] == ft and c[3][0] == "id" and c[3][1].startswith("FilterTypes::")):
            raise TranslateError("Filters::processLevel: dispatch condition `%s` not understood" % show(c))
        r = t[2]
        ok = r[0] == "ite" and r[2] == TRUE and r[3] == FALSE and r[1][0] == "call" and r[1][2] == [("id", "$p0")] and \
            r[1][1][0] == "member" and r[1][1][2] == "processLevel" and r[1][1][1][0] == "cast" and r[1][1][1][2] == ("id", "M_level")
        if not ok:
            raise TranslateError("Filters::processLevel: dispatch branch `%s` not understood" % show(r)[:200])
        ty = r[1][1][1][1]
        m = re.fullmatch(r"(\w+) \*", ty)
        if not m:
            raise TranslateError("Filters::processLevel: cast type `%s` not understood" % ty)
        key = c[3][1][len("FilterTypes::"):]
        if key in disp:
            raise TranslateError("Filters::processLevel: duplicate dispatch for %s" % key)
        disp[key] = m.group(1)
        t = t[3]
    if t != ("throw", "std::invalid_argument"):
        raise TranslateError("Filters::processLevel: default branch not understood: " + show(t)[:120])
    return resets, default, deletes_first, level_types, disp, {
        "checkSetFilter": digest(csf), "Filters::pass": digest(ps), "Filters::processLevel": digest(pl)}


def logging_cpp(ix, nm):
    cls = "Logging"
    nxt = data_members(ix, nm, cls, lambda ty: ty in ("unsigned int", "unsigned", "id_t", "uint32_t", "std::uint32_t"),
                       "next-id member not found", static=False)
    logs = data_members(ix, nm, cls, lambda ty: re.fullmatch(r"std::vector < LogData >", ty) is not None,
                        "log container member not found", static=False)
    roles = {nxt.name: "M_next", logs.name: "M_logs"}
    f = ix.func(cls, "findCreateLog", nparams=1)
    if any(n == nxt.name for g in ix.find_funcs(cls, cls) for n, _ in g.inits):
        raise TranslateError("Logging: next-id member initialised in a constructor: not understood")
    if nxt.init is None:
        raise TranslateError("Logging::%s initialiser not understood" % nxt.name)
    first = nm.const_eval(nm.nx(nm.parse_expr_tokens(nxt.init, "first log id"), {}, _ctx(nm, f)), "first log id")
    fc = nm.beh(f, members=roles)
    M = ("id", "M_next")
    limit = None
    for x in walk(fc):
        if isinstance(x, tuple) and len(x) == 4 and x[0] == "ite" and x[1][0] == "bin" and x[1][1] == "==" and x[1][2] == M \
                and x[1][3][0] == "num" and x[2] == ("throw", "CELMA_RuntimeError"):
            if limit is not None and limit != x[1][3][1]:
                raise TranslateError("findCreateLog: two different limit checks")
            limit = x[1][3][1]
    if limit is None:
        raise TranslateError("findCreateLog: limit check not understood: " + show(fc)[:300])
    if limit <= 0 or limit & (limit - 1):
        raise TranslateError("findCreateLog: limit %d is not a single bit" % limit)
    shift = limit.bit_length() - 1
    if shift >= 32:
        raise TranslateError("findCreateLog: limit 0x1 << %d does not fit id_t" % shift)
    steps = [("assign", "<<=", M, ("num", 1)), ("assign", "=", M, ("bin", "<<", M, ("num", 1))), ("assign", "*=", M, ("num", 2)),
             ("assign", "=", M, ("bin", "*", M, ("num", 2))), ("assign", "=", M, ("bin", "*", ("num", 2), M))]
    if not any(isinstance(x, tuple) and len(x) == 3 and x[0] == "seq" and x[1] in steps for x in walk(fc)):
        raise TranslateError("findCreateLog: id shift not understood")
    hashes = {"findCreateLog": digest(fc)}

    def info(label, fn):
        try:
            hashes[label] = digest(fn())
        except TranslateError:
            hashes[label] = "not-normalised"

    info("Logging::log(id)", lambda: nm.beh(ix.func(cls, "log", nparams=2, first_param="id_t"), members=roles))
    info("Logging::log(name)", lambda: nm.beh(ix.func(cls, "log", nparams=2, first_param="string"), members=roles))
    info("Logging::getLog(id)", lambda: nm.beh(ix.func(cls, "getLog", nparams=1, first_param="id_t"), members=roles))
    info("Log::message", lambda: nm.beh(ix.func("Log", "message", nparams=1)))
    info("ILogDest::handleMessage", lambda: nm.beh(ix.func("ILogDest", "handleMessage", nparams=1)))
    info("discard_by_level", lambda: nm.beh(ix.func(None, "discard_by_level", nparams=2)))
    return shift, first, hashes


def class_text_table(repo):
    """{index: display text} of the log classes plus 'n' = number of classes (used by the plugin's reference)"""
    ix, nm = load(repo)
    classes = enum_names(ix, "LogClass")
    try:
        cases, _ = text_switch(ix, nm, "logClass2text", "LogClass", classes)
    except TranslateError:
        # The translation of the function as a whole failed (and was reported as a broken tie by translate()).  The
        # plugin still needs the NAMES to generate inputs and for its reference: with the table form they are read
        # value by value, for the enumerators only; an enumerator whose own lookup cannot be followed (e.g. it reads
        # outside the table) gets no name, so the reference treats its text as unknown.
        t = nm.beh(ix.func(None, "logClass2text", nparams=1), ucast=True)
        if not is_table_form(t):
            raise
        cases = []
        for k in range(len(classes)):
            try:
                cases.append((k, text_table(ix, t, "logClass2text", "LogClass", classes, only=k)))
            except TranslateError:
                pass
    out = {i: t for i, t in cases if i != 0}
    out["n"] = len(classes)
    return out


def lstr(s):
    return '"' + s.replace("\\", "\\\\").replace('"', '\\"') + '"'


def lchars(s):
    """a C string literal as a `List Char` term (the kernel evaluates these without string primitives)"""
    for ch in s:
        if not (32 <= ord(ch) < 127) or ch in "'\\":
            raise TranslateError("character %r in a text table entry not supported" % ch)
    return "[" + ", ".join("'%s'" % ch for ch in s) + "]"


def llist(items):
    return "[" + ", ".join(items) + "]"


def generate(repo):
    ix, nm = load(repo)
    classes = enum_names(ix, "LogClass")
    levels = enum_names(ix, "LogLevel")
    ccases, cdef = text_switch(ix, nm, "logClass2text", "LogClass", classes)
    lcases, ldef = text_switch(ix, nm, "logLevel2text", "LogLevel", levels)
    cloop = text_loop(ix, nm, "text2logClass", "LogClass", classes)
    lloop = text_loop(ix, nm, "text2logLevel", "LogLevel", levels)
    if cloop["via"] != "logClass2text" or lloop["via"] != "logLevel2text":
        raise TranslateError("text2log*: unexpected text function")
    bsize, bexpr, bchecked, bmember = bitset_size(ix, nm, classes)
    sep, rejected, empty_rejected = classes_ctor(ix, nm, bmember)
    if rejected is not None and rejected not in classes:
        raise TranslateError("LogFilterClasses constructor: unknown enumerator " + rejected)
    if sep in "'\\" or not (32 <= ord(sep) < 127):
        raise TranslateError("LogFilterClasses constructor: separator %r not supported" % sep)
    mx = level_filter(ix, nm, "LogFilterMaxLevel")
    mn = level_filter(ix, nm, "LogFilterMinLevel")
    lv = level_filter(ix, nm, "LogFilterLevel")
    if (mx[2], mn[2], lv[2]) != ("maxLevel", "minLevel", "level"):
        raise TranslateError("level filter classes register unexpected filter types %s" % ((mx[2], mn[2], lv[2]),))
    pol_names, pol = policies(ix, nm)
    for need in ("ignore", "exception", "replace"):
        if need not in pol_names:
            raise TranslateError("DuplicatePolicy::%s missing" % need)
    resets, pdefault, deletes_first, level_types, dispatch, fh = filters_cpp(ix, nm, pol_names)
    if level_types != sorted(["maxLevel", "minLevel", "level"]):
        raise TranslateError("isLevelFilter names %s" % level_types)
    if dispatch != {"maxLevel": "LogFilterMaxLevel", "minLevel": "LogFilterMinLevel", "level": "LogFilterLevel"}:
        raise TranslateError("Filters::processLevel dispatch %s not understood" % dispatch)
    shift, first_id, lh = logging_cpp(ix, nm)

    L = []
    w = L.append
    w("/-")
    w("  GENERATED by translate/logdefs.py from the C++ source — do not edit.")
    w("  Enumerations, text tables, the class-set size, the filters' comparison operators and the")
    w("  duplicate policies as the code has them now.  Core Lean only.")
    w("-/")
    w("namespace CelmaVerif.Generated.LogDefs")
    w("")
    w("/-- relational operators as they appear in the filters -/")
    w("inductive CmpOp where")
    w("  | lt | le | gt | ge | eq | ne")
    w("  deriving DecidableEq, Repr")
    w("")
    w("/-- `a op b` on enumerator ordinals -/")
    w("def CmpOp.eval : CmpOp → Nat → Nat → Bool")
    w("  | .lt, a, b => decide (a < b)")
    w("  | .le, a, b => decide (a ≤ b)")
    w("  | .gt, a, b => decide (a > b)")
    w("  | .ge, a, b => decide (a ≥ b)")
    w("  | .eq, a, b => decide (a = b)")
    w("  | .ne, a, b => decide (a ≠ b)")
    w("")
    w("/-- what `IDuplicatePolicy::acceptNew()` does -/")
    w("inductive Accept where")
    w("  | keep      -- returns false: the existing filter stays")
    w("  | replace   -- returns true: the new filter replaces the existing one")
    w("  | throws    -- throws CelmaRuntimeError")
    w("  deriving DecidableEq, Repr")
    w("")
    w("/-- `enum class LogLevel`, in declaration order -/")
    w("def levelNames : List String := " + llist(map(lstr, levels)))
    w("def numLevels : Nat := %d" % len(levels))
    w("/-- `enum class LogClass`, in declaration order -/")
    w("def classNames : List String := " + llist(map(lstr, classes)))
    w("def numClasses : Nat := %d" % len(classes))
    w("")
    w("/-- `logLevel2text`: the `case` labels in source order, then the `default` text -/")
    w("def levelTextCases : List (Nat × List Char) := " + llist("(%d, %s)" % (i, lchars(t)) for i, t in lcases))
    w("def levelTextDefault : List Char := " + lchars(ldef))
    w("/-- `logClass2text` -/")
    w("def classTextCases : List (Nat × List Char) := " + llist("(%d, %s)" % (i, lchars(t)) for i, t in ccases))
    w("def classTextDefault : List Char := " + lchars(cdef))
    w("")
    for nm, lp, src_txt in (("Class", cloop, "text2logClass"), ("Level", lloop, "text2logLevel")):
        w("/-- `%s`: `for (int i = %d; i %s %d; i++)`, comparison %s, fallback enumerator %d -/" % (
            src_txt, lp["from"], {"le": "<=", "lt": "<"}[lp["op"]], lp["bound"], "strcasecmp" if lp["nocase"] else "strcmp", lp["fallback"]))
        w("def text2%sFrom : Nat := %d" % (nm, lp["from"]))
        w("def text2%sOp : CmpOp := .%s" % (nm, lp["op"]))
        w("def text2%sBound : Nat := %d" % (nm, lp["bound"]))
        w("def text2%sNoCase : Bool := %s" % (nm, "true" if lp["nocase"] else "false"))
        w("def text2%sFallback : Nat := %d" % (nm, lp["fallback"]))
    w("")
    w("/-- size of the class set of LogFilterClasses: `std::bitset< N>` with N = `%s` -/" % bexpr)
    w("def classBitsetSize : Nat := %d" % bsize)
    w("/-- does `LogFilterClasses::pass` use the range-checked `test()` (true) or the unchecked `operator[]` (false) -/")
    w("def classPassChecked : Bool := %s" % ("true" if bchecked else "false"))
    w("/-- separator of the class list -/")
    w("def classListSeparator : Char := '%s'" % sep)
    w("/-- the enumerator whose selection the constructor rejects (`if (log_class == LogClass::…) throw`), if any -/")
    w("def classRejected : Option Nat := %s" % ("none" if rejected is None else "some %d" % classes.index(rejected)))
    w("/-- `if (mClassSelection.none()) throw` present -/")
    w("def classEmptyRejected : Bool := %s" % ("true" if empty_rejected else "false"))
    w("")
    w("/-- `level <op> parameter` in processLevel() and in pass() of the three level filters -/")
    w("def maxLevelProcessOp : CmpOp := .%s" % mx[0])
    w("def maxLevelPassOp : CmpOp := .%s" % mx[1])
    w("def minLevelProcessOp : CmpOp := .%s" % mn[0])
    w("def minLevelPassOp : CmpOp := .%s" % mn[1])
    w("def levelProcessOp : CmpOp := .%s" % lv[0])
    w("def levelPassOp : CmpOp := .%s" % lv[1])
    w("")
    w("/-- `enum class DuplicatePolicy` -/")
    w("inductive DuplicatePolicy where")
    w("  | " + " | ".join(pol_names))
    w("  deriving DecidableEq, Repr, Inhabited")
    w("")
    w("/-- createPolicy( p)->acceptNew() -/")
    w("def acceptNew : DuplicatePolicy → Accept")
    for n in pol_names:
        w("  | .%s => .%s" % (n, pol[n]))
    w("")
    w("/-- `Filters::Filters()` calls `setDuplicatePolicy( …)` unconditionally (true) or only when no policy exists yet (false) -/")
    w("def ctorResetsPolicy : Bool := %s" % ("true" if resets else "false"))
    w("def ctorDefaultPolicy : DuplicatePolicy := .%s" % pdefault)
    w("/-- `checkSetFilter`, replace branch: `delete it` happens before `new F( …)` (true) or after it (false) -/")
    w("def replaceDeletesFirst : Bool := %s" % ("true" if deletes_first else "false"))
    w("")
    w("/-- `Logging`: first id and the `0x1 << n` limit of findCreateLog -/")
    w("def firstLogId : Nat := %d" % first_id)
    w("def logIdLimitShift : Nat := %d" % shift)
    w("")
    w("end CelmaVerif.Generated.LogDefs")
    text = "\n".join(L) + "\n"
    report = {
        "levels": levels, "classes": classes, "class_bitset_size": bsize, "class_bitset_expr": bexpr,
        "ops": {"max": mx[:2], "min": mn[:2], "level": lv[:2]}, "policies": pol, "ctor_resets_policy": resets,
        "replace_deletes_first": deletes_first, "text2logClass": cloop, "text2logLevel": lloop,
        "anchor_hashes": dict(fh, **lh),
    }
    return text, report


def translate(repo_root, lean_root):
    text, report = generate(repo_root)
    out = os.path.join(lean_root, "CelmaVerif", "Generated", "LogDefs.lean")
    os.makedirs(os.path.dirname(out), exist_ok=True)
    old = None
    try:
        old = open(out, encoding="utf-8").read()
    except OSError:
        pass
    if old != text:
        tmp = out + ".tmp%d" % os.getpid()
        with open(tmp, "w", encoding="utf-8") as f:
            f.write(text)
        os.replace(tmp, out)
    report["changed"] = old != text
    report["output"] = os.path.relpath(out, lean_root)
    return report


if __name__ == "__main__":
    import json
    repo = sys.argv[1] if len(sys.argv) > 1 else os.environ.get("CELMA_REPO", "/repo")
    if len(sys.argv) > 2 and sys.argv[2] == "--print":
        sys.stdout.write(generate(repo)[0])
    else:
        here = os.path.dirname(os.path.dirname(os.path.abspath(__file__)))
        print(json.dumps(translate(repo, os.path.join(here, "lean")), indent=1))
