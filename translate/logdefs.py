#!/usr/bin/env python3
"""translate/logdefs.py — regenerates lean/CelmaVerif/Generated/LogDefs.lean from the current source.

Reads (relative to <repo>/src):
  celma/log/detail/log_defs.hpp                      LogClass / LogLevel enumerators (order, count),
                                                     logClass2text / logLevel2text switches,
                                                     the loops of text2logClass / text2logLevel
  celma/log/filter/detail/log_filter_classes.hpp     std::bitset< EXPR > size, the indexing in pass()
  library/log/filter/detail/log_filter_classes.cpp   separator, the two `throw`s, the `set( ...)`
  celma/log/filter/detail/log_filter_{max_level,min_level,level}.hpp
                                                     comparison operator of processLevel() and pass()
  celma/log/filter/detail/duplicate_policy.hpp, duplicate_policy_factory.cpp,
  celma/log/filter/detail/duplicate_policy_<x>.hpp   which policy value gives which acceptNew() behaviour
  library/log/filter/filters.cpp                     constructor (does it overwrite the global policy?),
                                                     checkSetFilter (delete before or after `new F`?),
                                                     processLevel dispatch
  library/log/logging.cpp                            limit of findCreateLog

A construct that does not have the expected shape raises TranslateError (the tie is reported broken);
nothing is guessed.  Hashes of the hand-modelled function bodies are reported for drift detection.
"""
import hashlib
import os
import re
import sys


class TranslateError(Exception):
    pass


def strip_comments(src):
    src = re.sub(r"/\*.*?\*/", " ", src, flags=re.S)
    out = []
    for line in src.split("\n"):
        # no string literal in these files contains '//'
        i = line.find("//")
        out.append(line if i < 0 else line[:i])
    return "\n".join(out)


def read(repo, rel):
    p = os.path.join(repo, "src", rel)
    try:
        return strip_comments(open(p, encoding="utf-8", errors="replace").read())
    except OSError as e:
        raise TranslateError("cannot read %s: %s" % (rel, e))


def norm(s):
    return re.sub(r"\s+", " ", s).strip()


def body_after(src, header_rx, what):
    """text of the brace-balanced block following the first match of header_rx"""
    m = re.search(header_rx, src, flags=re.S)
    if not m:
        raise TranslateError("%s: not found" % what)
    i = src.find("{", m.end() - 1 if src[m.end() - 1] == "{" else m.end())
    if i < 0:
        raise TranslateError("%s: no body" % what)
    depth = 0
    for j in range(i, len(src)):
        if src[j] == "{":
            depth += 1
        elif src[j] == "}":
            depth -= 1
            if depth == 0:
                return src[i + 1:j]
    raise TranslateError("%s: unbalanced braces" % what)


def enum_of(src, name):
    body = body_after(src, r"enum\s+class\s+%s\b[^{;]*\{" % name, "enum " + name)
    names = []
    for part in body.split(","):
        part = part.strip()
        if not part:
            continue
        if "=" in part:
            raise TranslateError("enum %s: explicit enumerator value `%s` not understood" % (name, norm(part)))
        if not re.fullmatch(r"[A-Za-z_]\w*", part):
            raise TranslateError("enum %s: enumerator `%s` not understood" % (name, norm(part)))
        names.append(part)
    if not names:
        raise TranslateError("enum %s: empty" % name)
    return names


def text_switch(src, func, enum, names):
    """[(index, text)] in source order, default text"""
    body = body_after(src, r"\b%s\s*\([^)]*\)\s*\{" % func, func)
    sw = body_after(body, r"switch\s*\([^)]*\)\s*\{", func + " switch")
    toks = re.findall(r'case\s+%s::(\w+)\s*:|(default)\s*:|return\s+"((?:[^"\\]|\\.)*)"\s*;' % enum, sw)
    rest = re.sub(r'case\s+%s::\w+\s*:|default\s*:|return\s+"(?:[^"\\]|\\.)*"\s*;' % enum, "", sw)
    if norm(rest):
        raise TranslateError("%s: switch contains something else than case/default/return \"...\": %r" % (func, norm(rest)[:80]))
    cases, default, pending = [], None, []
    for c, d, txt in toks:
        if c:
            if c not in names:
                raise TranslateError("%s: unknown enumerator %s" % (func, c))
            pending.append(names.index(c))
        elif d:
            pending.append("default")
        else:
            if "\\" in txt:
                raise TranslateError("%s: escape sequence in text %r" % (func, txt))
            for p in pending:
                if p == "default":
                    default = txt
                else:
                    cases.append((p, txt))
            pending = []
    if pending:
        raise TranslateError("%s: labels without return" % func)
    if default is None:
        raise TranslateError("%s: no default label" % func)
    if len(set(i for i, _ in cases)) != len(cases):
        raise TranslateError("%s: duplicate case label" % func)
    return cases, default


OPS = {"<": "lt", "<=": "le", ">": "gt", ">=": "ge", "==": "eq", "!=": "ne"}
FLIP = {"lt": "gt", "le": "ge", "gt": "lt", "ge": "le", "eq": "eq", "ne": "ne"}


def text_loop(src, func, enum, names):
    body = body_after(src, r"\b%s\s*\([^)]*\)\s*\{" % func, func)
    m = re.search(r"for\s*\(\s*int\s+i\s*=\s*(\d+)\s*;\s*i\s*(<=|<)\s*static_cast\s*<\s*int\s*>\s*\(\s*%s::(\w+)\s*\)\s*"
                  r"(?:([+-])\s*(\d+)\s*)?;\s*(?:i\+\+|\+\+i)\s*\)" % enum, body)
    if not m:
        raise TranslateError("%s: loop header not understood" % func)
    if m.group(3) not in names:
        raise TranslateError("%s: unknown enumerator %s" % (func, m.group(3)))
    bound = names.index(m.group(3))
    if m.group(4):
        bound = bound + int(m.group(5)) if m.group(4) == "+" else bound - int(m.group(5))
        if bound < 0:
            raise TranslateError("%s: negative loop bound" % func)
    c = re.search(r"if\s*\(\s*(?:::)?(strcasecmp|strcmp)\s*\(\s*(\w+)\s*\(\s*static_cast\s*<\s*%s\s*>\s*\(\s*i\s*\)\s*\)\s*,"
                  r"\s*\w+\s*\)\s*==\s*0\s*\)\s*return\s+static_cast\s*<\s*%s\s*>\s*\(\s*i\s*\)\s*;" % (enum, enum), body)
    if not c:
        raise TranslateError("%s: comparison in the loop not understood" % func)
    fb = re.search(r"\}\s*return\s+%s::(\w+)\s*;\s*$" % enum, body.strip())
    if not fb or fb.group(1) not in names:
        raise TranslateError("%s: fallback return not understood" % func)
    return {"from": int(m.group(1)), "op": OPS[m.group(2)], "bound": bound, "nocase": c.group(1) == "strcasecmp",
            "via": c.group(2), "fallback": names.index(fb.group(1))}


def level_filter(repo, rel, cls, member):
    src = read(repo, rel)
    pl = norm(body_after(src, r"\b%s::processLevel\s*\([^)]*\)\s*const\s*\{" % cls, cls + "::processLevel"))
    m = re.fullmatch(r"return\s+(\w+)\s*(<=|>=|==|!=|<|>)\s*(\w+)\s*;", pl)
    if not m:
        raise TranslateError("%s::processLevel: body `%s` not understood" % (cls, pl))
    a, op, b = m.group(1), OPS[m.group(2)], m.group(3)
    if a == "l" and b == member:
        pop = op
    elif b == "l" and a == member:
        pop = FLIP[op]
    else:
        raise TranslateError("%s::processLevel: operands `%s`, `%s` not understood" % (cls, a, b))
    ps = norm(body_after(src, r"\b%s::pass\s*\([^)]*\)\s*const\s*\{" % cls, cls + "::pass"))
    if re.fullmatch(r"return\s+processLevel\s*\(\s*msg\.getLevel\s*\(\s*\)\s*\)\s*;", ps):
        sop = pop
    else:
        m = re.fullmatch(r"return\s+(msg\.getLevel\s*\(\s*\)|\w+)\s*(<=|>=|==|!=|<|>)\s*(msg\.getLevel\s*\(\s*\)|\w+)\s*;", ps)
        if not m:
            raise TranslateError("%s::pass: body `%s` not understood" % (cls, ps))
        a, op, b = m.group(1), OPS[m.group(2)], m.group(3)
        if a.startswith("msg.") and b == member:
            sop = op
        elif b.startswith("msg.") and a == member:
            sop = FLIP[op]
        else:
            raise TranslateError("%s::pass: operands not understood" % cls)
    ctor = norm(body_after(src, r"\b%s::%s\s*\([^)]*\)\s*:[^{]*\{" % (cls, cls), cls + " constructor"))
    init = re.search(r"%s::%s\s*\(\s*LogLevel\s+(\w+)\s*\)\s*:\s*IFilter\s*\(\s*FilterTypes::(\w+)\s*\)\s*,\s*%s\s*\(\s*(\w+)\s*\)" % (cls, cls, member), src)
    if not init or init.group(1) != init.group(3) or ctor:
        raise TranslateError("%s: constructor not understood" % cls)
    return pop, sop, init.group(2)


def bitset_size(repo, classes):
    src = read(repo, "celma/log/filter/detail/log_filter_classes.hpp")
    m = re.search(r"std::bitset\s*<(.*?)>\s*mClassSelection\s*;", src, flags=re.S)
    if not m:
        raise TranslateError("LogFilterClasses: bitset member not found")
    expr = norm(m.group(1))
    e = re.fullmatch(r"static_cast\s*<\s*(?:std::)?size_t\s*>\s*\(\s*LogClass::(\w+)\s*\)\s*(?:([+-])\s*(\d+))?", expr)
    if e:
        if e.group(1) not in classes:
            raise TranslateError("bitset size: unknown enumerator " + e.group(1))
        n = classes.index(e.group(1))
        if e.group(2):
            n = n + int(e.group(3)) if e.group(2) == "+" else n - int(e.group(3))
    elif re.fullmatch(r"\d+", expr):
        n = int(expr)
    else:
        raise TranslateError("bitset size expression `%s` not understood" % expr)
    if n < 0:
        raise TranslateError("bitset size negative")
    ps = norm(body_after(src, r"\bLogFilterClasses::pass\s*\([^)]*\)\s*const\s*\{", "LogFilterClasses::pass"))
    if re.fullmatch(r"return\s+mClassSelection\s*\[\s*static_cast\s*<\s*size_t\s*>\s*\(\s*msg\.getClass\s*\(\s*\)\s*\)\s*\]\s*;", ps):
        checked = False
    elif re.fullmatch(r"return\s+mClassSelection\s*\.\s*test\s*\(\s*static_cast\s*<\s*size_t\s*>\s*\(\s*msg\.getClass\s*\(\s*\)\s*\)\s*\)\s*;", ps):
        checked = True
    else:
        raise TranslateError("LogFilterClasses::pass: body `%s` not understood" % ps)
    return n, expr, checked


def classes_ctor(repo):
    src = read(repo, "library/log/filter/detail/log_filter_classes.cpp")
    body = norm(body_after(src, r"LogFilterClasses::LogFilterClasses\s*\([^)]*\)\s*:[^{]*\{", "LogFilterClasses constructor"))
    m = re.search(r"common::Tokenizer\s+\w+\s*\(\s*class_list\s*,\s*'(.)'\s*\)\s*;", body)
    if not m:
        raise TranslateError("LogFilterClasses constructor: tokenizer not understood")
    sep = m.group(1)
    if not re.search(r"log_class\s*=\s*log::detail::text2logClass\s*\(\s*it\.c_str\s*\(\s*\)\s*\)\s*;", body):
        raise TranslateError("LogFilterClasses constructor: text2logClass call not found")
    rej = re.search(r"if\s*\(\s*log_class\s*==\s*LogClass::(\w+)\s*\)\s*throw\s+CELMA_RuntimeError", body)
    if not re.search(r"mClassSelection\s*\.\s*set\s*\(\s*static_cast\s*<\s*size_t\s*>\s*\(\s*log_class\s*\)\s*\)\s*;", body):
        raise TranslateError("LogFilterClasses constructor: set( class) not found")
    empty = re.search(r"if\s*\(\s*mClassSelection\s*\.\s*none\s*\(\s*\)\s*\)\s*throw\s+CELMA_RuntimeError", body)
    return sep, (rej.group(1) if rej else None), bool(empty)


def policies(repo):
    names = enum_of(read(repo, "celma/log/filter/detail/duplicate_policy.hpp"), "DuplicatePolicy")
    fac = read(repo, "library/log/filter/detail/duplicate_policy_factory.cpp")
    body = body_after(fac, r"DuplicatePolicyFactory::createPolicy\s*\([^)]*\)\s*\{", "createPolicy")
    made = dict(re.findall(r"case\s+DuplicatePolicy::(\w+)\s*:\s*return\s+new\s+(\w+)\s*;", body))
    res = {}
    for n in names:
        if n not in made:
            raise TranslateError("createPolicy: no case for DuplicatePolicy::" + n)
        cls = made[n]
        stem = re.sub(r"(?<!^)([A-Z])", r"_\1", cls).lower()          # DuplicatePolicyIgnore -> duplicate_policy_ignore
        src = read(repo, "celma/log/filter/detail/%s.hpp" % stem)
        cbody = body_after(src, r"class\s+%s\b[^{;]*\{" % cls, "class " + cls)
        acc = norm(body_after(cbody, r"\bacceptNew\s*\(\s*\)\s*const[^{;]*\{", cls + "::acceptNew"))
        if re.fullmatch(r"return\s+false\s*;", acc):
            res[n] = "keep"
        elif re.fullmatch(r"return\s+true\s*;", acc):
            res[n] = "replace"
        elif re.fullmatch(r"throw\s+CELMA_RuntimeError\s*\(.*\)\s*;", acc):
            res[n] = "throws"
        else:
            raise TranslateError("%s::acceptNew: body `%s` not understood" % (cls, acc))
        pol = norm(body_after(cbody, r"\bpolicy\s*\(\s*\)\s*const[^{;]*\{", cls + "::policy"))
        m = re.fullmatch(r"return\s+DuplicatePolicy::(\w+)\s*;", pol)
        if not m or m.group(1) != n:
            raise TranslateError("%s::policy() does not return DuplicatePolicy::%s" % (cls, n))
    return names, res


def filters_cpp(repo, pol_names):
    src = read(repo, "library/log/filter/filters.cpp")
    ctor = norm(body_after(src, r"Filters::Filters\s*\(\s*\)\s*:[^{]*\{", "Filters constructor"))
    m = re.fullmatch(r"(if\s*\(\s*mpDuplicatePolicy(?:\.get\s*\(\s*\))?\s*==\s*nullptr\s*\)\s*)?"
                     r"setDuplicatePolicy\s*\(\s*detail::DuplicatePolicy::(\w+)\s*\)\s*;", ctor)
    if not m or m.group(2) not in pol_names:
        raise TranslateError("Filters constructor: body `%s` not understood" % ctor)
    resets = m.group(1) is None
    default = m.group(2)
    sdp = norm(body_after(src, r"void\s+Filters::setDuplicatePolicy\s*\([^)]*\)\s*\{", "setDuplicatePolicy"))
    if not re.fullmatch(r"if\s*\(\s*\(\s*mpDuplicatePolicy\.get\s*\(\s*\)\s*==\s*nullptr\s*\)\s*\|\|\s*\(\s*mpDuplicatePolicy->policy\s*\(\s*\)"
                        r"\s*!=\s*policy\s*\)\s*\)\s*mpDuplicatePolicy\.reset\s*\(\s*detail::DuplicatePolicyFactory::createPolicy\s*\(\s*policy\s*\)\s*\)\s*;", sdp):
        raise TranslateError("setDuplicatePolicy: body `%s` not understood" % sdp)
    csf = norm(body_after(src, r"void\s+Filters::checkSetFilter\s*\([^)]*\)\s*\{", "checkSetFilter"))
    head = (r"for\s*\(\s*auto\s*&\s*it\s*:\s*mFilters\s*\)\s*\{\s*if\s*\(\s*it->filterType\s*\(\s*\)\s*==\s*filter_type\s*\)\s*\{\s*"
            r"if\s*\(\s*mpDuplicatePolicy->acceptNew\s*\(\s*\)\s*\)\s*\{\s*")
    tail = (r"\s*\}\s*if\s*\(\s*detail::IFilter::isLevelFilter\s*\(\s*filter_type\s*\)\s*\)\s*mpLevelFilter\s*=\s*it\s*;\s*return\s*;\s*\}\s*\}\s*"
            r"mFilters\.push_back\s*\(\s*new\s+F\s*\(\s*filter_param\s*\)\s*\)\s*;\s*"
            r"if\s*\(\s*detail::IFilter::isLevelFilter\s*\(\s*filter_type\s*\)\s*\)\s*mpLevelFilter\s*=\s*mFilters\.back\s*\(\s*\)\s*;")
    del_first = r"delete\s+it\s*;\s*it\s*=\s*new\s+F\s*\(\s*filter_param\s*\)\s*;"
    new_first = r"auto\s+(\w+)\s*=\s*new\s+F\s*\(\s*filter_param\s*\)\s*;\s*delete\s+it\s*;\s*it\s*=\s*(\w+)\s*;"
    if re.fullmatch(head + del_first + tail, csf):
        deletes_first = True
    else:
        m = re.fullmatch(head + new_first + tail, csf)
        if not m or m.group(1) != m.group(2):
            raise TranslateError("checkSetFilter: body not understood: `%s`" % csf[:400])
        deletes_first = False
    lvl = norm(body_after(read(repo, "celma/log/filter/detail/i_filter.hpp"), r"IFilter::isLevelFilter\s*\([^)]*\)\s*\{", "isLevelFilter"))
    lv = re.fullmatch(r"return\s*\(\s*ft\s*==\s*FilterTypes::(\w+)\s*\)\s*\|\|\s*\(\s*ft\s*==\s*FilterTypes::(\w+)\s*\)\s*\|\|\s*"
                      r"\(\s*ft\s*==\s*FilterTypes::(\w+)\s*\)\s*;", lvl)
    if not lv:
        raise TranslateError("isLevelFilter: body `%s` not understood" % lvl)
    level_types = sorted(lv.groups())
    ps = norm(body_after(src, r"bool\s+Filters::pass\s*\([^)]*\)\s*const\s*\{", "Filters::pass"))
    if not re.fullmatch(r"for\s*\(\s*auto\s*&\s*it\s*:\s*mFilters\s*\)\s*\{\s*if\s*\(\s*!\s*it->passFilter\s*\(\s*msg\s*\)\s*\)\s*return\s+false\s*;\s*\}\s*return\s+true\s*;", ps):
        raise TranslateError("Filters::pass: body `%s` not understood" % ps)
    pl = norm(body_after(src, r"bool\s+Filters::processLevel\s*\([^)]*\)\s*const\s*\{", "Filters::processLevel"))
    if not re.match(r"if\s*\(\s*mpLevelFilter\s*==\s*nullptr\s*\)\s*return\s+true\s*;\s*switch\s*\(\s*mpLevelFilter->filterType\s*\(\s*\)\s*\)", pl):
        raise TranslateError("Filters::processLevel: head not understood")
    disp = re.findall(r"case\s+detail::IFilter::FilterTypes::(\w+)\s*:\s*return\s+static_cast\s*<\s*detail::(\w+)\s*\*\s*>\s*\(\s*mpLevelFilter\s*\)\s*->\s*processLevel\s*\(\s*l\s*\)\s*;", pl)
    if not re.search(r"default\s*:\s*throw\s+std::invalid_argument", pl):
        raise TranslateError("Filters::processLevel: default branch not understood")
    return resets, default, deletes_first, level_types, dict(disp), {
        "checkSetFilter": hashlib.sha256(csf.encode()).hexdigest()[:12],
        "Filters::pass": hashlib.sha256(ps.encode()).hexdigest()[:12],
        "Filters::processLevel": hashlib.sha256(pl.encode()).hexdigest()[:12]}


def logging_cpp(repo):
    src = read(repo, "library/log/logging.cpp")
    fc = norm(body_after(src, r"id_t\s+Logging::findCreateLog\s*\([^)]*\)\s*\{", "findCreateLog"))
    m = re.search(r"if\s*\(\s*mNextLogId\s*==\s*static_cast\s*<\s*id_t\s*>\s*\(\s*\(\s*0x1\s*<<\s*(\d+)\s*\)\s*\)\s*\)\s*throw\s+CELMA_RuntimeError", fc)
    if not m:
        raise TranslateError("findCreateLog: limit check not understood")
    if not re.search(r"mNextLogId\s*<<=\s*1\s*;", fc):
        raise TranslateError("findCreateLog: id shift not understood")
    hdr = read(repo, "celma/log/logging.hpp")
    first = re.search(r"id_t\s+mNextLogId\s*=\s*(0x[0-9a-fA-F]+|\d+)\s*;", hdr)
    if not first:
        raise TranslateError("Logging::mNextLogId initialiser not understood")
    hashes = {"findCreateLog": hashlib.sha256(fc.encode()).hexdigest()[:12]}
    for fn, rx in (("Logging::log(id)", r"void\s+Logging::log\s*\(\s*id_t[^)]*\)\s*\{"),
                   ("Logging::log(name)", r"void\s+Logging::log\s*\(\s*const\s+std::string[^)]*\)\s*\{"),
                   ("Logging::getLog(id)", r"Logging::getLog\s*\(\s*id_t[^)]*\)\s*\{")):
        hashes[fn] = hashlib.sha256(norm(body_after(src, rx, fn)).encode()).hexdigest()[:12]
    lg = read(repo, "library/log/detail/log.cpp")
    hashes["Log::message"] = hashlib.sha256(norm(body_after(lg, r"void\s+Log::message\s*\([^)]*\)\s*const\s*\{", "Log::message")).encode()).hexdigest()[:12]
    ld = read(repo, "library/log/detail/i_log_dest.cpp")
    hashes["ILogDest::handleMessage"] = hashlib.sha256(norm(body_after(ld, r"void\s+ILogDest::handleMessage\s*\([^)]*\)\s*\{", "handleMessage")).encode()).hexdigest()[:12]
    hf = read(repo, "celma/log/detail/helper_function.hpp")
    hashes["discard_by_level"] = hashlib.sha256(norm(body_after(hf, r"bool\s+discard_by_level\s*\([^)]*\)\s*\{", "discard_by_level")).encode()).hexdigest()[:12]
    if int(m.group(1)) >= 32:
        raise TranslateError("findCreateLog: limit 0x1 << %s does not fit id_t" % m.group(1))
    return int(m.group(1)), int(first.group(1), 0), hashes


def lstr(s):
    return '"' + s.replace("\\", "\\\\").replace('"', '\\"') + '"'


def lchars(s):
    """a C string literal as a `List Char` term (the kernel evaluates these without string primitives)"""
    for ch in s:
        if not (32 <= ord(ch) < 127) or ch in "'\\":
            raise TranslateError("character %r in a text table entry not supported" % ch)
    return "[" + ", ".join("'%s'" % ch for ch in s) + "]"


def llist(items):
    return "[" + ", ".join(items) + "]"


def generate(repo):
    defs = read(repo, "celma/log/detail/log_defs.hpp")
    classes = enum_of(defs, "LogClass")
    levels = enum_of(defs, "LogLevel")
    ccases, cdef = text_switch(defs, "logClass2text", "LogClass", classes)
    lcases, ldef = text_switch(defs, "logLevel2text", "LogLevel", levels)
    cloop = text_loop(defs, "text2logClass", "LogClass", classes)
    lloop = text_loop(defs, "text2logLevel", "LogLevel", levels)
    if cloop["via"] != "logClass2text" or lloop["via"] != "logLevel2text":
        raise TranslateError("text2log*: unexpected text function")
    bsize, bexpr, bchecked = bitset_size(repo, classes)
    sep, rejected, empty_rejected = classes_ctor(repo)
    if rejected is not None and rejected not in classes:
        raise TranslateError("LogFilterClasses constructor: unknown enumerator " + rejected)
    d = "celma/log/filter/detail/"
    mx = level_filter(repo, d + "log_filter_max_level.hpp", "LogFilterMaxLevel", "mMaxLevel")
    mn = level_filter(repo, d + "log_filter_min_level.hpp", "LogFilterMinLevel", "mMinLevel")
    lv = level_filter(repo, d + "log_filter_level.hpp", "LogFilterLevel", "mLevel")
    if (mx[2], mn[2], lv[2]) != ("maxLevel", "minLevel", "level"):
        raise TranslateError("level filter classes register unexpected filter types %s" % ((mx[2], mn[2], lv[2]),))
    pol_names, pol = policies(repo)
    for need in ("ignore", "exception", "replace"):
        if need not in pol_names:
            raise TranslateError("DuplicatePolicy::%s missing" % need)
    resets, pdefault, deletes_first, level_types, dispatch, fh = filters_cpp(repo, pol_names)
    if level_types != sorted(["maxLevel", "minLevel", "level"]):
        raise TranslateError("isLevelFilter names %s" % level_types)
    if dispatch != {"maxLevel": "LogFilterMaxLevel", "minLevel": "LogFilterMinLevel", "level": "LogFilterLevel"}:
        raise TranslateError("Filters::processLevel dispatch %s not understood" % dispatch)
    shift, first_id, lh = logging_cpp(repo)

    L = []
    w = L.append
    w("/-")
    w("  GENERATED by translate/logdefs.py from the C++ source — do not edit.")
    w("  Enumerations, text tables, the class-set size, the filters' comparison operators and the")
    w("  duplicate policies as the code has them now.  Core Lean only.")
    w("-/")
    w("namespace CelmaVerif.Generated.LogDefs")
    w("")
    w("/-- relational operators as they appear in the filters -/")
    w("inductive CmpOp where")
    w("  | lt | le | gt | ge | eq | ne")
    w("  deriving DecidableEq, Repr")
    w("")
    w("/-- `a op b` on enumerator ordinals -/")
    w("def CmpOp.eval : CmpOp → Nat → Nat → Bool")
    w("  | .lt, a, b => decide (a < b)")
    w("  | .le, a, b => decide (a ≤ b)")
    w("  | .gt, a, b => decide (a > b)")
    w("  | .ge, a, b => decide (a ≥ b)")
    w("  | .eq, a, b => decide (a = b)")
    w("  | .ne, a, b => decide (a ≠ b)")
    w("")
    w("/-- what `IDuplicatePolicy::acceptNew()` does -/")
    w("inductive Accept where")
    w("  | keep      -- returns false: the existing filter stays")
    w("  | replace   -- returns true: the new filter replaces the existing one")
    w("  | throws    -- throws CelmaRuntimeError")
    w("  deriving DecidableEq, Repr")
    w("")
    w("/-- `enum class LogLevel`, in declaration order -/")
    w("def levelNames : List String := " + llist(map(lstr, levels)))
    w("def numLevels : Nat := %d" % len(levels))
    w("/-- `enum class LogClass`, in declaration order -/")
    w("def classNames : List String := " + llist(map(lstr, classes)))
    w("def numClasses : Nat := %d" % len(classes))
    w("")
    w("/-- `logLevel2text`: the `case` labels in source order, then the `default` text -/")
    w("def levelTextCases : List (Nat × List Char) := " + llist("(%d, %s)" % (i, lchars(t)) for i, t in lcases))
    w("def levelTextDefault : List Char := " + lchars(ldef))
    w("/-- `logClass2text` -/")
    w("def classTextCases : List (Nat × List Char) := " + llist("(%d, %s)" % (i, lchars(t)) for i, t in ccases))
    w("def classTextDefault : List Char := " + lchars(cdef))
    w("")
    for nm, lp, src_txt in (("Class", cloop, "text2logClass"), ("Level", lloop, "text2logLevel")):
        w("/-- `%s`: `for (int i = %d; i %s %d; i++)`, comparison %s, fallback enumerator %d -/" % (
            src_txt, lp["from"], {"le": "<=", "lt": "<"}[lp["op"]], lp["bound"], "strcasecmp" if lp["nocase"] else "strcmp", lp["fallback"]))
        w("def text2%sFrom : Nat := %d" % (nm, lp["from"]))
        w("def text2%sOp : CmpOp := .%s" % (nm, lp["op"]))
        w("def text2%sBound : Nat := %d" % (nm, lp["bound"]))
        w("def text2%sNoCase : Bool := %s" % (nm, "true" if lp["nocase"] else "false"))
        w("def text2%sFallback : Nat := %d" % (nm, lp["fallback"]))
    w("")
    w("/-- `std::bitset< %s>  mClassSelection` -/" % bexpr)
    w("def classBitsetSize : Nat := %d" % bsize)
    w("/-- does `LogFilterClasses::pass` use the range-checked `test()` (true) or the unchecked `operator[]` (false) -/")
    w("def classPassChecked : Bool := %s" % ("true" if bchecked else "false"))
    w("/-- separator of the class list -/")
    w("def classListSeparator : Char := '%s'" % sep)
    w("/-- the enumerator whose selection the constructor rejects (`if (log_class == LogClass::…) throw`), if any -/")
    w("def classRejected : Option Nat := %s" % ("none" if rejected is None else "some %d" % classes.index(rejected)))
    w("/-- `if (mClassSelection.none()) throw` present -/")
    w("def classEmptyRejected : Bool := %s" % ("true" if empty_rejected else "false"))
    w("")
    w("/-- `level <op> parameter` in processLevel() and in pass() of the three level filters -/")
    w("def maxLevelProcessOp : CmpOp := .%s" % mx[0])
    w("def maxLevelPassOp : CmpOp := .%s" % mx[1])
    w("def minLevelProcessOp : CmpOp := .%s" % mn[0])
    w("def minLevelPassOp : CmpOp := .%s" % mn[1])
    w("def levelProcessOp : CmpOp := .%s" % lv[0])
    w("def levelPassOp : CmpOp := .%s" % lv[1])
    w("")
    w("/-- `enum class DuplicatePolicy` -/")
    w("inductive DuplicatePolicy where")
    w("  | " + " | ".join(pol_names))
    w("  deriving DecidableEq, Repr, Inhabited")
    w("")
    w("/-- createPolicy( p)->acceptNew() -/")
    w("def acceptNew : DuplicatePolicy → Accept")
    for n in pol_names:
        w("  | .%s => .%s" % (n, pol[n]))
    w("")
    w("/-- `Filters::Filters()` calls `setDuplicatePolicy( …)` unconditionally (true) or only when no policy exists yet (false) -/")
    w("def ctorResetsPolicy : Bool := %s" % ("true" if resets else "false"))
    w("def ctorDefaultPolicy : DuplicatePolicy := .%s" % pdefault)
    w("/-- `checkSetFilter`, replace branch: `delete it` happens before `new F( …)` (true) or after it (false) -/")
    w("def replaceDeletesFirst : Bool := %s" % ("true" if deletes_first else "false"))
    w("")
    w("/-- `Logging`: first id and the `0x1 << n` limit of findCreateLog -/")
    w("def firstLogId : Nat := %d" % first_id)
    w("def logIdLimitShift : Nat := %d" % shift)
    w("")
    w("end CelmaVerif.Generated.LogDefs")
    text = "\n".join(L) + "\n"
    report = {
        "levels": levels, "classes": classes, "class_bitset_size": bsize, "class_bitset_expr": bexpr,
        "ops": {"max": mx[:2], "min": mn[:2], "level": lv[:2]}, "policies": pol, "ctor_resets_policy": resets,
        "replace_deletes_first": deletes_first, "text2logClass": cloop, "text2logLevel": lloop,
        "anchor_hashes": dict(fh, **lh),
    }
    return text, report


def translate(repo_root, lean_root):
    text, report = generate(repo_root)
    out = os.path.join(lean_root, "CelmaVerif", "Generated", "LogDefs.lean")
    os.makedirs(os.path.dirname(out), exist_ok=True)
    old = None
    try:
        old = open(out, encoding="utf-8").read()
    except OSError:
        pass
    if old != text:
        tmp = out + ".tmp%d" % os.getpid()
        with open(tmp, "w", encoding="utf-8") as f:
            f.write(text)
        os.replace(tmp, out)
    report["changed"] = old != text
    report["output"] = os.path.relpath(out, lean_root)
    return report


if __name__ == "__main__":
    import json
    repo = sys.argv[1] if len(sys.argv) > 1 else os.environ.get("CELMA_REPO", "/repo")
    if len(sys.argv) > 2 and sys.argv[2] == "--print":
        sys.stdout.write(generate(repo)[0])
    else:
        here = os.path.dirname(os.path.dirname(os.path.abspath(__file__)))
        print(json.dumps(translate(repo, os.path.join(here, "lean")), indent=1))
