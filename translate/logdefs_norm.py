#!/usr/bin/env python3
"""translate/logdefs_norm.py — normal form of a C++ function body (used by translate/logdefs.py, property C14).

`Norm.beh( func)` evaluates the parsed body symbolically, in continuation-passing style, to a decision tree:

  ('ret', e)  ('end',)  ('throw', class)  ('cont', level)  ('brk', level)
  ('ite', atomic condition, then, else)        conditions: no !, &&, ||, ?:, !=, >, >=, no `== nullptr/0`
  ('seq', effect expression, rest)
  ('let', name, init, rest)                     only where the local cannot be substituted
  ('loop', spec, body, after)                   spec = ('each', var, container) | ('range', var, from, op, bound)
                                                       | ('while', cond)

so that early return / enclosing if, switch / if chain, for / while / do-while over the same counter, range-for /
iterator-for / index-for / std::all_of|any_of|none_of, ternary / if-else, named locals / inlined expressions,
named constants / literals, `!p` / `p == nullptr`, casts spelt differently, helper functions of the same class or
file / inline code all give the same tree.  Parameters, locals and loop variables are renamed positionally
($p0, $l0, $v0), members can be renamed by role by the caller.  What is not understood raises TranslateError.

Constant arrays (local, namespace or class scope; `T t[ N] = { … }`, `std::array< T, N>`) normalise to the value
('table', element type, (items…)); `t[ constant]` is the item, `sizeof( t) / sizeof( t[ 0])`, `std::size( t)`, `t.size()`
the item count; `static_assert` is evaluated (false: TranslateError) and dropped.  A call `f< T…>( …)` of a file-local or
same-class function template whose parameters are all type parameters given explicitly is inlined per instantiation
(token substitution of the parameters).  With `ucast=True` conversions of non-constants to unsigned integer types are
kept as ('ucast', bits, e) (used for the text functions, which are then evaluated over all argument values).
"""
from logdefs_cxx import (TranslateError, Parser, Func, text_of, is_p, is_id, TYPE_KW, lex, split_top, Tok)

INT_TYPES = {"int", "unsigned", "unsigned int", "long", "unsigned long", "long long", "unsigned long long", "short",
             "unsigned short", "size_t", "std::size_t", "id_t", "uint32_t", "std::uint32_t", "uint64_t", "int32_t", "int64_t",
             "long unsigned int", "long int", "signed", "signed int"}
PURE_STD = {"c_str", "get", "size", "length", "none", "any", "all", "empty", "back", "front", "begin", "end", "cbegin", "cend",
            "test", "count", "strcasecmp", "strcmp", "strncmp", "strlen", "std::min", "std::max", "std::begin", "std::end",
            "data", "std::string", "std::tolower", "std::toupper", "tolower", "toupper"}
ALGOS = {"std::all_of": "all", "std::any_of": "any", "std::none_of": "none"}


class K:
    """continuations of the statement being evaluated"""

    def __init__(self, fall, ret, brk=None, cont=None, level=0):
        self.fall, self.ret, self.brk, self.cont, self.level = fall, ret, brk, cont, level

    def with_(self, **kw):
        k = K(self.fall, self.ret, self.brk, self.cont, self.level)
        for a, b in kw.items():
            setattr(k, a, b)
        return k


class Ctx:
    def __init__(self, func, keep, depth):
        self.func, self.keep, self.depth = func, keep, depth
        self.cls = func.cls if func is not None else None
        self.file = func.file if func is not None else None
        self.mutated = set()
        self.counter = [0]
        self.ucast = False          # keep conversions of non-constant values to unsigned types as ('ucast', bits, e)
        self.const_locals = {}      # raw local name -> constant initialiser (for static_assert)

    def fresh(self, name):
        self.counter[0] += 1
        return "%%%s#%d" % (name, self.counter[0])


class Norm:
    def __init__(self, index):
        self.ix = index
        self.type_names = set(index.classes) | set(index.enums) | {k[1] for k in index.aliases} | {"id_t", "size_t", "uint32_t"}
        self._pure_cache = {}
        self._parsed = {}

    # ------------------------------------------------------------------ names and types
    def canon_id(self, name):
        parts = [p for p in name.split("::") if p]
        if parts and parts[0] == "std":
            return "::".join(parts)
        # keep from the last enum component, else from the last class component, else the last component
        for k in range(len(parts) - 2, -1, -1):
            if parts[k] in self.ix.enums:
                return "::".join(parts[k:])
        if len(parts) >= 2 and parts[-2] in self.ix.classes:
            return "::".join(parts[-2:])
        return parts[-1] if parts else name

    def canon_type(self, ty, cls=None):
        toks = lex(ty, "type")
        toks = self.ix.resolve_type(toks, cls)
        words = []
        cur = []
        for t in toks:
            if t[0] == "id" and t[1] in ("const", "volatile", "typename", "struct", "class", "enum"):
                continue
            cur.append(t)
        # strip namespace qualifiers
        out = []
        i = 0
        while i < len(cur):
            t = cur[i]
            if t[0] == "id" and i + 1 < len(cur) and is_p(cur[i + 1], "::") and t[1] not in self.ix.classes and \
                    t[1] not in self.ix.enums and t[1] != "std":
                i += 2
                continue
            if t[0] == "id" and i + 1 < len(cur) and is_p(cur[i + 1], "::") and t[1] in self.ix.classes and \
                    i + 2 < len(cur) and cur[i + 2][0] == "id" and cur[i + 2][1] in self.ix.enums:
                i += 2
                continue
            out.append(t[1])
            i += 1
        del words
        s = " ".join(out).replace("std :: ", "std::").replace(" :: ", "::")
        return s

    def is_int_like(self, cty):
        base = cty.replace("&", "").strip()
        return base in INT_TYPES or base in self.ix.enums or base.split("::")[-1] in self.ix.enums or \
            all(w in TYPE_KW and w not in ("bool", "char", "float", "double", "void", "auto") for w in base.split())

    # ------------------------------------------------------------------ parsing (cached)
    def stmts_of(self, func):
        if getattr(func, "_stmts", None) is None:
            what = (func.cls + "::" if func.cls else "") + func.name
            func._stmts = Parser(func.body, what, self.type_names).parse_all()
        return func._stmts

    def parse_expr_tokens(self, toks, what):
        return Parser(list(toks), what, self.type_names).full_expr()

    # ------------------------------------------------------------------ constant evaluation
    def enum_value(self, cid):
        parts = cid.split("::")
        if len(parts) >= 2 and parts[-2] in self.ix.enums:
            for n, v in self.ix.enums[parts[-2]]:
                if n == parts[-1]:
                    return v
        return None

    def const_eval(self, e, what="constant"):
        """integer value of a normalised expression or TranslateError"""
        k = e[0]
        if k == "num":
            return e[1]
        if k == "bool":
            return int(e[1])
        if k == "id":
            v = self.enum_value(e[1])
            if v is not None:
                return v
            raise TranslateError("%s: `%s` is not a known constant" % (what, e[1]))
        if k == "cast":
            return self.const_eval(e[2], what)
        if k == "un" and e[1] in ("-", "+", "~", "!"):
            v = self.const_eval(e[2], what)
            return {"-": -v, "+": v, "~": ~v, "!": int(not v)}[e[1]]
        if k == "bin":
            a, b = self.const_eval(e[2], what), self.const_eval(e[3], what)
            op = e[1]
            try:
                return {"+": lambda: a + b, "-": lambda: a - b, "*": lambda: a * b, "/": lambda: a // b, "%": lambda: a % b,
                        "<<": lambda: a << b, ">>": lambda: a >> b, "&": lambda: a & b, "|": lambda: a | b, "^": lambda: a ^ b,
                        "<": lambda: int(a < b), "<=": lambda: int(a <= b), "==": lambda: int(a == b),
                        "&&": lambda: int(bool(a) and bool(b)), "||": lambda: int(bool(a) or bool(b))}[op]()
            except (KeyError, ZeroDivisionError, ValueError):
                raise TranslateError("%s: operator %s not evaluated" % (what, op))
        if k == "cond":
            return self.const_eval(e[2] if self.const_eval(e[1], what) else e[3], what)
        raise TranslateError("%s: expression %s is not constant" % (what, show(e)))

    def lookup_const(self, name, ctx):
        """initialiser expression of a named constant visible from ctx, or None"""
        parts = [p for p in name.split("::") if p]
        cands = []
        if len(parts) >= 2 and (parts[-2], parts[-1]) in self.ix.consts:
            cands.append((parts[-2], parts[-1]))
        if len(parts) == 1 or not cands:
            if ctx is not None and ctx.cls is not None and (ctx.cls, parts[-1]) in self.ix.consts:
                cands.append((ctx.cls, parts[-1]))
            elif (None, parts[-1]) in self.ix.consts:
                cands.append((None, parts[-1]))
        if not cands:
            return None
        cls, nm = cands[0]
        init, _ = self.ix.consts[(cls, nm)]
        sub = Ctx(None, frozenset(), 0)
        sub.cls = cls
        if (cls, nm) in self.ix.arrays:
            elem, size, is_std = self.ix.arrays[(cls, nm)]
            items = [self.parse_expr_tokens(p, "table " + nm) for p in split_top(init) if p]
            size_e = self.parse_expr_tokens(size, "size of table " + nm) if size else None
            return self.make_table(text_of(elem), nm, size_e, items, is_std, {}, sub)
        e = self.parse_expr_tokens(init, "constant " + nm)
        return self.nx(e, {}, sub)

    def make_table(self, elem_ty, name, size_e, items, is_std, env, ctx):
        """value of a constant array: ('table', canonical element type, (normalised items…))"""
        if is_std and len(items) == 1 and items[0][0] == "initlist":
            items = items[0][1]
        vals = tuple(self.nx(x, env, ctx) for x in items)
        if not vals:
            raise TranslateError("table %s: no elements" % name)
        for v in vals:
            if v[0] == "initlist":
                raise TranslateError("table %s: nested initialiser list not supported" % name)
            if not self.pure(v, ctx):
                raise TranslateError("table %s: element with side effects" % name)
        if size_e is not None:
            n = self.const_eval(self.nx(size_e, env, ctx), "size of table " + name)
            if n != len(vals):
                raise TranslateError("table %s: %d elements declared, %d initialised: not supported" % (name, n, len(vals)))
        return ("table", self.canon_type(elem_ty, ctx.cls), vals)

    def table_elem(self, tbl, i):
        n = self.const_eval(i, "table index")
        if not 0 <= n < len(tbl[2]):
            raise TranslateError("table of %d elements read at index %d" % (len(tbl[2]), n))
        return tbl[2][n]

    def size_of(self, raw, env, ctx):
        """sizeof( expression) as n * esize( element type) for a table, esize( element type) for one of its elements"""
        if raw[0] == "index" or (raw[0] == "un" and raw[1] == "*"):
            base = self.nx(raw[1] if raw[0] == "index" else raw[2], env, ctx)
            if base[0] == "table":
                return ("esize", base[1])
        else:
            a = self.nx(raw, env, ctx)
            if a[0] == "table":
                return ("bin", "*", ("num", len(a[2])), ("esize", a[1]))
        raise TranslateError("sizeof operand `%s` not understood" % show(raw))

    # ------------------------------------------------------------------ expressions
    def nx(self, e, env, ctx):
        k = e[0]
        if k in ("num", "str", "chr", "bool", "null", "this"):
            return e
        if k == "id":
            if e[1] in env:
                return env[e[1]]
            c = self.lookup_const(e[1], ctx)
            if c is not None:
                return c
            return ("id", self.canon_id(e[1]))
        if k == "tid":
            return ("tid", self.canon_id(e[1]), ", ".join(self.canon_type(t.strip(), ctx.cls) for t in e[2].split(",")))
        if k == "un":
            a = self.nx(e[2], env, ctx)
            if e[1] == "*":
                if a[0] == "iter":
                    return a[1]
                if a[0] == "this":
                    return a
                return ("un", "*", a)
            if e[1] == "!":
                return neg(a)
            if e[1] == "+":
                return a
            if e[1] in ("-", "~") and a[0] == "num":
                return ("num", -a[1] if e[1] == "-" else ~a[1])
            return ("un", e[1], a)
        if k == "member":
            o = self.nx(e[1], env, ctx)
            if o[0] == "un" and o[1] == "*":
                o = o[2]
            if o[0] == "iter":
                o = o[1]
            if o[0] == "this":
                return self.nx(("id", e[2]), env, ctx)
            return ("member", o, e[2])
        if k == "index":
            o, i = self.nx(e[1], env, ctx), self.nx(e[2], env, ctx)
            if i[0] == "idx" and i[1] == o:
                return i[2]
            if o[0] == "table" and (i[0] == "num" or const_like(i)):
                return self.table_elem(o, i)
            return ("index", o, i)
        if k == "sizeof_t":
            return ("esize", self.canon_type(e[1], ctx.cls))
        if k == "sizeof_e":
            return self.size_of(e[1], env, ctx)
        if k in ("table", "esize", "ucast"):
            return e
        if k == "cast":
            a = self.nx(e[2], env, ctx)
            ty = self.canon_type(e[1], ctx.cls)
            if self.is_int_like(ty):
                if ctx.ucast and ty in UNSIGNED_BITS and a[0] not in ("num", "bool") and self.enum_value(a[1] if a[0] == "id" else "") is None:
                    return ("ucast", UNSIGNED_BITS[ty], a)
                return a
            return ("cast", ty, a)
        if k == "call":
            args = [self.nx(a, env, ctx) for a in e[2]]
            f = self.nx(e[1], env, ctx) if e[1][0] != "id" or e[1][1] in env else ("id", self.canon_id(e[1][1]))
            if f[0] == "tid" and f[1].split("::")[-1] in ("size", "min", "max") and f[1].startswith("std::"):
                f = ("id", f[1])
            if f[0] == "member" and f[2] == "get" and not args:
                return f[1]
            if f[0] == "member" and f[1][0] == "table":
                if f[2] == "size" and not args:
                    return ("num", len(f[1][2]))
                if f[2] == "at" and len(args) == 1:
                    return self.nx(("index", f[1], args[0]), env, ctx)
                raise TranslateError("member %s of a constant table not understood" % f[2])
            if f == ("id", "std::size") and len(args) == 1 and args[0][0] == "table":
                return ("num", len(args[0][2]))
            if f[0] == "lambda":
                raise TranslateError("immediately invoked lambda is not supported")
            if f == ("id", "std::min") or f == ("id", "std::max"):
                if len(args) == 2:
                    a, b = args
                    c = cmp_norm("<", b, a) if f[1] == "std::min" else cmp_norm("<", a, b)
                    return ("cond", c, b, a)
            call = ("call", f, args)
            r = self.inline_expr(call, ctx)
            return r if r is not None else call
        if k == "bin":
            a, b = self.nx(e[2], env, ctx), self.nx(e[3], env, ctx)
            op = e[1]
            if op in ("==", "!=", "<", "<=", ">", ">="):
                return cmp_norm(op, a, b)
            if op in ("&&", "||"):
                return ("bin", op, a, b)
            if a[0] == "num" and b[0] == "num":
                try:
                    return ("num", self.const_eval(("bin", op, a, b)))
                except TranslateError:
                    pass
            if op == "/" and b[0] == "esize" and a[0] == "bin" and a[1] == "*" and a[2][0] == "num" and a[3] == b:
                return a[2]             # sizeof( table) / sizeof( table[ 0])
            return ("bin", op, a, b)
        if k == "assign":
            return ("assign", e[1], self.nx(e[2], env, ctx), self.nx(e[3], env, ctx))
        if k == "incdec":
            a = self.nx(e[2], env, ctx)
            return ("assign", "+=" if e[1] == "++" else "-=", a, ("num", 1))
        if k == "cond":
            return ("cond", self.nx(e[1], env, ctx), self.nx(e[2], env, ctx), self.nx(e[3], env, ctx))
        if k == "new":
            return ("new", self.canon_type(e[1], ctx.cls), [self.nx(a, env, ctx) for a in e[2]])
        if k == "construct":
            return ("construct", self.canon_type(e[1], ctx.cls), [self.nx(a, env, ctx) for a in e[2]])
        if k == "delete":
            return ("delete", self.nx(e[1], env, ctx))
        if k == "throw":
            return ("throw", self.nx(e[1], env, ctx) if e[1] is not None else None)
        if k == "lambda":
            return ("lambda", e[1], e[2], Frozen(env))
        if k == "comma":
            return ("comma", self.nx(e[1], env, ctx), self.nx(e[2], env, ctx))
        if k == "initlist":
            return ("initlist", [self.nx(a, env, ctx) for a in e[1]])
        if k in ("iter", "idx", "uninit"):
            return e
        raise TranslateError("expression kind %s not supported" % k)

    # ------------------------------------------------------------------ purity
    def pure(self, e, ctx=None):
        if not isinstance(e, tuple):
            if isinstance(e, list):
                return all(self.pure(x, ctx) for x in e)
            return True
        k = e[0] if e else None
        if k in ("assign", "new", "delete", "throw", "construct", "uninit"):
            return False
        if k == "lambda":
            return True
        if k == "call":
            f = e[1]
            name = f[1] if f[0] in ("id", "tid") else f[2] if f[0] == "member" else None
            if name is None:
                return False
            if not (name in PURE_STD or name.split("::")[-1] in PURE_STD and (f[0] == "member" or name.startswith("std::"))
                    or self.project_pure(name.split("::")[-1], len(e[2]))):
                return False
            return all(self.pure(x, ctx) for x in e[2]) and (f[0] != "member" or self.pure(f[1], ctx))
        return all(self.pure(x, ctx) for x in e[1:])

    def project_pure(self, name, nargs):
        fs = [f for f in self.ix.funcs if f.name == name and len(f.params) == nargs]
        if not fs:
            return False
        for f in fs:
            key = id(f)
            if key not in self._pure_cache:
                self._pure_cache[key] = False          # recursion guard
                try:
                    t = self.beh(f, keep=frozenset(), rename=False)
                    self._pure_cache[key] = not has_effects(t)
                except TranslateError:
                    self._pure_cache[key] = False
            if not self._pure_cache[key]:
                return False
        return True

    # ------------------------------------------------------------------ helper inlining
    def resolve_helper(self, call, ctx):
        """the Func to inline for this call, or None: member functions of the same class called without an object,
        and file-local (static / anonymous namespace) functions of the same file"""
        f = call[1]
        if f[0] not in ("id", "tid") or ctx.func is None and ctx.cls is None:
            return None
        parts = f[1].split("::")
        name = parts[-1]
        if name in ctx.keep or ctx.depth > 6:
            return None
        cands = []
        if len(parts) == 1 or (len(parts) == 2 and parts[0] == ctx.cls):
            if ctx.cls is not None:
                cands = [g for g in self.ix.find_funcs(ctx.cls, name) if len(g.params) == len(call[2])]
            if not cands and len(parts) == 1:
                cands = [g for g in self.ix.funcs if g.name == name and g.cls is None and g.file == ctx.file
                         and ({"static", "anon-ns"} & g.specs) and len(g.params) == len(call[2])]
        if len(cands) != 1 or origin_of(cands[0]) is origin_of(ctx.func):
            return None
        g = cands[0]
        if f[0] == "tid":
            # function template called with explicit template arguments: inlined per instantiation
            return self.instantiate(g, f[2]) if g.template else None
        if g.template:
            return None
        return g

    def instantiate(self, g, targs_text):
        """the function template g with its type parameters replaced by the explicit arguments (token substitution, as
        the compiler does it); None if g has other than plain type parameters or not all of them are given"""
        if g.tparams is None:
            return None
        targs = [p for p in split_top(lex(targs_text, g.name)) if p]
        if len(targs) != len(g.tparams) or not targs:
            return None
        cache = g.__dict__.setdefault("_inst", {})
        key = " | ".join(text_of(a) for a in targs)
        if key in cache:
            return cache[key]
        for a in targs:
            core = [x for x in a if not (x[0] == "p" and x[1] in ("::", "*", "&", "<", ">", ","))]
            if not core or any(x[0] != "id" for x in core):
                return None             # a non-type template argument
        sub = dict(zip(g.tparams, targs))

        def subst(toks):
            out = []
            for k, x in enumerate(toks):
                prev = toks[k - 1] if k else None
                if x[0] == "id" and x[1] in sub and not (prev is not None and prev[0] == "p" and prev[1] in (".", "->", "::")):
                    out.extend(sub[x[1]])
                else:
                    out.append(x)
            return out

        h = Func()
        h.name, h.cls, h.file, h.specs, h.inits = g.name, g.cls, g.file, set(g.specs), []
        h.params = [(subst(pt), pn) for pt, pn in g.params]
        h.ret = subst(g.ret)
        h.body = subst(g.body)
        h.template, h.tparams = False, None
        h._origin = g
        cache[key] = h
        return h

    def inline_env(self, g, args, ctx):
        env = {}
        for (pt, pn), a in zip(g.params, args):
            if pn is None:
                continue
            if not self.pure(a, ctx):
                raise TranslateError("%s: call with an argument that has side effects cannot be inlined" % g.name)
            env[pn] = a
        return env

    def sub_ctx(self, g, ctx):
        c = Ctx(g, ctx.keep, ctx.depth + 1)
        c.counter = ctx.counter
        c.mutated = mutated_names(self.stmts_of(g))
        c.ucast = ctx.ucast
        return c

    def inline_expr(self, call, ctx):
        g = self.resolve_helper(call, ctx)
        if g is None:
            return None
        env = self.inline_env(g, call[2], ctx)
        c = self.sub_ctx(g, ctx)
        k = K(fall=lambda env2: ("end",), ret=lambda e: ("ret", e))
        t = self.ev_stmts(self.stmts_of(g), env, c, k)
        if t[0] == "ret" and t[1] is not None:
            return t[1]
        return None

    def inline_struct(self, call, ctx, ret):
        """inline the helper called by `call` with return continuation ret( e|None); None if not inlinable"""
        g = self.resolve_helper(call, ctx)
        if g is None:
            return None
        env = self.inline_env(g, call[2], ctx)
        c = self.sub_ctx(g, ctx)
        k = K(fall=lambda env2: ret(None), ret=ret)
        return self.ev_stmts(self.stmts_of(g), env, c, k)

    # ------------------------------------------------------------------ decision trees
    def mk_ite(self, c, tx, ty, ctx):
        k = c[0]
        if k == "bool":
            return tx() if c[1] else ty()
        if k == "num":
            return tx() if c[1] else ty()
        if k == "un" and c[1] == "!":
            return self.mk_ite(c[2], ty, tx, ctx)
        if k == "bin" and c[1] == "||":
            return self.mk_ite(c[2], tx, lambda: self.mk_ite(c[3], tx, ty, ctx), ctx)
        if k == "bin" and c[1] == "&&":
            return self.mk_ite(c[2], lambda: self.mk_ite(c[3], tx, ty, ctx), ty, ctx)
        if k == "cond":
            return self.mk_ite(c[1], lambda: self.mk_ite(c[2], tx, ty, ctx), lambda: self.mk_ite(c[3], tx, ty, ctx), ctx)
        if k == "comma":
            return ("seq", c[1], self.mk_ite(c[2], tx, ty, ctx))
        if k == "call":
            f = c[1]
            if f[0] == "id" and f[1] in ALGOS:
                return self.algo(ALGOS[f[1]], c[2], tx, ty, ctx)
            t = self.inline_struct(c, ctx, lambda e: self.mk_ite(need(e, "helper returns no value"), tx, ty, ctx))
            if t is not None:
                return t
        return ("ite", c, tx(), ty())

    def algo(self, kind, args, tx, ty, ctx):
        if len(args) != 3 or args[2][0] != "lambda" or len(args[2][1]) != 1:
            raise TranslateError("std::%s_of: arguments not understood" % kind)
        cont = None
        b, e = args[0], args[1]
        if b[0] == "call" and e[0] == "call" and not b[2] and not e[2] and b[1][0] == "member" and e[1][0] == "member" \
                and b[1][2] in ("begin", "cbegin") and e[1][2] in ("end", "cend") and b[1][1] == e[1][1]:
            cont = b[1][1]
        elif b[0] == "call" and e[0] == "call" and b[1] in (("id", "std::begin"), ("id", "std::cbegin")) and \
                e[1] in (("id", "std::end"), ("id", "std::cend")) and b[2] == e[2] and len(b[2]) == 1:
            cont = b[2][0]
        if cont is None:
            raise TranslateError("std::%s_of: iterator range not understood" % kind)
        lam = args[2]
        var = ctx.fresh("v")
        lvl = self._new_level(ctx)
        env = dict(lam[3].env)
        env[lam[1][0]] = ("id", var)
        if kind == "all":
            ret = lambda v: self.mk_ite(need(v, "predicate returns no value"), lambda: ("cont", lvl), ty, ctx)
            after = tx
        elif kind == "any":
            ret = lambda v: self.mk_ite(need(v, "predicate returns no value"), tx, lambda: ("cont", lvl), ctx)
            after = ty
        else:
            ret = lambda v: self.mk_ite(need(v, "predicate returns no value"), ty, lambda: ("cont", lvl), ctx)
            after = tx
        sub = Ctx(ctx.func, ctx.keep, ctx.depth)
        sub.counter = ctx.counter
        sub.mutated = mutated_names([lam[2]])
        body = self.ev_stmt(lam[2], env, sub, K(fall=lambda e2: fail("predicate without return"), ret=ret))
        return ("loop", ("each", var, cont), body, after(), lvl)

    def _new_level(self, ctx):
        ctx.counter[0] += 1
        return ctx.counter[0]

    def mk_let(self, name, init, rest, ctx, mutable):
        if not mutable:
            r = try_inline(name, init, rest, self.pure(init, ctx), self, ctx)
            if r is not None:
                return r
        return ("let", name, init, rest)

    # ------------------------------------------------------------------ statements
    def ev_stmts(self, stmts, env, ctx, k):
        if not stmts:
            return k.fall(env)
        s, rest = stmts[0], stmts[1:]
        # counter loop written as  T i = a; while (c) { ...; ++i; }  /  do { ...; ++i; } while (c);
        if s[0] == "decl" and s[3] is not None and rest and rest[0][0] in ("while", "dowhile"):
            conv = self.counter_loop(s, rest[0], rest[1:], env, ctx)
            if conv is not None:
                return self.ev_stmts([conv] + rest[1:], env, ctx, k)
        return self.ev_stmt(s, env, ctx, k.with_(fall=lambda env2: self.ev_stmts(rest, env2, ctx, k)))

    def counter_loop(self, decl, loop, after, env, ctx):
        name = decl[2]
        body = loop[2] if loop[0] == "while" else loop[1]
        cond = loop[1] if loop[0] == "while" else loop[2]
        bl = body[1] if body[0] == "block" else [body]
        if not bl:
            return None
        last = bl[-1]
        if not (last[0] == "expr" and is_step(last[1], name)):
            return None
        inner = ("block", bl[:-1])
        if name in mutated_names([inner]) or has_stmt(inner, "continue") or uses_name(after, name):
            return None
        if loop[0] == "dowhile":
            # the first iteration is unconditional: only the same loop if the condition holds initially
            sub = dict(env)
            sub[name] = self.nx(decl[3], env, ctx)
            try:
                if not self.const_eval(self.nx(cond, sub, ctx), "do-while"):
                    return None
            except TranslateError:
                return None
        return ("for", decl, cond, last[1], inner)

    def ev_stmt(self, s, env, ctx, k):
        kind = s[0]
        if kind == "empty":
            return k.fall(env)
        if kind == "block":
            return self.ev_stmts(s[1], env, ctx, k.with_(fall=lambda env2: k.fall(env)))
        if kind == "if":
            c = self.nx(s[1], env, ctx)
            tx = lambda: self.ev_stmt(s[2], env, ctx, k.with_(fall=lambda e2: k.fall(env)))
            ty = (lambda: self.ev_stmt(s[3], env, ctx, k.with_(fall=lambda e2: k.fall(env)))) if s[3] is not None else (lambda: k.fall(env))
            return self.mk_ite(c, tx, ty, ctx)
        if kind == "return":
            if s[1] is None:
                return k.ret(None)
            raw = s[1]
            e = self.nx(raw, env, ctx)
            if e[0] == "call":
                t = self.inline_struct(e, ctx, k.ret)
                if t is not None:
                    return t
            return k.ret(e)
        if kind == "expr":
            e = self.nx(s[1], env, ctx)
            return self.effect(e, env, ctx, k)
        if kind == "decl":
            name = s[2]
            if s[3] is None:
                init = ("uninit",)
            else:
                init = self.nx(s[3], env, ctx)
                if ctx.ucast:
                    dty = self.canon_type(s[1].replace("&", " "), ctx.cls)
                    if dty in UNSIGNED_BITS and init[0] not in ("num", "bool", "ucast") and not const_like(init):
                        init = ("ucast", UNSIGNED_BITS[dty], init)
            raw = ctx.fresh(name)
            if init[0] in ("num", "bool") and name not in ctx.mutated:
                ctx.const_locals[raw] = init
            env2 = dict(env)
            env2[name] = ("id", raw)
            rest = k.fall(env2)
            return self.mk_let(raw, init, rest, ctx, name in ctx.mutated)
        if kind == "arraydecl":
            _, ety, name, size_e, items, is_const, is_std = s
            if not is_const:
                raise TranslateError("array `%s` is not const / constexpr: not supported" % name)
            if name in ctx.mutated:
                raise TranslateError("array `%s`: its address is taken" % name)
            env2 = dict(env)
            env2[name] = self.make_table(ety, name, size_e, items, is_std, env, ctx)
            return k.fall(env2)
        if kind == "sassert":
            try:
                c = self.nx(s[1], env, ctx)
                for raw, init in ctx.const_locals.items():
                    c = subst_e(c, raw, init)
                v = self.const_eval(c, "static_assert")
            except TranslateError:
                v = 1                   # no run-time meaning: what cannot be evaluated here is left to the compiler
            if not v:
                raise TranslateError("a static_assert does not hold: the code does not compile")
            return k.fall(env)
        if kind == "break":
            if k.brk is None:
                raise TranslateError("break outside a loop or switch")
            return k.brk(env)
        if kind == "continue":
            if k.cont is None:
                raise TranslateError("continue outside a loop")
            return k.cont(env)
        if kind == "switch":
            return self.ev_switch(s, env, ctx, k)
        if kind in ("for", "rangefor", "while", "dowhile"):
            return self.ev_loop(s, env, ctx, k)
        raise TranslateError("statement kind %s not supported" % kind)

    def effect(self, e, env, ctx, k):
        if e[0] == "throw":
            return ("throw", exc_class(e[1]))
        if e[0] == "comma":
            return self.effect(e[1], env, ctx, k.with_(fall=lambda e2: self.effect(e[2], env, ctx, k)))
        if e[0] == "call":
            t = self.inline_struct(e, ctx, lambda v: k.fall(env))
            if t is not None:
                return t
        if e[0] == "assign" and e[2][0] != "id" and e[2][0] not in ("member", "index", "un"):
            raise TranslateError("assignment target %s not understood" % show(e[2]))
        if self.pure(e, ctx):
            return k.fall(env)              # an expression statement without effect
        return ("seq", e, k.fall(env))

    def ev_switch(self, s, env, ctx, k):
        e = self.nx(s[1], env, ctx)
        groups = s[2]
        out_k = k.with_(brk=lambda env2: k.fall(env))

        def body_from(gi):
            if gi >= len(groups):
                return k.fall(env)
            return self.ev_stmts(groups[gi][1], env, ctx, out_k.with_(fall=lambda e2: body_from(gi + 1)))

        default_at = None
        tests = []
        for gi, (labels, _) in enumerate(groups):
            for lab in labels:
                if lab == "default":
                    if default_at is not None:
                        raise TranslateError("switch with two default labels")
                    default_at = gi
                else:
                    tests.append((cmp_norm("==", e, self.nx(lab, env, ctx)), gi))

        def chain(i):
            if i >= len(tests):
                return body_from(default_at) if default_at is not None else k.fall(env)
            c, gi = tests[i]
            return self.mk_ite(c, lambda: body_from(gi), lambda: chain(i + 1), ctx)

        return chain(0)

    def ev_loop(self, s, env, ctx, k):
        lvl = self._new_level(ctx)
        after = lambda: k.fall(env)
        var = ctx.fresh("v")

        def body_k(e_unused=None):
            return k.with_(fall=lambda e2: ("cont", lvl), cont=lambda e2: ("cont", lvl), brk=lambda e2: ("brk", lvl))

        if s[0] == "rangefor":
            cont = self.nx(s[2], env, ctx)
            env2 = dict(env)
            env2[s[1]] = ("id", var)
            body = self.ev_stmt(s[3], env2, ctx, body_k())
            return ("loop", ("each", var, cont), body, after(), lvl)
        if s[0] == "while":
            c = self.nx(s[1], env, ctx)
            body = self.ev_stmt(s[2], env, ctx, body_k())
            return ("loop", ("while", c), body, after(), lvl)
        if s[0] == "dowhile":
            raise TranslateError("do-while loop that is not a counter loop is not supported")
        init, cond, step, body_s = s[1], s[2], s[3], s[4]
        if init is None or init[0] != "decl" or init[3] is None or cond is None or step is None:
            raise TranslateError("for loop header not understood")
        name = init[2]
        if name in mutated_names([body_s]):
            raise TranslateError("for loop: the loop variable `%s` is modified in the body" % name)
        if not is_step(step, name):
            raise TranslateError("for loop: step `%s` not understood" % show(step))
        start = self.nx(init[3], env, ctx)
        env2 = dict(env)
        env2[name] = ("id", var)
        c = self.nx(cond, env2, ctx)
        # iterator loop:  it = C.begin(); it != C.end(); ++it
        if start[0] == "call" and start[1][0] == "member" and start[1][2] in ("begin", "cbegin") and not start[2]:
            cont = start[1][1]
            endc = ("call", ("member", cont, "end"), [])
            endc2 = ("call", ("member", cont, "cend"), [])
            if c in (neg(cmp_norm("==", ("id", var), endc)), neg(cmp_norm("==", ("id", var), endc2))):
                env3 = dict(env)
                env3[name] = ("iter", ("id", var))
                body = self.ev_stmt(body_s, env3, ctx, body_k())
                if mentions(body, ("iter", ("id", var))):
                    raise TranslateError("iterator loop: the iterator itself is used in the body")
                return ("loop", ("each", var, cont), body, after(), lvl)
            raise TranslateError("iterator loop: condition not understood")
        # counter loop
        if not (c[0] == "bin" and c[1] in ("<", "<=") and c[2] == ("id", var)) or mentions(c[3], ("id", var)):
            if c[0] == "un" and c[1] == "!" and c[2][0] == "bin" and c[2][1] == "==" and ("id", var) in (c[2][2], c[2][3]):
                # i != bound, ascending by one from below the bound: the same as i < bound when from <= bound
                other = c[2][3] if c[2][2] == ("id", var) else c[2][2]
                try:
                    if self.const_eval(start) <= self.const_eval(other):
                        c = ("bin", "<", ("id", var), other)
                    else:
                        raise TranslateError("for loop: condition not understood")
                except TranslateError:
                    raise TranslateError("for loop: condition `%s` not understood" % show(c))
            else:
                raise TranslateError("for loop: condition `%s` not understood" % show(c))
        bound = c[3]
        # index loop over a container:  i < C.size()  with C[ i] in the body
        if c[1] == "<" and bound[0] == "call" and bound[1][0] == "member" and bound[1][2] == "size" and start == ("num", 0):
            cont = bound[1][1]
            env3 = dict(env)
            env3[name] = ("idx", cont, ("id", var))
            body = self.ev_stmt(body_s, env3, ctx, body_k())
            if mentions(body, ("idx", cont, ("id", var))):
                raise TranslateError("index loop: the index is used for something else than %s[ i]" % show(cont))
            return ("loop", ("each", var, cont), body, after(), lvl)
        body = self.ev_stmt(body_s, env2, ctx, body_k())
        return ("loop", ("range", var, start, c[1], bound), body, after(), lvl)

    # ------------------------------------------------------------------ entry
    def beh(self, func, keep=frozenset(), rename=True, members=None, ucast=False):
        ctx = Ctx(func, frozenset(keep), 0)
        ctx.ucast = ucast
        stmts = self.stmts_of(func)
        ctx.mutated = mutated_names(stmts)
        env = {}
        for i, (pt, pn) in enumerate(func.params):
            if pn is not None:
                if pn in ctx.mutated:
                    raise TranslateError("%s: parameter `%s` is modified" % (func.name, pn))
                env[pn] = ("id", "$p%d" % i)
        is_bool = text_of(func.ret).strip() == "bool"
        if is_bool:
            ret = lambda e: self.mk_ite(need(e, "return without value"), lambda: ("ret", ("bool", True)), lambda: ("ret", ("bool", False)), ctx)
        else:
            ret = lambda e: ("end",) if e is None else self.ret_value(e, ctx)
        t = self.ev_stmts(stmts, env, ctx, K(fall=lambda e2: ("end",), ret=ret))
        if rename:
            t = alpha(t)
        if members:
            t = rename_ids(t, members)
        return t

    def ret_value(self, e, ctx):
        if e[0] == "cond":
            return self.mk_ite(e[1], lambda: self.ret_value(e[2], ctx), lambda: self.ret_value(e[3], ctx), ctx)
        return ("ret", e)

    def beh_of_text(self, text, cls, ret_bool, params, what, keep=frozenset()):
        """normal form of a reference body given as C++ text (used for the fixed shapes the model is written for)"""
        from logdefs_cxx import Func
        f = Func()
        f.name, f.cls, f.file = what, cls, "<reference>"
        f.params = [([], p) for p in params]
        f.ret = lex("bool" if ret_bool else "void")
        f.body = lex(text, what)
        return self.beh(f, keep=keep)


# --------------------------------------------------------------------------------------------------
# helpers on expressions and trees

def origin_of(f):
    """the function template an instantiation was made from (the function itself otherwise)"""
    return getattr(f, "_origin", f)


UNSIGNED_BITS = {"size_t": 64, "std::size_t": 64, "unsigned long": 64, "long unsigned int": 64, "unsigned long int": 64,
                 "unsigned long long": 64, "long long unsigned int": 64, "uint64_t": 64, "std::uint64_t": 64,
                 "unsigned": 32, "unsigned int": 32, "uint32_t": 32, "std::uint32_t": 32, "id_t": 32,
                 "unsigned short": 16, "uint16_t": 16, "std::uint16_t": 16, "short unsigned int": 16,
                 "unsigned char": 8, "uint8_t": 8, "std::uint8_t": 8}


class Frozen:
    def __init__(self, env):
        self.env = dict(env)

    def __eq__(self, other):
        return isinstance(other, Frozen)

    def __hash__(self):
        return 0

    def __repr__(self):
        return "<env>"


def fail(msg):
    raise TranslateError(msg)


def need(e, msg):
    if e is None:
        raise TranslateError(msg)
    return e


def const_like(e):
    return e[0] in ("num", "str", "chr", "bool", "null") or (e[0] == "id" and "::" in e[1])


def neg(a):
    if a[0] == "un" and a[1] == "!":
        return a[2]
    if a[0] == "bool":
        return ("bool", not a[1])
    if a[0] == "bin" and a[1] == "<":
        return ("bin", "<=", a[3], a[2])
    if a[0] == "bin" and a[1] == "<=":
        return ("bin", "<", a[3], a[2])
    return ("un", "!", a)


def cmp_norm(op, a, b):
    if op == "!=":
        return neg(cmp_norm("==", a, b))
    if op == ">":
        return ("bin", "<", b, a)
    if op == ">=":
        return ("bin", "<=", b, a)
    if op == "==":
        if a[0] == "null" or a == ("num", 0):
            a, b = b, a
        if b[0] == "null" or b == ("num", 0):
            return neg(a)
        if a[0] == "bool" and b[0] != "bool":
            a, b = b, a
        if b[0] == "bool":
            return a if b[1] else neg(a)
        if const_like(a) and not const_like(b):
            a, b = b, a
        elif const_like(a) == const_like(b) and repr(b) < repr(a):
            a, b = b, a
        return ("bin", "==", a, b)
    return ("bin", op, a, b)


def exc_class(e):
    if e is None:
        return "rethrow"
    if e[0] == "call" and e[1][0] in ("id", "tid"):
        return e[1][1]
    if e[0] == "cast":
        return e[1]
    if e[0] == "construct":
        return e[1]
    raise TranslateError("throw operand %s not understood" % show(e))


def is_step(e, name):
    """++name, name++, name += 1, name = name + 1 (raw, un-normalised expression)"""
    if e[0] == "incdec" and e[1] == "++" and e[2] == ("id", name):
        return True
    if e[0] == "assign" and e[2] == ("id", name):
        if e[1] == "+=" and e[3] == ("num", 1):
            return True
        if e[1] == "=" and e[3] in (("bin", "+", ("id", name), ("num", 1)), ("bin", "+", ("num", 1), ("id", name))):
            return True
    return False


def walk(x):
    yield x
    if isinstance(x, (tuple, list)):
        for y in x:
            if isinstance(y, (tuple, list)):
                for z in walk(y):
                    yield z


def mentions(tree, sub):
    return any(x == sub for x in walk(tree))


def mutated_names(stmts):
    """names that are the target of an assignment / ++ / -- / address-of anywhere in the statements"""
    out = set()
    for x in walk(stmts):
        if isinstance(x, tuple) and x:
            if x[0] == "assign" and isinstance(x[2], tuple) and x[2][0] == "id":
                out.add(x[2][1])
            elif x[0] == "incdec" and isinstance(x[2], tuple) and x[2][0] == "id":
                out.add(x[2][1])
            elif x[0] == "un" and x[1] == "&" and isinstance(x[2], tuple) and x[2][0] == "id":
                out.add(x[2][1])
    return out


def has_stmt(s, kind):
    """does the statement contain a `kind` statement that belongs to it (not to a nested loop)"""
    if not isinstance(s, tuple) or not s:
        return False
    if s[0] == kind:
        return True
    if s[0] in ("for", "rangefor", "while", "dowhile"):
        return False
    if s[0] == "block":
        return any(has_stmt(x, kind) for x in s[1])
    if s[0] == "if":
        return has_stmt(s[2], kind) or (s[3] is not None and has_stmt(s[3], kind))
    if s[0] == "switch":
        return any(has_stmt(x, kind) for _, body in s[2] for x in body)
    return False


def uses_name(stmts, name):
    return any(x == ("id", name) for x in walk(stmts))


def has_effects(t):
    k = t[0]
    if k in ("seq", "throw"):
        return True
    if k == "let":
        return True if t[2][0] in ("new", "construct", "assign", "uninit") else has_effects(t[3])
    if k == "ite":
        return has_effects(t[2]) or has_effects(t[3])
    if k == "loop":
        return has_effects(t[2]) or has_effects(t[3])
    return False


def count_id(e, name):
    return sum(1 for x in walk(e) if x == ("id", name))


def subst_e(e, name, val):
    if e == ("id", name):
        return val
    if isinstance(e, tuple):
        return tuple(subst_e(x, name, val) for x in e)
    if isinstance(e, list):
        return [subst_e(x, name, val) for x in e]
    return e


class _Abort(Exception):
    pass


def try_inline(name, init, tree, pure_init, norm, ctx):
    """tree with the local replaced by its initialiser where that preserves the behaviour, else None"""
    if count_id(tree, name) == 0:
        if pure_init:
            return tree
        return ("seq", init, tree)
    lit = const_like(init) or (init[0] == "id" and init[1].startswith("$p"))

    def renorm(e):
        # comparisons are re-oriented after substitution so that the result does not depend on the local's name
        if isinstance(e, tuple) and e and e[0] == "bin" and e[1] == "==":
            return cmp_norm("==", renorm(e[2]), renorm(e[3]))
        if isinstance(e, tuple) and len(e) == 3 and e[0] == "index" and isinstance(e[1], tuple) and e[1][:1] == ("table",):
            i = renorm(e[2])
            if i[0] == "num" or const_like(i):
                return norm.table_elem(e[1], i)
            return ("index", e[1], i)
        if isinstance(e, tuple):
            return tuple(renorm(x) for x in e)
        if isinstance(e, list):
            return [renorm(x) for x in e]
        return e

    def sub(e):
        return renorm(subst_e(e, name, init))

    def barrier(t):
        if count_id(t, name):
            raise _Abort()
        return t

    def go(t):
        k = t[0]
        if k == "ret":
            return ("ret", sub(t[1]))
        if k in ("end", "throw", "cont", "brk"):
            return t
        if k == "ite":
            c = sub(t[1])
            if lit or norm.pure(c, ctx):
                return ("ite", c, go(t[2]), go(t[3]))
            return ("ite", c, barrier(t[2]), barrier(t[3]))
        if k == "seq":
            return ("seq", sub(t[1]), go(t[2]) if lit else barrier(t[2]))
        if k == "let":
            i2 = sub(t[2])
            if lit or norm.pure(i2, ctx):
                return ("let", t[1], i2, go(t[3]))
            return ("let", t[1], i2, barrier(t[3]))
        if k == "loop":
            spec = sub(t[1])
            if lit or not (has_effects(t[2])):
                return ("loop", spec, go(t[2]), go(t[3])) + t[4:]
            return ("loop", spec, barrier(t[2]), barrier(t[3])) + t[4:]
        raise _Abort()

    def first_only(t):
        # impure initialiser: exactly one use, in the first expression that is evaluated
        k = t[0]
        total = count_id(t, name)
        if total != 1:
            raise _Abort()
        if k == "ret" and count_id(t[1], name) == 1:
            return ("ret", sub(t[1]))
        if k in ("ite", "seq") and count_id(t[1], name) == 1:
            return (k, sub(t[1])) + t[2:]
        if k == "let" and count_id(t[2], name) == 1:
            return ("let", t[1], sub(t[2]), t[3])
        if k == "loop" and count_id(t[1], name) == 1:
            return ("loop", sub(t[1]), t[2], t[3]) + t[4:]
        raise _Abort()

    try:
        return go(tree) if pure_init else first_only(tree)
    except _Abort:
        return None


def alpha(t):
    """rename the remaining locals and loop variables positionally"""
    def ren(x, m):
        if isinstance(x, tuple):
            if len(x) == 2 and x[0] == "id" and x[1] in m:
                return ("id", m[x[1]])
            return tuple(ren(y, m) for y in x)
        if isinstance(x, list):
            return [ren(y, m) for y in x]
        return x

    def go(t, m, nl, nv, lv):
        k = t[0]
        if k == "let":
            new = "$l%d" % nl
            m2 = dict(m)
            m2[t[1]] = new
            return ("let", new, ren(t[2], m), go(t[3], m2, nl + 1, nv, lv))
        if k == "loop":
            spec = t[1]
            m2 = dict(m)
            if spec[0] in ("each", "range"):
                new = "$v%d" % nv
                m2[spec[1]] = new
                spec2 = (spec[0], new) + tuple(ren(x, m) for x in spec[2:])
                nv2 = nv + 1
            else:
                spec2 = tuple(ren(x, m) for x in spec)
                nv2 = nv
            lv2 = dict(lv)
            if len(t) > 4:
                lv2[t[4]] = "L%d" % len(lv)
            return ("loop", spec2, go(t[2], m2, nl, nv2, lv2), go(t[3], m, nl, nv, lv))
        if k == "ite":
            return ("ite", ren(t[1], m), go(t[2], m, nl, nv, lv), go(t[3], m, nl, nv, lv))
        if k == "seq":
            return ("seq", ren(t[1], m), go(t[2], m, nl, nv, lv))
        if k == "ret":
            return ("ret", ren(t[1], m))
        if k in ("cont", "brk"):
            return (k, lv.get(t[1], "L?"))
        return t

    return go(t, {}, 0, 0, {})


def rename_ids(t, mapping):
    if isinstance(t, tuple):
        if len(t) == 2 and t[0] == "id" and t[1] in mapping:
            return ("id", mapping[t[1]])
        return tuple(rename_ids(x, mapping) for x in t)
    if isinstance(t, list):
        return [rename_ids(x, mapping) for x in t]
    return t


def show(e):
    """compact rendering of an expression or tree for messages"""
    if not isinstance(e, tuple):
        if isinstance(e, list):
            return ", ".join(show(x) for x in e)
        return str(e)
    k = e[0] if e else ""
    if k == "id":
        return e[1]
    if k == "tid":
        return "%s<%s>" % (e[1], e[2])
    if k == "num":
        return str(e[1])
    if k == "str":
        return '"%s"' % e[1]
    if k == "chr":
        return "'%s'" % e[1]
    if k == "bool":
        return "true" if e[1] else "false"
    if k == "null":
        return "nullptr"
    if k == "call":
        return "%s(%s)" % (show(e[1]), show(e[2]))
    if k == "member":
        return "%s.%s" % (show(e[1]), e[2])
    if k == "index":
        return "%s[%s]" % (show(e[1]), show(e[2]))
    if k == "un":
        return "%s(%s)" % (e[1], show(e[2]))
    if k in ("bin", "assign"):
        return "(%s %s %s)" % (show(e[2]), e[1], show(e[3]))
    if k == "cond":
        return "(%s ? %s : %s)" % (show(e[1]), show(e[2]), show(e[3]))
    if k == "cast":
        return "cast<%s>(%s)" % (e[1], show(e[2]))
    if k in ("new", "construct"):
        return "%s %s(%s)" % (k, e[1], show(e[2]))
    if k == "delete":
        return "delete %s" % show(e[1])
    if k == "table":
        return "{%s}" % ", ".join(show(x) for x in e[2])
    if k == "esize":
        return "sizeof(%s)" % e[1]
    if k == "ucast":
        return "unsigned%d(%s)" % (e[1], show(e[2]))
    if k == "ret":
        return "return %s;" % show(e[1])
    if k == "end":
        return "end;"
    if k == "throw":
        return "throw %s;" % (e[1] if isinstance(e[1], str) else show(e[1]))
    if k in ("cont", "brk"):
        return "%s %s;" % (k, e[1])
    if k == "ite":
        return "if %s { %s } else { %s }" % (show(e[1]), show(e[2]), show(e[3]))
    if k == "seq":
        return "%s; %s" % (show(e[1]), show(e[2]))
    if k == "let":
        return "let %s = %s; %s" % (e[1], show(e[2]), show(e[3]))
    if k == "loop":
        return "loop %s { %s } then { %s }" % (" ".join(show(x) for x in e[1]), show(e[2]), show(e[3]))
    return "%s(%s)" % (k, ", ".join(show(x) for x in e[1:]))
