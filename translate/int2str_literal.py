#!/usr/bin/env python3
"""translate/int2str_literal.py — the *literal reading* of the unrolled `convert()` switch.

translate/int2str.py follows `convert()` by structure: its abstract interpreter executes the control
flow (which `case` is entered, fall-through, the value-independent counter `++num_digits == 4`) and
writes the resulting *trace* of stores and divisions per digit count.  Which statements run, and where
the group character lands, is then decided in Python.  This module is the second, independent reading
of the same function: when the source has the shape of the pinned code — `switch (result_len)` over
literal `case` labels whose statements are `*buffer[--] = C + (value [% M]);`, `value /= D;`,
`++num_digits;`, `checkAddGroupChar( buffer, num_digits, group_char);`, `[[fallthrough]];`, `break;` —
it copies the statements *as written* (`inc`, `check thr reset` included) into rows for the Lean
interpreter of Model/Int2Str.lean, which then selects the case, falls through and runs the counter
itself.  The obligation `<file>_literal_rows_ok` (Generated/Int2StrOk.lean, by `decide`) and the theorem
`C13_switch_as_written` are about these rows.  A narrow token matcher on purpose: any other shape
returns "not available" (never a guess), and the obligation is then stated for the trace rows only.
"""
import re


class TranslateError(Exception):
    pass

# ----------------------------------------------------------------------------- lexing

TOKEN_RE = re.compile(r"""
    (?P<ws>\s+)
  | (?P<num>0[xX][0-9a-fA-F]+[uUlL]*|\d+[uUlL]*)
  | (?P<id>[A-Za-z_][A-Za-z_0-9]*)
  | (?P<chr>'(?:\\.|[^'\\])')
  | (?P<str>"(?:\\.|[^"\\])*")
  | (?P<op>\[\[|\]\]|::|\+\+|--|>=|<=|==|!=|/=|%=|\+=|-=|\*=|&&|\|\||->|[-+*/%<>=!?:;,.(){}\[\]&~^|\#])
""", re.X)


def strip_comments(src):
    out, i, n = [], 0, len(src)
    while i < n:
        c = src[i]
        if src.startswith("//", i):
            while i < n and src[i] != "\n":
                i += 1
        elif src.startswith("/*", i):
            j = src.find("*/", i + 2)
            if j < 0:
                raise TranslateError("unterminated comment")
            out.append(" ")
            i = j + 2
        elif c == '"' or c == "'":
            j = i + 1
            while j < n and src[j] != c:
                j += 2 if src[j] == "\\" else 1
            out.append(src[i:j + 1])
            i = j + 1
        else:
            out.append(c)
            i += 1
    return "".join(out)


def lex(src):
    toks, i = [], 0
    while i < len(src):
        m = TOKEN_RE.match(src, i)
        if not m:
            raise TranslateError("cannot tokenise at %r" % src[i:i + 30])
        i = m.end()
        if m.lastgroup != "ws":
            toks.append((m.lastgroup, m.group(m.lastgroup)))
    return toks


def num_value(text):
    t = text.rstrip("uUlL")
    return int(t, 16) if t.lower().startswith("0x") else int(t, 10)


ESC = {"n": 10, "t": 9, "0": 0, "\\": 92, "'": 39, '"': 34, "r": 13}


def char_value(text):
    body = text[1:-1]
    if body.startswith("\\"):
        if body[1] not in ESC or len(body) != 2:
            raise TranslateError("unsupported character literal %s" % text)
        return ESC[body[1]]
    if len(body) != 1:
        raise TranslateError("unsupported character literal %s" % text)
    return ord(body)


def string_bytes(text):
    body, out, i = text[1:-1], [], 0
    while i < len(body):
        if body[i] == "\\":
            if body[i + 1] not in ESC:
                raise TranslateError("unsupported escape in %s" % text)
            out.append(ESC[body[i + 1]])
            i += 2
        else:
            out.append(ord(body[i]))
            i += 1
    return out


class P:
    """token cursor"""

    def __init__(self, toks, what):
        self.t, self.i, self.what = toks, 0, what

    def peek(self, k=0):
        return self.t[self.i + k] if self.i + k < len(self.t) else ("eof", "")

    def at(self, *texts):
        for k, x in enumerate(texts):
            if self.peek(k)[1] != x:
                return False
        return True

    def next(self):
        tok = self.peek()
        self.i += 1
        return tok

    def eat(self, *texts):
        for x in texts:
            tok = self.next()
            if tok[1] != x:
                self.fail("expected `%s`, found `%s`" % (x, tok[1]))

    def opt(self, *texts):
        if self.at(*texts):
            self.i += len(texts)
            return True
        return False

    def ident(self):
        tok = self.next()
        if tok[0] != "id":
            self.fail("expected identifier, found `%s`" % tok[1])
        return tok[1]

    def done(self):
        return self.i >= len(self.t)

    def fail(self, msg):
        ctx = " ".join(x[1] for x in self.t[max(0, self.i - 6):self.i + 6])
        raise TranslateError("%s: %s (near `%s`)" % (self.what, msg, ctx))




def find_function(toks, what, ret_pred, name_pred, nth=0):
    """locate `<ret> <name> ( params ) { body }`; returns (name, param tokens, body tokens).
    ret_pred gets the list of token texts before the name back to the previous `;`/`}`/`{`."""
    hits = []
    for i in range(1, len(toks) - 1):
        if toks[i][0] == "id" and toks[i + 1][1] == "(" and name_pred(toks[i][1]):
            j = i - 1
            pre = []
            while j >= 0 and toks[j][1] not in (";", "}", "{", "#"):
                pre.append(toks[j][1])
                j -= 1
            pre.reverse()
            if not ret_pred(pre):
                continue
            k, depth = i + 1, 0
            while True:
                if toks[k][1] == "(":
                    depth += 1
                elif toks[k][1] == ")":
                    depth -= 1
                    if depth == 0:
                        break
                k += 1
            params = toks[i + 2:k]
            if k + 1 >= len(toks) or toks[k + 1][1] != "{":
                continue        # a declaration
            b, depth = k + 1, 0
            while True:
                if toks[b][1] == "{":
                    depth += 1
                elif toks[b][1] == "}":
                    depth -= 1
                    if depth == 0:
                        break
                b += 1
            hits.append((toks[i][1], params, toks[k + 2:b]))
    if len(hits) <= nth:
        raise TranslateError("%s: function not found" % what)
    return hits[nth]


def int_type_bits(name, what):
    m = re.fullmatch(r"(u?)int(8|16|32|64)_t", name)
    if not m:
        raise TranslateError("%s: `%s` is not a fixed-width integer type" % (what, name))
    return int(m.group(2)), m.group(1) == ""


def split_params(params):
    out, cur, depth = [], [], 0
    for tok in params:
        if tok[1] in "(<":
            depth += 1
        elif tok[1] in ")>":
            depth -= 1
        if tok[1] == "," and depth == 0:
            out.append(cur)
            cur = []
        else:
            cur.append(tok)
    if cur:
        out.append(cur)
    return out


# ----------------------------------------------------------------------------- str_length trees

CMP = {">=", ">", "<", "<="}


def parse_check_helper(toks, what):
    try:
        name, params, body = find_function(toks, what, lambda pre: pre[-1:] == ["void"],
                                           lambda nm: nm == "checkAddGroupChar")
    except TranslateError:
        return None
    if [t[1] for t in params] != ["char", "*", "&", "buffer", ",", "uint8_t", "&", "num_digits", ",", "char",
                                  "group_char"]:
        raise TranslateError("%s: checkAddGroupChar has unexpected parameters" % what)
    p = P(body, what + " checkAddGroupChar")
    p.eat("if", "(", "++", "num_digits", "==")
    thr = num_value(p.next()[1])
    p.eat(")", "{", "*", "buffer", "--", "=", "group_char", ";", "num_digits", "=")
    reset = num_value(p.next()[1])
    p.eat(";", "}")
    if not p.done():
        p.fail("trailing tokens")
    return thr, reset


def parse_convert(toks, what):
    name, params, body = find_function(toks, what, lambda pre: pre[-1:] == ["void"], lambda nm: nm == "convert")
    ps = [[t[1] for t in x] for x in split_params(params)]
    if len(ps) not in (3, 4) or ps[0] != ["char", "*", "buffer"] or ps[1][1:] != ["value"] or len(ps[1]) != 2 \
            or ps[2] != ["uint8_t", "result_len"]:
        raise TranslateError("%s: convert() has unexpected parameters %r" % (what, ps))
    has_group = len(ps) == 4
    if has_group and ps[3] != ["char", "group_char"]:
        raise TranslateError("%s: convert() has unexpected 4th parameter" % what)
    bits, signed = int_type_bits(ps[1][0], what)
    if signed:
        raise TranslateError("%s: convert() takes a signed value" % what)
    helper = parse_check_helper(toks, what)
    p = P(body, what + " convert()")
    nd_init = 0
    if p.opt("uint8_t", "num_digits", "="):
        nd_init = num_value(p.next()[1])
        p.eat(";")
    p.eat("switch", "(", "result_len", ")", "{")
    rows = []
    cur = None
    while not p.at("}"):
        if p.opt("case"):
            tok = p.next()
            if tok[0] != "num":
                p.fail("case label is not a literal")
            p.eat(":")
            cur = {"label": num_value(tok[1]), "ops": [], "fall": True}
            rows.append(cur)
            continue
        if p.opt("default"):
            p.eat(":")
            cur = {"label": None, "ops": [], "fall": True}
            rows.append(cur)
            continue
        if cur is None:
            p.fail("statement before the first case label")
        if not cur["fall"]:
            p.fail("statement after break")
        if p.opt("[[", "fallthrough", "]]", ";"):
            continue
        if p.opt("break", ";"):
            cur["fall"] = False
            continue
        if p.opt("*", "buffer"):
            dec = p.opt("--")
            p.eat("=")
            tok = p.next()
            if tok[0] == "chr":
                base = char_value(tok[1])
            elif tok[0] == "num":
                base = num_value(tok[1])
            else:
                p.fail("digit store does not start with a character literal")
            p.eat("+")
            paren = p.opt("(")
            p.eat("value")
            mod = None
            if p.opt("%"):
                mod = num_value(p.next()[1])
            if paren:
                p.eat(")")
            p.eat(";")
            cur["ops"].append(("emit", base, mod, dec))
            continue
        if p.opt("value", "/="):
            d = num_value(p.next()[1])
            p.eat(";")
            cur["ops"].append(("div", d))
            continue
        if p.opt("++", "num_digits", ";"):
            cur["ops"].append(("inc",))
            continue
        if p.opt("checkAddGroupChar", "(", "buffer", ",", "num_digits", ",", "group_char", ")", ";"):
            if helper is None:
                p.fail("checkAddGroupChar() called but not defined")
            cur["ops"].append(("check", helper[0], helper[1]))
            continue
        p.fail("unsupported statement in switch")
    p.eat("}")
    if not p.done():
        p.fail("statements after the switch")
    labels = [r["label"] for r in rows]
    if len(set(labels)) != len(labels):
        raise TranslateError("%s: duplicate case label" % what)
    return {"bits": bits, "has_group": has_group, "nd_init": nd_init, "rows": rows}




def read_literal(path, what):
    """-> ({"nd_init": n, "rows": [{"label", "ops", "fall"}]}, None) or (None, reason)"""
    try:
        toks = lex(strip_comments(open(path, encoding="utf-8").read()))
        c = parse_convert(toks, what)
        return {"nd_init": c["nd_init"], "rows": c["rows"]}, None
    except (TranslateError, IndexError) as e:
        return None, str(e) or e.__class__.__name__
