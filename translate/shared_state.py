#!/usr/bin/env python3
"""translate/shared_state.py -- inventory of process-wide mutable objects reachable from the
argument handler (property C09).

    handler_inventory(repo, lean_dir) -> report (dict), writes
        <lean_dir>/CelmaVerif/Generated/HandlerSharedState.lean

Reach: the `#include` closure (token scan of `#include "celma/.."` / `<celma/..>`, resolved under
<repo>/src) of
    * src/celma/prog_args.hpp and src/celma/prog_args/handler.hpp (what a user of the handler includes),
    * every src/library/prog_args/**.cpp (the handler's implementation),
    * and, transitively, the implementation file src/library/<d>/<x>.cpp of every reached header
      src/celma/<d>/<x>.hpp for <d> under common/ format/ appl/ prog_args/ (the link closure as far
      as the source layout shows it; `test/` directories and print_version_info.cpp are skipped).

Extraction (method "clang-query-14"): every translation unit of the reach (plus one synthetic unit
that only includes prog_args.hpp) is parsed by clang-query-14 (-std=gnu++17 -I<repo>/src) and
matched against
    varDecl(hasStaticStorageDuration())            declared under <repo>/src, three shapes
                                                    (function-local / class-static / namespace scope)
    declRefExpr(to(varDecl(hasStaticStorageDuration())))  written under <repo>/src but *declared
                                                    elsewhere* (std::cout, std::cerr, ...)
`thread_local` objects have thread storage duration and never match.  Constness is decided on the
printed type (top-level const of the object itself; arrays by their element type; a pointer is
const only when the pointer is).  Translation units clang cannot parse fall back to a token scan
(method "token-scan"); the report says which method was used for which file.

Any failure to establish the reach or to parse raises, which check.py reports as a broken tie.
"""
import concurrent.futures as cf
import os
import re
import shutil
import subprocess
import sys
import tempfile

CLANG_QUERY = "clang-query-14"
ROOT_HEADERS = ["celma/prog_args.hpp", "celma/prog_args/handler.hpp"]
IMPL_ROOT_DIR = "library/prog_args"
IMPL_DIRS = ("common", "format", "appl", "prog_args")
SKIP_FILES = {"library/common/print_version_info.cpp"}   # needs a header only generated in Debug builds
INC_RE = re.compile(r'^\s*#\s*include\s*[<"](celma/[^>"]+)[>"]', re.M)
OUT_REL = os.path.join("CelmaVerif", "Generated", "HandlerSharedState.lean")


# --------------------------------------------------------------------------- reach

def root_headers(repo):
    """prog_args.hpp, handler.hpp and every other header under celma/prog_args/ (what a user of the
    handler may include: checks, constraints, cardinalities, formats, destinations)"""
    src = os.path.join(repo, "src")
    for h in ROOT_HEADERS:
        if not os.path.exists(os.path.join(src, h)):
            raise RuntimeError("root header missing: " + h)
    res = list(ROOT_HEADERS)
    for d, dirs, fs in os.walk(os.path.join(src, "celma", "prog_args")):
        dirs[:] = sorted(x for x in dirs if x != "test")
        for f in sorted(fs):
            if f.endswith(".hpp"):
                rel = os.path.relpath(os.path.join(d, f), src)
                if rel not in res:
                    res.append(rel)
    return res


def impl_sources(repo):
    """the .cpp files of the reach, relative to <repo> (the harness is linked from exactly these)"""
    files, _ = include_closure(repo)
    return ["src/" + f for f in files if f.endswith(".cpp")]


def include_closure(repo):
    src = os.path.join(repo, "src")
    todo = []
    for h in root_headers(repo):
        todo.append(h)
    implroot = os.path.join(src, IMPL_ROOT_DIR)
    n_impl = 0
    for d, dirs, fs in os.walk(implroot):
        dirs[:] = [x for x in dirs if x != "test"]
        for f in sorted(fs):
            if f.endswith(".cpp"):
                todo.append(os.path.relpath(os.path.join(d, f), src))
                n_impl += 1
    if n_impl == 0:
        raise RuntimeError("no implementation files under " + implroot)
    seen = set()
    unresolved = set()
    while todo:
        f = todo.pop()
        if f in seen or f in SKIP_FILES or "/test/" in f:
            continue
        seen.add(f)
        try:
            txt = open(os.path.join(src, f), encoding="utf-8", errors="replace").read()
        except OSError as e:
            raise RuntimeError("cannot read %s: %s" % (f, e))
        for inc in INC_RE.findall(txt):
            if os.path.exists(os.path.join(src, inc)):
                if inc not in seen:
                    todo.append(inc)
            else:
                unresolved.add(inc)
        # header celma/<d>/<x>.hpp  ->  implementation library/<d>/<x>.cpp
        if f.startswith("celma/") and f.endswith(".hpp"):
            rel = f[len("celma/"):-4]
            if rel.split("/")[0] in IMPL_DIRS:
                impl = "library/" + rel + ".cpp"
                if impl not in seen and os.path.exists(os.path.join(src, impl)):
                    todo.append(impl)
    return sorted(seen), sorted(unresolved)


# --------------------------------------------------------------------------- types

def split_types(s):
    """'a':'b' -> ['a', 'b'] (printed and desugared type of a clang dump line)"""
    return re.findall(r"'((?:[^'\\]|\\.)*)'", s)


def top_level(s):
    """the type string with everything inside <>, () and [] blanked"""
    out, depth = [], 0
    for ch in s:
        if ch in "<([":
            depth += 1
            out.append(" ")
        elif ch in ">)]":
            depth -= 1
            out.append(" ")
        else:
            out.append(ch if depth == 0 else " ")
    return "".join(out)


def is_const_type(t):
    """is the object of this (printed) type immutable, including what it points / refers to?
    `T* const p` with a non-const T counts as mutable: the process-wide state is the pointee."""
    t = t.strip()
    t = re.sub(r"(\s*\[[^\]]*\])+$", "", t)          # arrays: constness of the elements
    tl = top_level(t)
    if "&" in tl:                                     # a reference names another object: const iff referent is
        cut = tl.index("&")
        return is_const_type(t[:cut])
    m = re.search(r"\(\s*(?:[\w:]+::)?\*\s*(const)?\s*\)\s*\(", t)
    if m:                                             # pointer to (member) function: the pointee is code
        return m.group(1) is not None
    if "*" in tl:                                     # pointer: `* const` and an immutable pointee
        cut = tl.rindex("*")
        after = tl[cut + 1:]
        if not re.search(r"\bconst\b", after):
            return False
        return is_const_type(t[:cut])
    return bool(re.search(r"\bconst\b", tl))


# --------------------------------------------------------------------------- clang-query

SINGLETON_CALLEE = ('callee(cxxMethodDecl(ofClass(classTemplateSpecializationDecl('
                    'hasName("::celma::common::Singleton")))))')


def matcher_commands(repo):
    rx = "^" + re.escape(os.path.join(repo, "src")) + "/"
    rx = rx.replace("\\", "\\\\").replace('"', '\\"')
    here = 'isExpansionInFileMatching("%s")' % rx
    return [
        "set output dump",
        "enable output diag",
        "set bind-root true",
        # 1 function-local
        "match varDecl(isStaticLocal(), %s)" % here,
        # 2 class-static (declaration in the class and out-of-class definition)
        "match varDecl(hasStaticStorageDuration(), unless(isStaticLocal()), hasDeclContext(recordDecl()), %s)" % here,
        # 3 namespace scope
        "match varDecl(hasStaticStorageDuration(), unless(isStaticLocal()), unless(hasDeclContext(recordDecl())), %s)" % here,
        # 4 uses of static-storage objects declared outside the repository
        "match declRefExpr(%s, to(varDecl(hasStaticStorageDuration(), unless(%s)).bind(\"target\")))" % (here, here),
        # 5-7 (other output mode) calls of member functions of common::Singleton<T> -- the only code that can
        #   name the singleton's private static members:
        #   5  every such call with the enclosing function,
        #   6  every (if statement, call inside its then-branch) pair with the condition,
        #   7  every (if statement, call inside its else-branch) pair with the condition.
        #   A call in the *condition* of an `if` is in neither branch of it.
        "set output diag",
        "set bind-root false",
        "match callExpr(%s, %s, hasAncestor(functionDecl().bind(\"fn\"))).bind(\"call\")" % (here, SINGLETON_CALLEE),
        "match ifStmt(%s, hasCondition(expr().bind(\"cond\")), hasThen(stmt(eachOf(callExpr(%s).bind(\"call\"), "
        "forEachDescendant(callExpr(%s).bind(\"call\"))))))" % (here, SINGLETON_CALLEE, SINGLETON_CALLEE),
        "match ifStmt(%s, hasCondition(expr().bind(\"cond\")), hasElse(stmt(eachOf(callExpr(%s).bind(\"call\"), "
        "forEachDescendant(callExpr(%s).bind(\"call\"))))))" % (here, SINGLETON_CALLEE, SINGLETON_CALLEE),
        # 8-10 per-function footprint (call closure of the API entry points):
        #   8  every (function of the repository, static-storage object named anywhere inside it -- lambdas and
        #      default arguments included) pair,
        #   9  every (function of the repository, function named inside it: callee of a call, constructor of a
        #      construct expression, function whose address is taken) pair,
        #  10  the references of (8) to objects declared outside the repository that only *bind a reference*
        #      (direct argument of a constructor / default argument of a parameter).
        "match functionDecl(%s, forEachDescendant(declRefExpr(to(varDecl(hasStaticStorageDuration()).bind(\"var\")))"
        ".bind(\"ref\"))).bind(\"fn\")" % here,
        "match functionDecl(%s, forEachDescendant(expr(anyOf(declRefExpr(to(functionDecl().bind(\"callee\"))), "
        "memberExpr(member(functionDecl().bind(\"callee\"))), "
        "cxxConstructExpr(hasDeclaration(functionDecl().bind(\"callee\"))))))).bind(\"fn\")" % here,
        "match declRefExpr(%s, to(varDecl(hasStaticStorageDuration(), unless(%s))), "
        "anyOf(hasParent(cxxConstructExpr()), hasParent(parmVarDecl()))).bind(\"ref\")" % (here, here),
    ]


KINDS = ["function-local", "class-static", "namespace-scope", "external-ref"]
MATCH_HDR = re.compile(r"^Match #\d+:\s*$")
DIAG_RE = re.compile(r'^(/[^:\n]+):(\d+):(\d+): note: "(\w+)" binds here')
COUNT_RE = re.compile(r"^(\d+) match(?:es)?\.\s*$")
VARDECL_RE = re.compile(r"^VarDecl 0x[0-9a-f]+ (?:parent 0x[0-9a-f]+ )?(?:prev 0x[0-9a-f]+ )?<[^>]*>(?: (?:line|col):[\d:]+| /\S+:\d+:\d+| <[^>]*>)?"
                        r"(?: (?:implicit|used|referenced|invalid))* (?P<name>[A-Za-z_]\w*) (?P<types>'.*') ?(?P<flags>[a-z_ ]*)$")


FN_NAME_RE = re.compile(r"((?:[A-Za-z_]\w*\s*::\s*)*~?[A-Za-z_]\w*)\s*\(")


def split_query_output(out):
    """the output of the four dump-mode matchers / of the three diag-mode call-site matchers"""
    n = 0
    lines = out.split("\n")
    for i, line in enumerate(lines):
        if COUNT_RE.match(line):
            n += 1
            if n == 4:
                return "\n".join(lines[:i + 1]) + "\n", lines[i + 1:]
    raise RuntimeError("clang-query: expected 4 match summaries before the call-site matcher, got %d" % n)


def split_sections(lines, n):
    """the output of n diag-mode matchers -> n lists of match blocks (each block a list of lines)"""
    sections, blocks, cur = [], [], None
    for line in lines:
        if MATCH_HDR.match(line):
            cur = []
            blocks.append(cur)
            continue
        m = COUNT_RE.match(line)
        if m:
            if int(m.group(1)) != len(blocks):
                raise RuntimeError("clang-query: %s call-site matches announced, %d parsed" % (m.group(1), len(blocks)))
            sections.append(blocks)
            blocks, cur = [], None
            continue
        if cur is not None:
            cur.append(line)
    if len(sections) != n:
        raise RuntimeError("clang-query: expected %d summaries of the call-site matchers, got %d" % (n, len(sections)))
    return sections


def bound_nodes(block):
    """name -> (file, line, column, source line) of the nodes bound in one diag-mode match"""
    bound = {}
    for i, l in enumerate(block):
        m = DIAG_RE.match(l)
        if m and m.group(4) not in bound:
            bound[m.group(4)] = (m.group(1), int(m.group(2)), int(m.group(3)), block[i + 1] if i + 1 < len(block) else "")
    return bound


def norm_expr(t):
    """source text of an expression without comments (already blanked) and without insignificant white space"""
    t = " ".join(t.split())
    return re.sub(r"(?<![A-Za-z0-9_]) | (?![A-Za-z0-9_])", "", t)


def source_text(path, cache):
    if path not in cache:
        try:
            cache[path] = strip_comments(open(path, "rb").read().decode("latin-1"))
        except OSError as e:
            raise RuntimeError("cannot read %s: %s" % (path, e))
    return cache[path]


def source_from(path, line, col, cache, n):
    """up to n characters of the (comment-free) source from line:col on"""
    txt = source_text(path, cache)
    pos = 0
    for _ in range(line - 1):
        pos = txt.find("\n", pos) + 1
        if pos <= 0:
            return ""
    return txt[pos + col - 1:pos + col - 1 + n]


def condition_text(path, line, col, cache):
    """normalised source text of the condition of an `if` whose expression starts at line:col (clang counts
    bytes): everything up to the parenthesis that closes `if (`"""
    if path not in cache:
        try:
            cache[path] = strip_comments(open(path, "rb").read().decode("latin-1"))
        except OSError as e:
            raise RuntimeError("cannot read %s: %s" % (path, e))
    txt = cache[path]
    pos = 0
    for _ in range(line - 1):
        pos = txt.find("\n", pos)
        if pos < 0:
            raise RuntimeError("%s has no line %d" % (path, line))
        pos += 1
    i = start = pos + col - 1
    depth = 0
    while i < len(txt):
        ch = txt[i]
        if ch in "\"'":
            j = i + 1
            while j < len(txt) and txt[j] != ch:
                j += 2 if txt[j] == "\\" else 1
            i = j + 1
            continue
        if ch in "([{":
            depth += 1
        elif ch in ")]}":
            if depth == 0:
                if ch != ")":
                    break
                res = norm_expr(txt[start:i])
                if not res:
                    break
                return res
            depth -= 1
        elif ch == ";" and depth == 0:
            break
        i += 1
    raise RuntimeError("%s:%d:%d: cannot delimit the condition of the `if`" % (path, line, col))


def parse_call_sites(lines, repo, cache=None):
    """-> list of dicts (file, function, line, col, guard) for the calls of Singleton<T> members; `guard` is the
    list of the conditions of the enclosing `if` statements, outermost first, normalised source text, `!(..)`
    when the call sits in the else-branch.  A call in the condition of an `if` is not guarded by that `if`."""
    src = os.path.join(repo, "src") + "/"
    cache = {} if cache is None else cache
    calls, thens, elses, refs, edges, binds = split_sections(lines, 6)
    guards = {}           # (file, line, col) of the call -> {(line, col) of the condition: text}
    for blocks, neg in ((thens, False), (elses, True)):
        for b in blocks:
            bound = bound_nodes(b)
            if "call" not in bound or "cond" not in bound:
                raise RuntimeError("clang-query: if/call match without call or condition: " + " | ".join(b[:6]))
            cf, cl, cc, _ = bound["cond"]
            text = condition_text(cf, cl, cc, cache)
            guards.setdefault(bound["call"][:3], {})[(cf, cl, cc)] = "!(%s)" % text if neg else text
    res, seen = [], set()
    for b in calls:
        bound = bound_nodes(b)
        if "fn" not in bound or "call" not in bound:
            raise RuntimeError("clang-query: call site without enclosing function: " + " | ".join(b[:6]))
        if bound["call"][:3] in seen:       # once per template instantiation
            continue
        seen.add(bound["call"][:3])
        f, ln, fcol, text = bound["fn"]
        cfile, cline, ccol, _ = bound["call"]
        if not f.startswith(src) or not cfile.startswith(src):
            raise RuntimeError("clang-query: call site outside the repository: " + cfile)
        seg = text[fcol - 1:] if 0 < fcol <= len(text) else text
        if "(" not in seg:          # `type\n   Class::name( ...`: the declarator continues on the following lines
            seg = source_from(f, ln, fcol, cache, 600)
        m = None if seg.lstrip()[:1] in ("(", ")", "[", "{") else FN_NAME_RE.search(seg)   # lambda: its call operator
        # a lambda / an unreadable header line keeps its position as name: never equal to a modelled caller
        name = re.sub(r"\s+", "", m.group(1)) if m else "%s:%d" % (f[len(src):], ln)
        g = guards.get(bound["call"][:3], {})
        res.append({"file": cfile[len(src):], "function": name, "line": cline, "col": ccol,
                    "guard": [g[k] for k in sorted(g)]})
    missing = set(guards) - seen
    if missing:
        raise RuntimeError("clang-query: guarded call sites not among the call sites: %s" % sorted(missing)[:3])
    res = [dict(c, kind="singleton-call") for c in res]
    for b in refs:
        bound = bound_nodes(b)
        if "fn" not in bound or "var" not in bound or "ref" not in bound:
            raise RuntimeError("clang-query: function/static reference match without fn, var or ref: " + " | ".join(b[:6]))
        res.append({"kind": "fn-ref", "fn": bound["fn"][:3], "var": bound["var"][:2], "site": bound["ref"][:3]})
    for b in edges:
        bound = bound_nodes(b)
        if "fn" not in bound:
            raise RuntimeError("clang-query: call edge match without fn: " + " | ".join(b[:6]))
        # a callee without a source position (builtin) is a function outside the repository
        res.append({"kind": "fn-edge", "fn": bound["fn"][:3], "callee": bound.get("callee", ("<builtin>", 0, 0))[:3]})
    for b in binds:
        bound = bound_nodes(b)
        if "ref" not in bound:
            raise RuntimeError("clang-query: reference-binding match without ref: " + " | ".join(b[:6]))
        res.append({"kind": "ext-bind", "site": bound["ref"][:3]})
    return res


def parse_query_output(out, repo):
    """-> list of dicts (kind, file, line, name, type, flags) ; raises when the output has not the expected shape"""
    out, call_lines = split_query_output(out)
    res, counts = parse_query_output_decls(out, repo)
    res += parse_call_sites(call_lines, repo)
    return res, counts


def parse_query_output_decls(out, repo):
    src = os.path.join(repo, "src") + "/"
    res = []
    blocks = []          # (kind index, [lines])
    kind = 0
    cur = None
    counts = []
    for line in out.split("\n"):
        if MATCH_HDR.match(line):
            cur = []
            blocks.append((kind, cur))
            continue
        m = COUNT_RE.match(line)
        if m:
            counts.append(int(m.group(1)))
            kind += 1
            cur = None
            continue
        if cur is not None:
            cur.append(line)
    if len(counts) != 4:
        raise RuntimeError("clang-query: expected 4 match summaries, got %d" % len(counts))
    if sum(counts) != len(blocks):
        raise RuntimeError("clang-query: %d matches announced, %d parsed" % (sum(counts), len(blocks)))
    for kind, lines in blocks:
        locs = {}
        for l in lines:
            m = DIAG_RE.match(l)
            if m and m.group(4) not in locs:
                locs[m.group(4)] = (m.group(1), int(m.group(2)))
        decl = None
        for i, l in enumerate(lines):
            if l.startswith("VarDecl 0x"):
                decl = l
                break
        if decl is None or "root" not in locs:
            raise RuntimeError("clang-query: match without VarDecl/root: " + " | ".join(lines[:6]))
        m = VARDECL_RE.match(decl)
        if not m:
            raise RuntimeError("clang-query: cannot parse " + decl)
        types = split_types(m.group("types"))
        if not types:
            raise RuntimeError("clang-query: no type in " + decl)
        f, ln = locs["root"]
        if not f.startswith(src):
            raise RuntimeError("clang-query: location outside the repository: " + f)
        res.append({"kind": KINDS[kind], "file": f[len(src):], "line": ln, "name": m.group("name"),
                    "type": types[0], "desugared": types[-1], "flags": m.group("flags").split()})
    return res, counts


def run_clang_query(tu, repo, cmds):
    args = [CLANG_QUERY]
    for c in cmds:
        args += ["-c", c]
    args += [tu, "--", "-std=gnu++17", "-w", "-I" + os.path.join(repo, "src")]
    p = subprocess.run(args, stdout=subprocess.PIPE, stderr=subprocess.PIPE, text=True, errors="replace", timeout=600)
    errs = [l for l in p.stderr.split("\n") if re.search(r"\b(fatal )?error:", l)]
    return p.returncode, p.stdout, errs


# --------------------------------------------------------------------------- token scan fallback

STATIC_RE = re.compile(r"^[ \t]*(?:inline[ \t]+)?static[ \t]+(?P<decl>[^;(){}=]*?)\s*(?:=[^;]*|\{[^;]*\})?;", re.M)
SCAN_KEYWORDS = re.compile(r"\b(friend|class|struct|operator|return|using|typedef|delete|throw|new|case|goto|public|protected|private|template|typename)\b")


def strip_comments(txt):
    def repl(m):
        s = m.group(0)
        return "".join(ch if ch == "\n" else " " for ch in s) if s.startswith("/") else s
    return re.sub(r'//[^\n]*|/\*.*?\*/|"(?:\\.|[^"\\])*"|\'(?:\\.|[^\'\\])*\'', repl, txt, flags=re.S)


def token_scan(path, rel):
    """`static <type> <name> [= ..];` declarations (members, locals, file scope).  Coarser than the
    AST: namespace-scope objects without `static` and out-of-class definitions are found by the
    second pattern (`<type> <Class>::<name> [= ..| (..)];` at column 0)."""
    txt = strip_comments(open(path, encoding="utf-8", errors="replace").read())
    res = []
    for m in STATIC_RE.finditer(txt):
        decl = " ".join(m.group("decl").split())
        if "thread_local" in decl or not decl or SCAN_KEYWORDS.search(decl) or re.search(r"(?<!:):(?!:)", decl):
            continue
        mm = re.match(r"(?P<type>.*?[\s*&>])(?P<name>[A-Za-z_]\w*)\s*(?P<arr>(\[[^\]]*\])*)$", decl)
        if not mm:
            continue
        ty = (mm.group("type").replace("constexpr", "const").strip() + mm.group("arr")).strip()
        res.append({"kind": "token-scan", "file": rel, "line": txt.count("\n", 0, m.start("decl")) + 1,
                    "name": mm.group("name"), "type": ty, "desugared": ty, "flags": ["static"]})
    for m in re.finditer(r"^(?P<type>[A-Za-z_][\w:<>,\s*&]*?)\s+(?P<cls>[A-Za-z_]\w*)::(?P<name>[A-Za-z_]\w*)\s*(?:=[^;]*|\([^;{]*\))?;", txt, re.M):
        ty = " ".join(m.group("type").split())
        if SCAN_KEYWORDS.search(ty) or re.search(r"(?<!:):(?!:)", ty):
            continue
        res.append({"kind": "token-scan", "file": rel, "line": txt.count("\n", 0, m.start()) + 1,
                    "name": m.group("name"), "type": ty, "desugared": ty, "flags": []})
    return res


def token_scan_calls(path, rel):
    """units clang could not parse: every `X::instance(` / `X::reset(` counts as an unguarded call of a
    singleton member from an unnamed function (never equal to a modelled caller)"""
    txt = strip_comments(open(path, encoding="utf-8", errors="replace").read())
    res = []
    for m in re.finditer(r"\b[A-Za-z_]\w*\s*(?:<[^;{}()]*>)?\s*::\s*(?:instance|reset)\s*\(", txt):
        ln = txt.count("\n", 0, m.start()) + 1
        res.append({"kind": "singleton-call", "file": rel, "function": "%s:%d" % (rel, ln), "line": ln, "col": 0, "guard": []})
    return res


# --------------------------------------------------------------------------- scope (informational)

def enclosing_scope(src_dir, entry, cache):
    """best-effort name of the function / class a declaration sits in (token scan backwards)"""
    f = entry["file"]
    if f not in cache:
        try:
            cache[f] = strip_comments(open(os.path.join(src_dir, f), encoding="utf-8", errors="replace").read()).split("\n")
        except OSError:
            cache[f] = []
    lines = cache[f]
    i = min(entry["line"] - 1, len(lines) - 1)
    if entry["kind"] == "function-local":
        for j in range(i, max(-1, i - 400), -1):
            m = re.match(r"^(?:[\w:<>,*&~\s]+?[\s*&])?((?:\w+::)*~?\w+)\s*\([^;]*$", lines[j])
            if m and not lines[j].startswith((" ", "\t", "#")) and m.group(1) not in ("if", "for", "while", "switch"):
                return m.group(1)
        return ""
    if entry["kind"] == "class-static":
        for j in range(i, max(-1, i - 800), -1):
            m = re.match(r"^\s*(?:template\s*<[^>]*>\s*)?(?:class|struct)\s+(\w+)[^;]*$", lines[j])
            if m:
                return m.group(1)
            m = re.match(r"^.*?\b(\w+)(?:<[^>]*>)?::%s\b" % re.escape(entry["name"]), lines[j])
            if m and j >= i - 3:
                return m.group(1)
        return ""
    return ""



# --------------------------------------------------------------------------- call closure of the API entry points

# the nine calls of the thread model (Lemmas/InterleaveApi.lean, `Api`) and the simple name of the C++ function(s)
# each of them enters.  Functions are identified BY SIMPLE NAME (all overloads, all overriders, every class):
# a virtual call or a call through a template reaches every function of the repository with that name.
API_ENTRIES = [
    ("construct", "Handler"),
    ("addListArg", "internAddArgument"),
    ("addBracketHandler", "addBracketHandler"),
    ("addSubGroupArg", "addArgument"),
    ("evalUse", "evalArguments"),
    ("usage", "usage"),
    ("listArgGroups", "listArgGroups"),
    ("addStandardArgument", "addStandardArgument"),
    ("evalArgumentString", "evalArgumentString"),
]
SINGLETON_HEADER = "celma/common/singleton.hpp"
# functions outside the repository known to keep hidden process-wide state (not re-entrant / locale / environment)
HIDDEN_STATE = {"strtok", "localtime", "gmtime", "asctime", "ctime", "rand", "srand", "setlocale", "global",
                "getenv", "setenv", "putenv", "unsetenv", "strerror", "tmpnam", "readdir", "getpwnam", "getpwuid",
                "gethostbyname", "getlogin", "ttyname", "strsignal", "mblen", "mbtowc", "wctomb", "drand48", "lrand48",
                "imbue", "sync_with_stdio"}
DECL_NAME_RE = re.compile(r"(operator\s*(?:\(\s*\)|\[\s*\]|[-+*/%^&|~!=<>,]+|\s[\w:\s*&<>]+?)|~?[A-Za-z_]\w*)\s*\(")


def decl_name(path, line, col, cache, names):
    """simple name of the function declared at path:line:col (clang reports the first character of the
    declaration): the identifier (or operator) in front of the first parenthesis, after any `template <..>`
    header.  A declaration without a readable name (lambda, implicit member, macro) is named by its position --
    the same function gets the same name wherever it is seen, which is all the closure needs."""
    key = (path, line, col)
    if key in names:
        return names[key]
    name = None
    try:
        seg = source_from(path, line, col, cache, 700)
    except RuntimeError:
        seg = ""
    while True:
        m = re.match(r"\s*template\s*<", seg)
        if not m:
            break
        i, depth = m.end(), 1
        while i < len(seg) and depth:
            depth += {"<": 1, ">": -1}.get(seg[i], 0)
            i += 1
        seg = seg[i:]
    if seg.lstrip()[:1] not in ("[", "(", "{", ""):
        cut = len(seg)
        for ch in "{;":
            k = seg.find(ch)
            if k >= 0:
                cut = min(cut, k)
        m = DECL_NAME_RE.search(seg[:cut])
        if m:
            name = re.sub(r"\s+", " ", m.group(1)).strip()
            name = name.split("::")[-1] if not name.startswith("operator") else name
    if not name:
        name = "@%s:%d" % (os.path.basename(path), line)
    names[key] = name
    return name


def entry_footprints(raw, repo, entries, exts, caller_list):
    """per API entry point: what the functions reachable from it BY NAME can name.  Returns (list of dicts, summary)."""
    src = os.path.join(repo, "src") + "/"
    cache, names = {}, {}
    in_repo = lambda f: f.startswith(src)
    refs, edges, bind_sites = {}, {}, set()      # function name -> set
    fn_files = {}                                  # function name -> files of its declarations (repository only)
    n_edges = 0
    for e in raw:
        if e["kind"] == "ext-bind":
            bind_sites.add(e["site"])
    for e in raw:
        if e["kind"] not in ("fn-ref", "fn-edge"):
            continue
        ff, fl, fc = e["fn"]
        if not in_repo(ff):
            continue
        if ff[len(src):] == SINGLETON_HEADER:
            # the members of common::Singleton<T> are the only code that names its statics; who calls them, under
            # which guards, is the call-site table (matchers 5-7): their bodies are not part of any closure
            continue
        fn = decl_name(ff, fl, fc, cache, names)
        fn_files.setdefault(fn, set()).add(ff[len(src):])
        if e["kind"] == "fn-ref":
            refs.setdefault(fn, set()).add((e["var"], e["site"]))
        else:
            cf_, cl, cc = e["callee"]
            n_edges += 1
            if in_repo(cf_):
                if cf_[len(src):] == SINGLETON_HEADER:
                    continue
                edges.setdefault(fn, set()).add(("in", decl_name(cf_, cl, cc, cache, names)))
            else:
                edges.setdefault(fn, set()).add(("out", cf_ + ":%d" % cl, decl_name(cf_, cl, cc, cache, names) if cl else "<builtin>"))
    # static objects by declaration position
    stat_idx = {}
    for i, en in enumerate(entries):
        for ln in [en["line"]] + en.get("other_lines", []):
            stat_idx[(en["file"], ln)] = i
    ext_by_site = {}
    for i, x in enumerate(exts):
        for f, l in x["sites"]:
            ext_by_site.setdefault((f, l), set()).add(i)
    all_entry_names = set(n for _, n in API_ENTRIES)
    res = []
    for api, start in API_ENTRIES:
        if start not in fn_files:
            raise RuntimeError("API entry point %s: no function named `%s` in the repository" % (api, start))
        cut = all_entry_names - {start}
        seen, todo, nested, outs = {start}, [start], set(), {}
        while todo:
            f = todo.pop()
            for ed in edges.get(f, ()):
                if ed[0] == "out":
                    outs[ed[1]] = ed[2]
                elif ed[1] in cut:
                    nested.add(ed[1])
                elif ed[1] not in seen:
                    seen.add(ed[1])
                    todo.append(ed[1])
        statics, used, bound, sites, unknown = set(), set(), set(), [], []
        for f in sorted(seen):
            for (vf, vl), site in sorted(refs.get(f, ())):
                if in_repo(vf):
                    i = stat_idx.get((vf[len(src):], vl))
                    if i is not None:           # otherwise: a const object (only the mutable ones are in the inventory)
                        statics.add(i)
                        sites.append("%s names %s (%s:%d)" % (f, entries[i]["name"], site[0][len(src):], site[1]))
                else:
                    if not in_repo(site[0]):
                        continue                # a default argument of a function outside the repository
                    xs = ext_by_site.get((site[0][len(src):], site[1]), ())
                    for i in xs:
                        if site in bind_sites and exts[i]["name"] in ("cout", "cerr", "clog"):
                            bound.add(i)
                            sites.append("%s binds %s (%s:%d)" % (f, exts[i]["name"], site[0][len(src):], site[1]))
                        else:
                            used.add(i)
                            sites.append("%s uses %s (%s:%d)" % (f, exts[i]["name"], site[0][len(src):], site[1]))
        rows = sorted(set((c["file"], c["function"]) for c in caller_list if c["function"].split("::")[-1] in seen))
        hidden = sorted(set(n for n in outs.values() if n in HIDDEN_STATE))
        res.append({"api": api, "entry": start, "functions": len(seen), "external_callees": len(outs),
                    "statics": sorted(statics), "used_externals": sorted(used), "bound_externals": sorted(bound),
                    "singleton_callers": rows, "hidden_state_callees": hidden, "nested_entries": sorted(nested),
                    "sites": sorted(set(sites)), "closure": sorted(seen), "files": sorted(set(x for f in seen for x in fn_files.get(f, ())))})
    return res, {"functions": len(fn_files), "edges": n_edges}

# --------------------------------------------------------------------------- Lean output

def lean_str(s):
    return '"' + s.replace("\\", "\\\\").replace('"', '\\"') + '"'


def emit_lean(path, method, files, entries, externals, n_const, n_tus, fallback_files, callers=(), footprints=(), graph=None):
    L = []
    L.append("/-")
    L.append("  GENERATED by translate/shared_state.py from the working tree of the checked repository --")
    L.append("  do not edit.  Inventory of the objects with static storage duration that are *mutable*")
    L.append("  (type of the object not const-qualified; `thread_local` excluded) in the #include/link")
    L.append("  closure of celma/prog_args/handler.hpp, plus the static-storage objects declared outside")
    L.append("  the repository that this code names (std::cout ...).  Core Lean only.")
    L.append("-/")
    L.append("namespace CelmaVerif.Generated.HandlerSharedState")
    L.append("")
    L.append("/-- one object with static storage duration; `file` is relative to `src/` -/")
    L.append("structure Entry where")
    L.append("  file  : String")
    L.append("  line  : Nat")
    L.append("  name  : String")
    L.append("  type  : String")
    L.append("  kind  : String   -- function-local | class-static | namespace-scope | token-scan")
    L.append("  scope : String   -- enclosing function / class (informational, best effort)")
    L.append("  insts : List String := []   -- further types the declaration was seen with (template instantiations)")
    L.append("  otherLines : List Nat := [] -- further positions of the same object (out-of-class definition of a class-static)")
    L.append("deriving Repr, DecidableEq")
    L.append("")
    L.append("/-- a static-storage object declared outside the repository and named by reachable code -/")
    L.append("structure External where")
    L.append("  name    : String")
    L.append("  type    : String")
    L.append("  mutable : Bool")
    L.append("  sites   : List (String × Nat)   -- (file, line) of the uses")
    L.append("deriving Repr, DecidableEq")
    L.append("")
    L.append("/-- how the inventory was extracted: \"clang-query-14\", \"token-scan\" or \"mixed\" -/")
    L.append("def method : String := %s" % lean_str(method))
    L.append("")
    L.append("def translationUnits : Nat := %d" % n_tus)
    L.append("def reachedFiles : Nat := %d" % len(files))
    L.append("/-- static-storage objects of the reach that are const (not listed individually) -/")
    L.append("def constStatics : Nat := %d" % n_const)
    L.append("def tokenScanFiles : List String := [%s]" % ", ".join(lean_str(f) for f in fallback_files))
    L.append("")
    L.append("def mutableStatics : List Entry := [")
    rows = []
    for e in entries:
        rows.append("  { file := %s, line := %d, name := %s, type := %s, kind := %s, scope := %s, insts := [%s]" % (
            lean_str(e["file"]), e["line"], lean_str(e["name"]), lean_str(e["type"]), lean_str(e["kind"]),
            lean_str(e.get("scope", "")), ", ".join(lean_str(t) for t in e.get("insts", []))) +
            ((", otherLines := [%s] }" % ", ".join(str(n) for n in e["other_lines"])) if e.get("other_lines") else " }"))
    L.append(",\n".join(rows))
    L.append("]")
    L.append("")
    L.append("def externalStatics : List External := [")
    rows = []
    for x in externals:
        rows.append("  { name := %s, type := %s, mutable := %s, sites := [%s] }" % (
            lean_str(x["name"]), lean_str(x["type"]), "true" if x["mutable"] else "false",
            ", ".join("(%s, %d)" % (lean_str(f), l) for f, l in x["sites"])))
    L.append(",\n".join(rows))
    L.append("]")
    L.append("")
    L.append("/-- one call of a member function of `common::Singleton<T>`; `guard`: the conditions of the enclosing `if`")
    L.append("statements, outermost first, as normalised source text (comments and insignificant white space removed),")
    L.append("`!(c)` when the call sits in the else-branch of `if (c)`; a call inside the *condition* of an `if` is not")
    L.append("guarded by it; `[]` = the call sits in no branch of any `if` of its function.  The call is reached only when")
    L.append("all conjuncts hold. -/")
    L.append("structure CallSite where")
    L.append("  line  : Nat")
    L.append("  guard : List String")
    L.append("deriving Repr, DecidableEq")
    L.append("")
    L.append("/-- a function of the reach that calls a member function of `common::Singleton<T>` (the only code")
    L.append("that can name the singleton's private static members).  `sites`: its call sites in source order;")
    L.append("`guards`: the distinct guards of the sites (sorted); `guarded`: no site has the empty guard. -/")
    L.append("structure SingletonCaller where")
    L.append("  file     : String")
    L.append("  function : String")
    L.append("  guarded  : Bool")
    L.append("  guards   : List (List String)")
    L.append("  sites    : List CallSite")
    L.append("deriving Repr, DecidableEq")
    L.append("")
    L.append("def singletonCallers : List SingletonCaller := [")
    lst = lambda g: "[%s]" % ", ".join(lean_str(x) for x in g)
    L.append(",\n".join("  { file := %s, function := %s, guarded := %s,\n    guards := [%s],\n    sites := [%s] }" % (
        lean_str(c["file"]), lean_str(c["function"]), "true" if c["guarded"] else "false",
        ", ".join(lst(g) for g in c["guards"]),
        ", ".join("{ line := %d, guard := %s }" % (x["line"], lst(x["guard"])) for x in c["sites"])) for c in callers))
    L.append("]")
    L.append("")
    nat_list = lambda l: "[%s]" % ", ".join(str(n) for n in l)
    L.append("/-- what the CALL CLOSURE of one entry point of the thread model's `Api` can name.  Functions are identified by")
    L.append("SIMPLE NAME: `entry` stands for every function of the repository with that name (all overloads, all classes),")
    L.append("and the closure follows every function *named* inside a reached function -- callee of a call, constructor of a")
    L.append("construct expression, function whose address is taken; bodies of lambdas and default arguments belong to the")
    L.append("function they are written in -- to every function of the repository with the same simple name (so a virtual")
    L.append("call reaches all overriders, a call in a template all instantiations' targets).  The closure stops at (a) the")
    L.append("entry points of the *other* `Api` calls (`nestedEntries`: a nested call of another entry point is a call of its")
    L.append("own in a thread's call list), (b) the members of `common::Singleton<T>` (singleton.hpp; their callers and")
    L.append("guards are `singletonCallers`), (c) functions declared outside the repository (`externalCallees`, counted).")
    L.append("`statics` / `usedExternals`: indices into `mutableStatics` / `externalStatics` of the objects a reached")
    L.append("function names (guards are not evaluated: named = may be touched); `boundExternals`: standard streams that")
    L.append("are only bound to a reference (constructor argument or default argument), not written at that place;")
    L.append("`singletonCallers`: the rows (file, function) of the call-site table whose function's simple name is in the")
    L.append("closure; `hiddenStateCallees`: external callees on the list of functions known to keep hidden process-wide")
    L.append("state (strtok, localtime, setlocale, getenv ...). -/")
    L.append("structure EntryFootprint where")
    L.append("  api                : String")
    L.append("  entry              : String")
    L.append("  functions          : Nat")
    L.append("  externalCallees    : Nat")
    L.append("  statics            : List Nat")
    L.append("  usedExternals      : List Nat")
    L.append("  boundExternals     : List Nat")
    L.append("  singletonCallers   : List (String × String)")
    L.append("  hiddenStateCallees : List String")
    L.append("  nestedEntries      : List String")
    L.append("  sites              : List String   -- where the listed objects are named (for the error message / report)")
    L.append("deriving Repr, DecidableEq")
    L.append("")
    L.append("/-- function names / (function, named function) pairs of the repository the closures were computed over -/")
    L.append("def callGraphFunctions : Nat := %d" % (graph or {}).get("functions", 0))
    L.append("def callGraphEdges : Nat := %d" % (graph or {}).get("edges", 0))
    L.append("")
    L.append("def entryFootprints : List EntryFootprint := [")
    L.append(",\n".join(
        "  { api := %s, entry := %s, functions := %d, externalCallees := %d,\n    statics := %s, usedExternals := %s, boundExternals := %s,\n"
        "    singletonCallers := [%s],\n    hiddenStateCallees := [%s],\n    nestedEntries := [%s],\n    sites := [%s] }" % (
            lean_str(fp["api"]), lean_str(fp["entry"]), fp["functions"], fp["external_callees"],
            nat_list(fp["statics"]), nat_list(fp["used_externals"]), nat_list(fp["bound_externals"]),
            ", ".join("(%s, %s)" % (lean_str(a), lean_str(b)) for a, b in fp["singleton_callers"]),
            ", ".join(lean_str(x) for x in fp["hidden_state_callees"]),
            ", ".join(lean_str(x) for x in fp["nested_entries"]),
            ", ".join(lean_str(x) for x in fp["sites"])) for fp in footprints))
    L.append("]")
    L.append("")
    L.append("def reach : List String := [")
    L.append(",\n".join("  " + lean_str(f) for f in files))
    L.append("]")
    L.append("")
    L.append("end CelmaVerif.Generated.HandlerSharedState")
    txt = "\n".join(L) + "\n"
    os.makedirs(os.path.dirname(path), exist_ok=True)
    old = None
    try:
        old = open(path, encoding="utf-8").read()
    except OSError:
        pass
    if old != txt:             # keep the mtime when nothing changed (no needless Lean rebuild)
        tmp = path + ".tmp%d" % os.getpid()
        with open(tmp, "w", encoding="utf-8") as f:
            f.write(txt)
        os.replace(tmp, path)
    return old != txt


# --------------------------------------------------------------------------- main entry

def handler_inventory(repo, lean_dir):
    src = os.path.join(repo, "src")
    files, unresolved = include_closure(repo)
    tus = [f for f in files if f.endswith(".cpp")]
    if "library/prog_args/handler.cpp" not in tus:
        raise RuntimeError("library/prog_args/handler.cpp is not in the reach")
    have_cq = shutil.which(CLANG_QUERY) is not None
    work = tempfile.mkdtemp(prefix="celma_shared_state_")
    raw, fallback, tu_errors, reordered = [], [], {}, []
    try:
        synth = os.path.join(work, "prog_args_umbrella.cpp")
        umbrella = root_headers(repo)
        cmds = matcher_commands(repo)

        def write_umbrella(hs):
            with open(synth, "w") as f:
                for h in hs:
                    f.write('#include "%s"\n' % h)

        def one(job):
            path, rel = job
            if not have_cq:
                return rel, None, ["clang-query-14 not found"], None
            errs = []
            for attempt in range(3):          # a loaded machine occasionally kills / garbles one run
                rc, out, errs = run_clang_query(path, repo, cmds)
                if not errs:
                    try:
                        ents, counts = parse_query_output(out, repo)
                        return rel, ents, [], counts
                    except RuntimeError as e:
                        errs = [str(e)]
                if rel == "<umbrella>":
                    break
            return rel, None, errs, None

        jobs = [(os.path.join(src, t), t) for t in tus]
        ex = cf.ThreadPoolExecutor(os.cpu_count() or 4)
        futs = [ex.submit(one, j) for j in jobs]
        # the umbrella unit (meanwhile): headers that are not self-contained are taken out ...
        dropped = []
        umb_result = None
        for attempt in range(6):
            write_umbrella([h for h in umbrella if h not in dropped])
            umb_result = one((synth, "<umbrella>"))
            if umb_result[1] is not None:
                break
            bad = set()
            for l in umb_result[2]:
                m = re.match(r"^(/[^:]+):\d+:\d+: (?:fatal )?error:", l)
                if m and m.group(1).startswith(src + "/"):
                    bad.add(os.path.relpath(m.group(1), src))
            bad -= set(dropped)
            if not bad:
                break
            dropped += sorted(bad)
        # ... and retried one by one *after* all the others (a header that only lacks an include of
        # its own parses then); what still fails is token-scanned
        extra = []
        if dropped and umb_result[1] is not None:
            good = [h for h in umbrella if h not in dropped]
            for k, h in enumerate(dropped):
                pth = os.path.join(work, "umbrella_plus_%d.cpp" % k)
                with open(pth, "w") as f:
                    for g in good + [h]:
                        f.write('#include "%s"\n' % g)
                extra.append((h, ex.submit(one, (pth, "<umbrella>"))))
        results = [f.result() for f in futs] + [umb_result]
        for h, f in extra:
            r = f.result()
            if r[1] is not None:
                results.append(("<umbrella+%s>" % h, r[1], [], r[3]))
                dropped.remove(h)
                reordered.append(h)
        ex.shutdown()
        for rel, ents, errs, counts in results:
            if ents is None:
                tu_errors[rel] = errs[:3]
                fallback.append(rel)
            else:
                raw += ents
        for h in dropped:
            tu_errors[h] = ["not self-contained: left out of the umbrella unit, token-scanned"]
        if fallback or dropped:
            # token scan of the units clang could not parse; when the umbrella unit itself failed,
            # of every header of the reach as well (no parsed unit is known to have seen them)
            scan = set(f for f in fallback if f != "<umbrella>") | set(dropped)
            if "<umbrella>" in fallback:
                scan |= set(f for f in files if f.endswith(".hpp"))
            for f in sorted(scan):
                raw += token_scan(os.path.join(src, f), f)
                raw += token_scan_calls(os.path.join(src, f), f)
            fallback = sorted(set(fallback) | set(dropped))
    finally:
        shutil.rmtree(work, ignore_errors=True)

    if fallback and len([f for f in fallback if f.endswith(".cpp") or f == "<umbrella>"]) == len(jobs) + 1:
        method = "token-scan"
    elif fallback:
        method = "mixed"
    else:
        method = "clang-query-14"

    inreach = set(files)
    by_key = {}
    externals = {}
    n_const_keys = set()
    callers = {}
    for e in raw:
        if e["kind"] == "singleton-call":
            c = callers.setdefault((e["file"], e["function"]), {"file": e["file"], "function": e["function"], "sites": {}})
            # the same call site is seen once per unit that includes it
            c["sites"].setdefault((e["line"], e["col"]), tuple(e["guard"]))
            continue
        if e["kind"] in ("fn-ref", "fn-edge", "ext-bind"):
            continue                    # the call closure: entry_footprints() below
        if e["kind"] == "external-ref":
            x = externals.setdefault(e["name"], {"name": e["name"], "type": e["desugared"],
                                                 "mutable": not is_const_type(e["desugared"]), "sites": set()})
            x["sites"].add((e["file"], e["line"]))
            continue
        if e["file"] not in inreach:
            # a header under src/ that the include scan did not reach but a unit did include
            # (conditional / macro include): it belongs to the reach
            inreach.add(e["file"])
        const = is_const_type(e["type"]) or is_const_type(e["desugared"])
        key = (e["file"], e["line"], e["name"])
        if const:
            n_const_keys.add(key)
            continue
        cur = by_key.get(key)
        if cur is None:
            by_key[key] = dict(e, insts=[])
        else:
            # prefer the AST kinds over the token scan; collect other printed types (template instances)
            if cur["kind"] == "token-scan" and e["kind"] != "token-scan":
                e2 = dict(e, insts=cur["insts"])
                by_key[key] = e2
                cur = e2
            for t in (e["type"],):
                if t != cur["type"] and t not in cur["insts"]:
                    cur["insts"].append(t)
    cache = {}
    entries = sorted(by_key.values(), key=lambda e: (e["file"], e["line"], e["name"]))
    for e in entries:
        e["insts"].sort()
        e["scope"] = enclosing_scope(src, e, cache)
    # a class-static data member is seen twice (declaration in the class, definition outside): one entry per
    # qualified name (file, class, name), the further positions kept in `otherLines`
    merged, by_q = [], {}
    for e in entries:
        q = (e["file"], e["scope"], e["name"])
        if e["kind"] == "class-static" and e["scope"] and q in by_q:
            first = by_q[q]
            first.setdefault("other_lines", []).append(e["line"])
            for t in [e["type"]] + e["insts"]:
                if t != first["type"] and t not in first["insts"]:
                    first["insts"].append(t)
            first["insts"].sort()
            continue
        if e["kind"] == "class-static" and e["scope"]:
            by_q[q] = e
        merged.append(e)
    entries = merged
    exts = []
    n_const_ext = 0
    for x in sorted(externals.values(), key=lambda x: x["name"]):
        x["sites"] = sorted(x["sites"])
        if x["mutable"]:
            exts.append(x)
        else:
            n_const_ext += 1          # e.g. std::string::npos: immutable, only counted
    files_out = sorted(inreach)
    out = os.path.join(lean_dir, OUT_REL) if lean_dir else None
    caller_list = []
    for k in sorted(callers):
        c = callers[k]
        sites = [{"line": ln, "guard": list(g)} for (ln, _), g in sorted(c["sites"].items())]
        caller_list.append({"file": c["file"], "function": c["function"],
                            "guarded": all(x["guard"] for x in sites),      # one call outside every branch: unguarded caller
                            "guards": sorted(set(tuple(x["guard"]) for x in sites)), "sites": sites})
    footprints, graph = entry_footprints(raw, repo, entries, exts, caller_list)
    changed = emit_lean(out, method, files_out, entries, exts, len(n_const_keys - set(by_key)), len(tus) + 1, sorted(fallback), caller_list,
                        footprints, graph) if lean_dir else False
    return {
        "method": method,
        "translation_units": len(tus) + 1,
        "reached_files": len(files_out),
        "unresolved_celma_includes": unresolved,
        "mutable_statics": ["%s:%d %s : %s [%s]" % (e["file"], e["line"], e["name"], e["type"], e["kind"]) for e in entries],
        "singleton_callers": ["%s %s: %s" % (c["file"], c["function"], "; ".join(
            "line %d %s" % (x["line"], ("if " + " && ".join(x["guard"])) if x["guard"] else "unguarded") for x in c["sites"]))
            for c in caller_list],
        "call_graph": graph,
        "entry_footprints": [{k: v for k, v in fp.items() if k not in ("files", "closure")} for fp in footprints],
        "external_statics": ["%s : %s%s (%d sites)" % (x["name"], x["type"], "" if x["mutable"] else " [const]", len(x["sites"])) for x in exts],
        "const_statics": len(n_const_keys - set(by_key)),
        "const_external_statics": n_const_ext,
        "token_scan_units": tu_errors,
        "headers_not_self_contained": reordered,
        "output": os.path.relpath(out, lean_dir) if lean_dir else None,
        "output_changed": changed,
    }


if __name__ == "__main__":
    import json
    repo = os.environ.get("CELMA_REPO", "/repo")
    lean = os.path.join(os.path.dirname(os.path.dirname(os.path.abspath(__file__))), "lean")
    if len(sys.argv) > 1:
        repo = sys.argv[1]
        lean = None                 # one argument = facts only, nothing is written
    if len(sys.argv) > 2:
        lean = sys.argv[2]
    json.dump(handler_inventory(repo, lean), sys.stdout, indent=1)
    print()
