#!/usr/bin/env python3
"""translate/logdefs_cxx.py — small C++ front end used by translate/logdefs.py (property C14).

Lexer, declaration indexer (namespaces, classes, enums, aliases, constants, data members, function
definitions wherever they are: in the class, behind it in the header, or in a .cpp) and a
recursive-descent parser for the statement / expression subset that the anchored functions use.
Anything outside the subset raises TranslateError; nothing is guessed.

Expressions (tuples):
  ('id', 'A::b')  ('num', n)  ('str', s)  ('chr', c)  ('bool', b)  ('null',)  ('this',)
  ('call', f, [args])  ('tid', 'name', 'template args text')  ('member', obj, name)  ('index', obj, i)
  ('un', op, e)  ('bin', op, a, b)  ('assign', op, a, b)  ('cond', c, a, b)  ('incdec', op, e)
  ('cast', type, e)  ('new', type, [args])  ('delete', e)  ('throw', e)  ('lambda', [params], body)
  ('comma', a, b)  ('initlist', [items])  ('sizeof_t', type)  ('sizeof_e', e)
Statements:
  ('block', [s])  ('if', c, a, b|None)  ('for', init|None, cond|None, step|None, body)
  ('rangefor', name, container, body)  ('while', c, body)  ('dowhile', body, c)
  ('switch', e, [([labels], [stmts])])   label = expr | 'default'
  ('return', e|None)  ('break',)  ('continue',)  ('decl', type, name, init|None)  ('expr', e)  ('empty',)
  ('arraydecl', element type, name, size|None, [items], is-constant, is-std-array)  ('sassert', e)
"""
import re


class TranslateError(Exception):
    pass


# --------------------------------------------------------------------------------------------------
# lexer

_PUNCT = ["<<=", ">>=", "...", "->*", "::", "->", "++", "--", "<<", ">>", "<=", ">=", "==", "!=", "&&", "||",
          "+=", "-=", "*=", "/=", "%=", "&=", "|=", "^=", ".*"]
_TOK = re.compile(
    r"""(?P<ws>\s+)|(?P<lc>//[^\n]*)|(?P<bc>/\*.*?\*/)|
        (?P<str>(?:u8|u|U|L)?"(?:[^"\\\n]|\\.)*")|(?P<chr>(?:u8|u|U|L)?'(?:[^'\\\n]|\\.)+')|
        (?P<num>(?:0[xX][0-9a-fA-F']+|\d[\d']*(?:\.\d*)?(?:[eE][+-]?\d+)?)[uUlLfF]*)|
        (?P<id>[A-Za-z_]\w*)|(?P<p>%s|[{}()\[\];:,.<>=!+\-*/%%&|^~?#])""" % "|".join(re.escape(p) for p in _PUNCT),
    re.S | re.X)


class Tok(tuple):
    """(kind, text) with kind in id, num, str, chr, p"""
    __slots__ = ()

    @property
    def kind(self):
        return self[0]

    @property
    def text(self):
        return self[1]


def lex(src, what="source"):
    # preprocessor lines (with continuations) are dropped; macros used in the anchored code look like calls
    src = re.sub(r"(?m)^[ \t]*#(?:[^\n\\]|\\\n|\\.)*", "", src)
    out = []
    i, n = 0, len(src)
    while i < n:
        m = _TOK.match(src, i)
        if not m:
            raise TranslateError("%s: cannot tokenise at %r" % (what, src[i:i + 30]))
        i = m.end()
        k = m.lastgroup
        if k in ("ws", "lc", "bc"):
            continue
        out.append(Tok((k, m.group(k))))
    return out


def is_p(t, text):
    return t is not None and t[0] == "p" and t[1] == text


def is_id(t, text=None):
    return t is not None and t[0] == "id" and (text is None or t[1] == text)


def text_of(toks):
    return " ".join(t[1] for t in toks)


OPEN = {"(": ")", "[": "]", "{": "}"}


def match_close(toks, i, what="bracket"):
    """index of the token closing the bracket opened at toks[i] ((), [], {})"""
    o = toks[i][1]
    c = OPEN[o]
    depth = 0
    for j in range(i, len(toks)):
        t = toks[j]
        if t[0] != "p":
            continue
        if t[1] == o:
            depth += 1
        elif t[1] == c:
            depth -= 1
            if depth == 0:
                return j
    raise TranslateError("%s: unbalanced %s" % (what, o))


def match_angle(toks, i):
    """index of the `>` closing the `<` at toks[i] in a type context, or -1"""
    depth = 0
    j = i
    while j < len(toks):
        t = toks[j]
        if t[0] == "p":
            if t[1] == "<":
                depth += 1
            elif t[1] == ">":
                depth -= 1
                if depth == 0:
                    return j
            elif t[1] == ">>":
                depth -= 2
                if depth <= 0:
                    return j if depth == 0 else -1
            elif t[1] in OPEN:
                j = match_close(toks, j)
            elif t[1] in (";", "{", "}", "&&", "||"):
                return -1
        j += 1
    return -1


def split_top(toks, sep=","):
    """split a token list at top-level separators (brackets and angles respected)"""
    parts, cur, i = [], [], 0
    while i < len(toks):
        t = toks[i]
        if t[0] == "p" and t[1] in OPEN:
            j = match_close(toks, i)
            cur.extend(toks[i:j + 1])
            i = j + 1
            continue
        if t[0] == "p" and t[1] == "<" and cur and (cur[-1][0] == "id"):
            j = match_angle(toks, i)
            if j > 0:
                cur.extend(toks[i:j + 1])
                i = j + 1
                continue
        if t[0] == "p" and t[1] == sep:
            parts.append(cur)
            cur = []
        else:
            cur.append(t)
        i += 1
    if cur or parts:
        parts.append(cur)
    return parts


# --------------------------------------------------------------------------------------------------
# declaration index

TYPE_KW = {"int", "unsigned", "signed", "long", "short", "char", "bool", "float", "double", "void", "auto", "size_t",
           "wchar_t", "char16_t", "char32_t"}
DECL_SPEC = {"static", "inline", "constexpr", "const", "volatile", "virtual", "explicit", "friend", "extern", "mutable",
             "typename", "register", "thread_local", "consteval", "constinit"}
FUNC_TRAIL = {"const", "volatile", "override", "final", "noexcept", "throw", "&", "&&", "mutable"}


class Func:
    def __init__(self):
        self.name = ""          # unqualified
        self.cls = None         # class name (unqualified) or None
        self.params = []        # [(type tokens, name|None)]
        self.ret = []           # return type tokens
        self.specs = set()      # static, inline, virtual, constexpr, const(trailing as 'const-fn'), anon-ns
        self.inits = []         # constructor initialisers [(name, arg tokens)]
        self.body = None        # token list (without the braces)
        self.file = ""
        self.template = False
        self.tparams = None     # names of the template parameters if all of them are plain type parameters, else None

    def __repr__(self):
        return "<Func %s%s in %s>" % ((self.cls + "::") if self.cls else "", self.name, self.file)


class Member:
    def __init__(self, cls, name, type_toks, init_toks, static, file):
        self.cls, self.name, self.type, self.init, self.static, self.file = cls, name, type_toks, init_toks, static, file


class Index:
    """everything declared in the files that were added"""

    def __init__(self):
        self.funcs = []
        self.classes = {}       # name -> {'members': [Member], 'bases': tokens, 'file': f}
        self.enums = {}         # name -> [(enumerator, value)]
        self.enum_base = {}     # name -> text of the explicit underlying type ('' if none)
        self.aliases = {}       # (cls|None, name) -> type tokens
        self.consts = {}        # (cls|None, name) -> (init tokens, file)
        self.arrays = {}        # (cls|None, name) -> (element type tokens, size tokens|None) for constant arrays in consts
        self.files = []

    # ---- building
    def add_file(self, rel, src):
        self.files.append(rel)
        toks = lex(src, rel)
        self._scope(toks, 0, len(toks), None, rel, False)

    def _strip_attrs(self, toks):
        out, i = [], 0
        while i < len(toks):
            if is_p(toks[i], "[") and i + 1 < len(toks) and is_p(toks[i + 1], "["):
                i = match_close(toks, i) + 1
                continue
            if is_id(toks[i]) and toks[i][1] in ("alignas", "__attribute__") and i + 1 < len(toks) and is_p(toks[i + 1], "("):
                i = match_close(toks, i + 1) + 1
                continue
            out.append(toks[i])
            i += 1
        return out

    def _scope(self, toks, i, end, cls, rel, anon):
        """scan declarations in toks[i:end] at namespace (cls None) or class scope"""
        while i < end:
            t = toks[i]
            if is_p(t, ";"):
                i += 1
                continue
            if cls is not None and is_id(t) and t[1] in ("public", "private", "protected") and is_p(toks[i + 1], ":"):
                i += 2
                continue
            # head: up to `;` or a `{` at bracket depth 0
            j = i
            brace = -1
            while j < end:
                u = toks[j]
                if u[0] == "p":
                    if u[1] in ("(", "["):
                        j = match_close(toks, j, rel)
                    elif u[1] == "{":
                        brace = j
                        break
                    elif u[1] == ";":
                        break
                j += 1
            head = self._strip_attrs(toks[i:j])
            if brace < 0:
                self._simple_decl(head, cls, rel)
                i = j + 1
                continue
            close = match_close(toks, brace, rel)
            # template prefix
            h = head
            template = False
            tparams = []
            while h and is_id(h[0], "template") and len(h) > 1 and is_p(h[1], "<"):
                k = match_angle(h, 1)
                if k < 0:
                    raise TranslateError("%s: template header not understood" % rel)
                if template:
                    tparams = None          # member of a class template: two headers, not followed
                if tparams is not None:
                    for part in split_top(h[2:k]):
                        if len(part) == 2 and is_id(part[0]) and part[0][1] in ("typename", "class") and is_id(part[1]):
                            tparams.append(part[1][1])
                        else:
                            tparams = None  # non-type / defaulted / variadic parameter
                            break
                h = h[k + 1:]
                template = True
            if h and is_id(h[0], "namespace"):
                self._scope(toks, brace + 1, close, cls, rel, anon or len(h) == 1)
                i = close + 1
                continue
            if h and is_id(h[0], "extern") and len(h) == 2 and h[1][0] == "str":
                self._scope(toks, brace + 1, close, cls, rel, anon)
                i = close + 1
                continue
            has_paren = any(is_p(x, "(") for x in h)
            kw = [x[1] for x in h if x[0] == "id"]
            if "enum" in kw and not has_paren:
                self._enum(h, toks[brace + 1:close], rel)
                i = self._after_semicolon(toks, close + 1, end)
                continue
            if not has_paren and any(k in kw for k in ("class", "struct", "union")):
                name = None
                for k, x in enumerate(h):
                    if is_id(x) and x[1] in ("class", "struct", "union"):
                        rest = [y for y in h[k + 1:]]
                        for y in rest:
                            if is_id(y) and y[1] not in ("final", "alignas"):
                                name = y[1]
                                break
                        break
                if name is None:
                    i = self._after_semicolon(toks, close + 1, end)
                    continue
                bases = []
                for k, x in enumerate(h):
                    if is_p(x, ":"):
                        bases = h[k + 1:]
                        break
                self.classes.setdefault(name, {"members": [], "bases": bases, "file": rel})
                self._scope(toks, brace + 1, close, name, rel, anon)
                i = self._after_semicolon(toks, close + 1, end)
                continue
            if has_paren:
                # function definition; constructor initialisers may contain braces: re-scan for the body
                f, body_open = self._func_head(toks, i, end, cls, rel, anon)
                if f is None:
                    # e.g. a variable with brace initialiser following a call-like head
                    i = self._after_semicolon(toks, close + 1, end)
                    continue
                body_close = match_close(toks, body_open, rel)
                f.body = toks[body_open + 1:body_close]
                f.template = template
                f.tparams = tparams if template else None
                self.funcs.append(f)
                i = body_close + 1
                continue
            # variable with brace initialiser: `T x{...};` / `T x = {...};`
            k = self._after_semicolon(toks, close + 1, end)
            self._simple_decl(self._strip_attrs(toks[i:k - 1]), cls, rel)
            i = k
        return

    def _after_semicolon(self, toks, i, end):
        while i < end and not is_p(toks[i], ";"):
            if is_p(toks[i], "{") or is_p(toks[i], "("):
                i = match_close(toks, i)
            i += 1
        return i + 1

    def _enum(self, head, body, rel):
        name = None
        for x in head:
            if is_id(x) and x[1] not in ("enum", "class", "struct"):
                name = x[1]
                break
            if is_p(x, ":"):
                break
        if name is None:
            return
        vals = []
        nxt = 0
        for part in split_top(body):
            if not part:
                continue
            if not is_id(part[0]):
                raise TranslateError("enum %s: enumerator `%s` not understood" % (name, text_of(part)))
            if len(part) == 1:
                v = nxt
            elif is_p(part[1], "=") and len(part) == 3 and part[2][0] == "num":
                v = parse_int(part[2][1])
            else:
                raise TranslateError("enum %s: explicit enumerator value `%s` not understood" % (name, text_of(part)))
            vals.append((part[0][1], v))
            nxt = v + 1
        if not vals:
            raise TranslateError("enum %s: empty" % name)
        self.enums[name] = vals
        base = []
        for k, x in enumerate(head):
            if is_p(x, ":"):
                base = head[k + 1:]
                break
        self.enum_base[name] = text_of(base)

    def _simple_decl(self, head, cls, rel):
        """declaration without body: alias, constant, data member, static member definition (function
        declarations are ignored)"""
        if not head:
            return
        while head and is_id(head[0], "template") and len(head) > 1 and is_p(head[1], "<"):
            k = match_angle(head, 1)
            if k < 0:
                return
            head = head[k + 1:]
        if not head:
            return
        if is_id(head[0], "using"):
            if len(head) > 3 and is_id(head[1]) and is_p(head[2], "="):
                self.aliases[(cls, head[1][1])] = head[3:]
            return
        if is_id(head[0], "typedef"):
            if len(head) > 2 and is_id(head[-1]):
                self.aliases[(cls, head[-1][1])] = head[1:-1]
            return
        if head[0][0] == "id" and head[0][1] in ("friend", "namespace", "static_assert", "class", "struct", "enum", "union", "extern"):
            return
        # initialiser
        init = None
        decl = head
        depth_scan = 0
        k = 0
        while k < len(head):
            x = head[k]
            if x[0] == "p" and x[1] in ("(", "["):
                k = match_close(head, k)
            elif x[0] == "p" and x[1] == "<" and k > 0 and head[k - 1][0] == "id":
                m = match_angle(head, k)
                if m > 0:
                    k = m
            elif is_p(x, "="):
                decl, init = head[:k], head[k + 1:]
                break
            elif is_p(x, "{"):
                decl, init = head[:k], head[k + 1:match_close(head, k)]
                break
            k += 1
        del depth_scan
        # `T name[ N] = { … }` / `T name[] = { … }`: a constant table
        array_size = None
        if decl and is_p(decl[-1], "]"):
            k = len(decl) - 1
            while k >= 0 and not is_p(decl[k], "["):
                k -= 1
            if k < 1 or match_close(decl, k) != len(decl) - 1 or is_p(decl[k - 1], "]"):
                return
            array_size = decl[k + 1:-1]
            decl = decl[:k]
        if not decl or not is_id(decl[-1]) or is_id(decl[-1], "operator"):
            return
        # a function declaration has a top-level `(` outside template brackets
        k = 0
        while k < len(decl):
            x = decl[k]
            if x[0] == "p" and x[1] == "<" and k > 0 and decl[k - 1][0] == "id":
                m = match_angle(decl, k)
                if m > 0:
                    k = m + 1
                    continue
            if is_p(x, "("):
                return
            k += 1
        name = decl[-1][1]
        tt = decl[:-1]
        owner = cls
        # `T Class::member;` static member definition
        if len(tt) >= 2 and is_p(tt[-1], "::") and is_id(tt[-2]):
            owner = tt[-2][1]
            tt = tt[:-2]
            if not tt:
                return
            # definition of a static member: keep the initialiser if the in-class declaration has none
            for m in self.classes.get(owner, {"members": []})["members"]:
                if m.name == name and m.init is None and init is not None:
                    m.init = init
            return
        if not tt:
            return
        specs = {x[1] for x in tt if x[0] == "id" and x[1] in DECL_SPEC}
        type_toks = [x for x in tt if not (x[0] == "id" and x[1] in ("static", "inline", "constexpr", "mutable", "extern", "thread_local"))]
        if not type_toks:
            return
        std_array = array_size is None and len(type_toks) > 3 and text_of([x for x in type_toks if not is_id(x, "const")][:4]) == "std :: array <"
        if array_size is not None or std_array:
            # object constness: constexpr, or `const` that is not the pointee's (`const char* const t[]`, `const int t[]`)
            stars = [k for k, x in enumerate(type_toks) if is_p(x, "*")]
            obj_const = "constexpr" in specs or any(is_id(x, "const") for x in (type_toks[stars[-1]:] if stars else type_toks))
            if init is None or not obj_const:
                return                  # a mutable or uninitialised array is not a constant; uses of it stay unknown names
            if std_array:
                tt2 = [x for x in type_toks if not is_id(x, "const")]
                close = match_angle(tt2, 3)
                parts = split_top(tt2[4:close]) if close == len(tt2) - 1 else []
                if len(parts) != 2:
                    return
                elem, array_size = parts[0], parts[1]
            else:
                elem = type_toks
            if is_p(init[0], "{") and match_close(init, 0) == len(init) - 1:
                init = init[1:-1]
            self.consts[(cls, name)] = (init, rel)
            self.arrays[(cls, name)] = (elem, array_size if array_size else None, std_array)
            return
        if init is not None and ("constexpr" in specs or ("const" in specs and not any(is_p(x, "*") for x in type_toks))):
            self.consts[(cls, name)] = (init, rel)
        if cls is not None:
            self.classes[cls]["members"].append(Member(cls, name, type_toks, init, "static" in specs, rel))

    def _func_head(self, toks, i, end, cls, rel, anon):
        """toks[i:] starts a declaration that has a `{`; returns (Func, index of the body's `{`) or (None, _)"""
        # skip template header
        j = i
        while is_id(toks[j], "template") and is_p(toks[j + 1], "<"):
            k = match_angle(toks, j + 1)
            j = k + 1
        # skip attributes
        start = j
        # find the parameter list: first `(` at depth 0 preceded by an identifier (or operator token)
        k = start
        par = -1
        while k < end:
            x = toks[k]
            if is_p(x, "[") and is_p(toks[k + 1], "["):
                k = match_close(toks, k) + 1
                continue
            if is_p(x, "<") and k > start and toks[k - 1][0] == "id":
                m = match_angle(toks, k)
                if m > 0:
                    k = m + 1
                    continue
            if is_p(x, "("):
                prev = toks[k - 1] if k > start else None
                if prev is not None and prev[0] == "id" and prev[1] in ("alignas", "__attribute__", "decltype", "noexcept"):
                    k = match_close(toks, k) + 1
                    continue
                par = k
                break
            if is_p(x, "{") or is_p(x, ";") or is_p(x, "="):
                return None, None
            k += 1
        if par < 0:
            return None, None
        # name
        n = par - 1
        f = Func()
        f.file = rel
        if n >= start and toks[n][0] == "id" and not is_id(toks[n], "operator"):
            f.name = toks[n][1]
            n -= 1
            if n >= start and is_p(toks[n], "~"):
                f.name = "~" + f.name
                n -= 1
        else:
            # operator: walk back to the `operator` keyword
            m = par - 1
            while m >= start and not is_id(toks[m], "operator"):
                m -= 1
            if m < start:
                return None, None
            f.name = "operator" + "".join(x[1] for x in toks[m + 1:par])
            n = m - 1
        f.cls = cls
        # qualifiers  A::B::name (template arguments in qualifiers are not supported)
        if n - 1 >= start and is_p(toks[n], "::") and toks[n - 1][0] == "id":
            f.cls = toks[n - 1][1]           # the innermost qualifier is the class (or a namespace: see Index.func)
            n -= 2
            while n - 1 >= start and is_p(toks[n], "::") and toks[n - 1][0] == "id":
                n -= 2
        rt = toks[start:n + 1]
        f.specs = {x[1] for x in rt if x[0] == "id" and x[1] in DECL_SPEC}
        f.ret = [x for x in self._strip_attrs(rt) if not (x[0] == "id" and x[1] in ("static", "inline", "virtual", "explicit", "constexpr", "friend", "extern"))]
        if anon:
            f.specs.add("anon-ns")
        pclose = match_close(toks, par, rel)
        for p in split_top(toks[par + 1:pclose]):
            p = self._strip_attrs(p)
            if not p or (len(p) == 1 and is_id(p[0], "void")):
                continue
            for q, x in enumerate(p):
                if is_p(x, "="):
                    p = p[:q]
                    break
            nm = None
            if len(p) >= 2 and p[-1][0] == "id" and p[-1][1] not in TYPE_KW and p[-1][1] not in ("const",) \
                    and not is_p(p[-2], "::"):
                nm = p[-1][1]
                p = p[:-1]
            f.params.append((p, nm))
        # trailing specifiers
        k = pclose + 1
        while k < end:
            x = toks[k]
            if (x[0] == "id" and x[1] in FUNC_TRAIL) or (x[0] == "p" and x[1] in ("&", "&&")):
                if is_id(x, "const"):
                    f.specs.add("const-fn")
                k += 1
                if k < end and is_p(toks[k], "(") and toks[k - 1][1] in ("noexcept", "throw"):
                    k = match_close(toks, k) + 1
                continue
            if is_p(x, "[") and is_p(toks[k + 1], "["):
                k = match_close(toks, k) + 1
                continue
            if is_p(x, "->"):
                k += 1
                while k < end and not is_p(toks[k], "{"):
                    f.ret.append(toks[k])
                    k += 1
                continue
            break
        if k < end and is_p(toks[k], ":"):
            k += 1
            while k < end:
                q = k
                while q < end and (toks[q][0] == "id" or is_p(toks[q], "::")):
                    q += 1
                if q < end and is_p(toks[q], "<"):
                    m = match_angle(toks, q)
                    if m < 0:
                        raise TranslateError("%s: constructor initialiser of %s not understood" % (rel, f.name))
                    q = m + 1
                if q == k or q >= end or not (is_p(toks[q], "(") or is_p(toks[q], "{")):
                    raise TranslateError("%s: constructor initialiser of %s not understood" % (rel, f.name))
                c = match_close(toks, q, rel)
                f.inits.append((toks[q - 1][1] if toks[q - 1][0] == "id" else text_of(toks[k:q]), toks[q + 1:c]))
                k = c + 1
                if k < end and is_p(toks[k], ","):
                    k += 1
                    continue
                break
        if k < end and is_id(toks[k], "try"):
            raise TranslateError("%s: function-try-block of %s not supported" % (rel, f.name))
        if k >= end or not is_p(toks[k], "{"):
            return None, None
        return f, k

    # ---- queries
    def find_funcs(self, cls, name):
        return [f for f in self.funcs if f.name == name and f.cls == cls]

    def func(self, cls, name, what=None, nparams=None, first_param=None):
        fs = self.find_funcs(cls, name)
        if nparams is not None:
            fs = [f for f in fs if len(f.params) == nparams]
        if first_param is not None:
            fs = [f for f in fs if f.params and first_param in text_of(f.params[0][0])]
        what = what or ((cls + "::" if cls else "") + name)
        if not fs:
            raise TranslateError("%s: definition not found" % what)
        if len(fs) > 1:
            raise TranslateError("%s: %d definitions found" % (what, len(fs)))
        return fs[0]

    def resolve_type(self, toks, cls=None, depth=0):
        """alias-resolved type tokens"""
        if depth > 8:
            raise TranslateError("type alias recursion")
        out = []
        changed = False
        for k, t in enumerate(toks):
            if t[0] == "id" and not (k > 0 and is_p(toks[k - 1], "::") and k > 1 and toks[k - 2][0] == "id" and toks[k - 2][1] == "std"):
                hit = None
                if (cls, t[1]) in self.aliases:
                    hit = self.aliases[(cls, t[1])]
                elif (None, t[1]) in self.aliases and not (k + 1 < len(toks) and is_p(toks[k + 1], "::")):
                    hit = self.aliases[(None, t[1])]
                else:
                    # alias of another class, written Class::Alias
                    if k >= 2 and is_p(toks[k - 1], "::") and toks[k - 2][0] == "id" and (toks[k - 2][1], t[1]) in self.aliases:
                        hit = self.aliases[(toks[k - 2][1], t[1])]
                        out = out[:-2]
                if hit is not None and [x[1] for x in hit] != [t[1]]:
                    out.extend(hit)
                    changed = True
                    continue
            out.append(t)
        return self.resolve_type(out, cls, depth + 1) if changed else out

    def members(self, cls):
        if cls not in self.classes:
            raise TranslateError("class %s: definition not found" % cls)
        return self.classes[cls]["members"]


def parse_int(text):
    t = text.replace("'", "").rstrip("uUlL")
    try:
        return int(t, 0) if not (len(t) > 1 and t[0] == "0" and t[1].isdigit()) else int(t, 8)
    except ValueError:
        raise TranslateError("number `%s` not understood" % text)


# --------------------------------------------------------------------------------------------------
# statement / expression parser

CASTS = ("static_cast", "dynamic_cast", "reinterpret_cast", "const_cast")
KEYWORDS = {"if", "else", "for", "while", "do", "switch", "case", "default", "return", "break", "continue", "throw", "new",
            "delete", "this", "true", "false", "nullptr", "try", "catch", "goto", "sizeof", "operator", "typeid"}
BIN_PREC = [("||",), ("&&",), ("|",), ("^",), ("&",), ("==", "!="), ("<", "<=", ">", ">="), ("<<", ">>"), ("+", "-"),
            ("*", "/", "%")]
ASSIGN_OPS = {"=", "+=", "-=", "*=", "/=", "%=", "<<=", ">>=", "&=", "|=", "^="}
# std:: names that are functions, not types (a call with one argument is not a functional cast)
STD_FUNCS = {"std::size", "std::ssize", "std::begin", "std::end", "std::cbegin", "std::cend", "std::data"}


class Parser:
    def __init__(self, toks, what, type_names=()):
        self.t = toks
        self.i = 0
        self.what = what
        self.type_names = set(type_names)    # identifiers known to name a type (for C casts / functional casts)

    def err(self, msg):
        ctx = text_of(self.t[max(0, self.i - 4):self.i + 8])
        raise TranslateError("%s: %s near `%s`" % (self.what, msg, ctx))

    def peek(self, k=0):
        return self.t[self.i + k] if self.i + k < len(self.t) else None

    def at_p(self, text, k=0):
        return is_p(self.peek(k), text)

    def at_id(self, text=None, k=0):
        return is_id(self.peek(k), text)

    def eat_p(self, text):
        if not self.at_p(text):
            self.err("expected `%s`" % text)
        self.i += 1

    def done(self):
        return self.i >= len(self.t)

    # ---- types
    def try_type(self):
        """parse a type at the current position; returns its text or None (position restored)"""
        save = self.i
        words = []
        seen_core = False
        self.last_specs = set()
        while True:
            t = self.peek()
            if t is None:
                break
            if t[0] == "id" and t[1] in ("const", "volatile", "constexpr", "static", "typename", "mutable"):
                if t[1] in ("const", "volatile"):
                    words.append(t[1])
                else:
                    self.last_specs.add(t[1])
                self.i += 1
                continue
            if t[0] == "id" and t[1] in ("struct", "class", "enum") and not seen_core:
                self.i += 1
                continue
            if t[0] == "id" and t[1] in TYPE_KW and t[1] != "size_t":
                words.append(t[1])
                seen_core = True
                self.i += 1
                continue
            if not seen_core and (t[0] == "id" and t[1] not in KEYWORDS or is_p(t, "::")):
                # qualified name with optional template arguments
                if is_p(t, "::"):
                    self.i += 1
                name = []
                while self.at_id() and self.peek()[1] not in KEYWORDS:
                    name.append(self.peek()[1])
                    self.i += 1
                    if self.at_p("<"):
                        j = match_angle(self.t, self.i)
                        if j < 0:
                            break
                        name[-1] += "<" + text_of(self.t[self.i + 1:j]) + ">"
                        self.i = j + 1
                    if self.at_p("::") and self.at_id(None, 1):
                        self.i += 1
                        continue
                    break
                if not name:
                    self.i = save
                    return None
                words.append("::".join(name))
                seen_core = True
                continue
            break
        if not seen_core:
            self.i = save
            return None
        while True:
            t = self.peek()
            if t is not None and t[0] == "p" and t[1] in ("*", "&", "&&"):
                words.append(t[1])
                self.i += 1
            elif is_id(t, "const") or is_id(t, "volatile"):
                words.append(t[1])
                self.i += 1
            else:
                break
        return " ".join(words)

    # ---- statements
    def parse_all(self):
        out = []
        while not self.done():
            out.append(self.stmt())
        return out

    def block_or_stmt(self):
        return self.stmt()

    def stmt(self):
        t = self.peek()
        if t is None:
            self.err("unexpected end")
        if is_p(t, "{"):
            j = match_close(self.t, self.i, self.what)
            sub = Parser(self.t[self.i + 1:j], self.what, self.type_names)
            self.i = j + 1
            return ("block", sub.parse_all())
        if is_p(t, ";"):
            self.i += 1
            return ("empty",)
        if t[0] == "id":
            k = t[1]
            if k == "if":
                self.i += 1
                if self.at_id("constexpr"):
                    self.i += 1
                c = self.paren_cond()
                a = self.stmt()
                b = None
                if self.at_id("else"):
                    self.i += 1
                    b = self.stmt()
                return ("if", c, a, b)
            if k == "while":
                self.i += 1
                c = self.paren_cond()
                return ("while", c, self.stmt())
            if k == "do":
                self.i += 1
                body = self.stmt()
                if not self.at_id("while"):
                    self.err("expected `while` after do body")
                self.i += 1
                c = self.paren_cond()
                self.eat_p(";")
                return ("dowhile", body, c)
            if k == "for":
                return self.for_stmt()
            if k == "switch":
                return self.switch_stmt()
            if k == "return":
                self.i += 1
                if self.at_p(";"):
                    self.i += 1
                    return ("return", None)
                e = self.expr()
                self.eat_p(";")
                return ("return", e)
            if k == "break":
                self.i += 1
                self.eat_p(";")
                return ("break",)
            if k == "continue":
                self.i += 1
                self.eat_p(";")
                return ("continue",)
            if k in ("try", "goto", "catch", "asm"):
                self.err("`%s` is not supported" % k)
            if k == "static_assert" and self.at_p("(", 1):
                # no run-time meaning; the condition is kept (if it is in the expression subset) so that the
                # normaliser can evaluate it: a false one means that the code does not compile
                j = match_close(self.t, self.i + 1, self.what)
                parts = split_top(self.t[self.i + 2:j])
                self.i = j + 1
                self.eat_p(";")
                try:
                    return ("sassert", Parser(parts[0], self.what, self.type_names).full_expr())
                except (TranslateError, IndexError):
                    return ("empty",)
            if k in ("using", "typedef", "static_assert"):
                while not self.at_p(";"):
                    self.i += 1
                self.i += 1
                return ("empty",)
        d = self.try_decl()
        if d is not None:
            return d
        e = self.expr()
        self.eat_p(";")
        return ("expr", e)

    def paren_cond(self):
        self.eat_p("(")
        j = match_close(self.t, self.i - 1, self.what)
        sub = Parser(self.t[self.i:j], self.what, self.type_names)
        d = sub.try_decl(in_cond=True)
        if d is not None:
            self.err("declaration in a condition is not supported")
        e = sub.expr()
        if not sub.done():
            if sub.at_p(";"):
                self.err("if/switch with initialiser is not supported")
            sub.err("trailing tokens in condition")
        self.i = j + 1
        return e

    def try_decl(self, in_cond=False):
        """`T name [= e | ( args) | { args}] ;` — several declarators are not supported"""
        save = self.i
        ty = self.try_type()
        if ty is None:
            return None
        t = self.peek()
        if not (t is not None and t[0] == "id" and t[1] not in KEYWORDS):
            self.i = save
            return None
        nxt = self.peek(1)
        if not (nxt is not None and nxt[0] == "p" and nxt[1] in ("=", "(", "{", ";", ":", "[")):
            self.i = save
            return None
        if in_cond:
            self.i = save
            return ("decl",)
        specs = set(self.last_specs)
        if is_p(nxt, "["):
            return self.array_decl(ty, t[1], specs)
        name = t[1]
        self.i += 1
        if ty.replace("const ", "").startswith("std::array<") and (self.at_p("=") or self.at_p("{")):
            return self.std_array_decl(ty, name, specs)
        if self.at_p(":"):
            self.i = save
            return None            # range-for header, handled by for_stmt
        init = None
        if self.at_p("="):
            self.i += 1
            init = self.assign_expr()
        elif self.at_p("(") or self.at_p("{"):
            j = match_close(self.t, self.i, self.what)
            args = [Parser(p, self.what, self.type_names).full_expr() for p in split_top(self.t[self.i + 1:j]) if p]
            self.i = j + 1
            scalar = set(ty.replace("*", " ").replace("&", " ").split()) <= TYPE_KW | {"const", "volatile", "id_t", "std::size_t"}
            if len(args) == 1 and (scalar or ty.split()[-1] == "*"):
                init = args[0]
            else:
                init = ("construct", ty, args)
        if self.at_p(","):
            self.err("several declarators in one declaration are not supported")
        self.eat_p(";")
        return ("decl", ty, name, init)

    def array_decl(self, ty, name, specs):
        """`T name[ N] = { … };` / `T name[] = { … };` / `T name[ N]{ … };`  ->
        ('arraydecl', element type, name, size expression|None, [items], is-constant, False)"""
        self.i += 1
        j = match_close(self.t, self.i, self.what)
        size = Parser(self.t[self.i + 1:j], self.what, self.type_names).full_expr() if j > self.i + 1 else None
        self.i = j + 1
        if self.at_p("["):
            self.err("array with more than one dimension is not supported")
        if self.at_p("="):
            self.i += 1
        if not self.at_p("{"):
            self.err("array without a brace initialiser is not supported")
        init = self.primary()
        self.eat_p(";")
        words = ty.split()
        stars = [k for k, w in enumerate(words) if w == "*"]
        obj_const = "constexpr" in specs or "const" in (words[stars[-1]:] if stars else words)
        return ("arraydecl", ty, name, size, init[1], obj_const, False)

    def std_array_decl(self, ty, name, specs):
        """`std::array< T, N> name = { … };` (also `{{ … }}` and without `=`)"""
        core = ty.replace("const ", "")
        inner = lex(core[len("std::array<"):core.rindex(">")], self.what)
        parts = split_top(inner)
        if len(parts) != 2 or not core.endswith(">"):
            self.err("std::array type not understood")
        size = Parser(parts[1], self.what, self.type_names).full_expr()
        if self.at_p("="):
            self.i += 1
        if not self.at_p("{"):
            self.err("std::array without a brace initialiser is not supported")
        init = self.primary()
        self.eat_p(";")
        obj_const = "constexpr" in specs or ty.split()[0] == "const" or ty.split()[-1] == "const"
        return ("arraydecl", text_of(parts[0]), name, size, init[1], obj_const, True)

    def for_stmt(self):
        self.i += 1
        self.eat_p("(")
        j = match_close(self.t, self.i - 1, self.what)
        inner = self.t[self.i:j]
        self.i = j + 1
        parts = split_top(inner, ";")
        if len(parts) == 1:
            # range-for:  T name : container
            sub = Parser(inner, self.what, self.type_names)
            ty = sub.try_type()
            if ty is None or not sub.at_id() or not sub.at_p(":", 1):
                sub.err("range-for header not understood")
            name = sub.peek()[1]
            sub.i += 2
            cont = sub.full_expr()
            return ("rangefor", name, cont, self.stmt())
        if len(parts) != 3:
            self.err("for header not understood")
        init = None
        if parts[0]:
            sub = Parser(parts[0] + [Tok(("p", ";"))], self.what, self.type_names)
            init = sub.stmt()
            if not sub.done():
                sub.err("for initialiser not understood")
        cond = Parser(parts[1], self.what, self.type_names).full_expr() if parts[1] else None
        step = Parser(parts[2], self.what, self.type_names).full_expr() if parts[2] else None
        return ("for", init, cond, step, self.stmt())

    def switch_stmt(self):
        self.i += 1
        e = self.paren_cond()
        if not self.at_p("{"):
            self.err("switch without a block")
        j = match_close(self.t, self.i, self.what)
        sub = Parser(self.t[self.i + 1:j], self.what, self.type_names)
        self.i = j + 1
        groups = []
        while not sub.done():
            labels = []
            while sub.at_id("case") or sub.at_id("default"):
                if sub.at_id("default"):
                    sub.i += 1
                    labels.append("default")
                else:
                    sub.i += 1
                    labels.append(sub.cond_expr())
                sub.eat_p(":")
            if not labels:
                sub.err("statement before the first case label")
            body = []
            while not sub.done() and not (sub.at_id("case") or (sub.at_id("default") and sub.at_p(":", 1))):
                body.append(sub.stmt())
            groups.append((labels, body))
        return ("switch", e, groups)

    # ---- expressions
    def full_expr(self):
        e = self.expr()
        if not self.done():
            self.err("trailing tokens in expression")
        return e

    def expr(self):
        e = self.assign_expr()
        while self.at_p(","):
            self.i += 1
            e = ("comma", e, self.assign_expr())
        return e

    def assign_expr(self):
        if self.at_id("throw"):
            self.i += 1
            if self.at_p(";") or self.at_p(")") or self.done():
                return ("throw", None)
            return ("throw", self.assign_expr())
        c = self.cond_expr()
        t = self.peek()
        if t is not None and t[0] == "p" and t[1] in ASSIGN_OPS:
            self.i += 1
            return ("assign", t[1], c, self.assign_expr())
        return c

    def cond_expr(self):
        c = self.binary(0)
        if self.at_p("?"):
            self.i += 1
            a = self.assign_expr()
            self.eat_p(":")
            b = self.assign_expr()
            return ("cond", c, a, b)
        return c

    def binary(self, level):
        if level >= len(BIN_PREC):
            return self.unary()
        a = self.binary(level + 1)
        while True:
            t = self.peek()
            if t is not None and t[0] == "p" and t[1] in BIN_PREC[level]:
                self.i += 1
                b = self.binary(level + 1)
                a = ("bin", t[1], a, b)
            else:
                return a

    def unary(self):
        t = self.peek()
        if t is None:
            self.err("unexpected end of expression")
        if t[0] == "p" and t[1] in ("!", "-", "+", "~", "*", "&"):
            self.i += 1
            return ("un", t[1], self.unary())
        if t[0] == "p" and t[1] in ("++", "--"):
            self.i += 1
            return ("incdec", t[1], self.unary())
        if is_id(t, "sizeof"):
            self.i += 1
            if self.at_p("..."):
                self.err("sizeof... is not supported")
            if self.at_p("("):
                j = match_close(self.t, self.i, self.what)
                sub = Parser(self.t[self.i + 1:j], self.what, self.type_names)
                ty = sub.try_type()
                if ty is not None and sub.done() and self._is_type_name(ty):
                    self.i = j + 1
                    return ("sizeof_t", ty)
            return ("sizeof_e", self.unary())
        if is_id(t, "new"):
            self.i += 1
            if self.at_p("("):
                self.err("placement new is not supported")
            ty = self.try_type()
            if ty is None:
                self.err("type after new not understood")
            args = []
            if self.at_p("(") or self.at_p("{"):
                j = match_close(self.t, self.i, self.what)
                args = [Parser(p, self.what, self.type_names).full_expr() for p in split_top(self.t[self.i + 1:j]) if p]
                self.i = j + 1
            return ("new", ty, args)
        if is_id(t, "delete"):
            self.i += 1
            if self.at_p("["):
                self.err("delete[] is not supported")
            return ("delete", self.unary())
        if is_p(t, "("):
            # C cast?  ( type ) unary
            j = match_close(self.t, self.i, self.what)
            sub = Parser(self.t[self.i + 1:j], self.what, self.type_names)
            ty = sub.try_type()
            if ty is not None and sub.done() and self._is_type_name(ty):
                nxt = self.t[j + 1] if j + 1 < len(self.t) else None
                if nxt is not None and (nxt[0] in ("id", "num", "str", "chr") or is_p(nxt, "(") or is_p(nxt, "!") or is_p(nxt, "~")):
                    self.i = j + 1
                    return ("cast", ty, self.unary())
        return self.postfix()

    def _is_type_name(self, ty):
        core = [w for w in ty.split() if w not in ("const", "volatile", "*", "&", "&&")]
        return bool(core) and all(w in TYPE_KW or w in self.type_names or w.split("::")[-1] in self.type_names
                                  or w.startswith("std::") for w in core)

    def call_args(self):
        j = match_close(self.t, self.i, self.what)
        args = [Parser(p, self.what, self.type_names).full_expr() for p in split_top(self.t[self.i + 1:j]) if p]
        self.i = j + 1
        return args

    def postfix(self):
        e = self.primary()
        while True:
            t = self.peek()
            if t is None or t[0] != "p":
                return e
            if t[1] == "(":
                args = self.call_args()
                if e[0] == "id" and self._is_type_name(e[1]) and len(args) == 1 and e[1] not in STD_FUNCS:
                    e = ("cast", e[1], args[0])          # functional cast
                else:
                    e = ("call", e, args)
            elif t[1] == "[":
                j = match_close(self.t, self.i, self.what)
                idx = Parser(self.t[self.i + 1:j], self.what, self.type_names).full_expr()
                self.i = j + 1
                e = ("index", e, idx)
            elif t[1] in (".", "->"):
                self.i += 1
                if self.at_id("template"):
                    self.i += 1
                if not self.at_id():
                    self.err("member name expected")
                name = self.peek()[1]
                self.i += 1
                obj = e if t[1] == "." else ("un", "*", e)
                e = ("member", obj, name)
            elif t[1] in ("++", "--"):
                self.i += 1
                e = ("incdec", t[1], e)
            else:
                return e

    def primary(self):
        t = self.peek()
        if t is None:
            self.err("unexpected end of expression")
        if t[0] == "num":
            self.i += 1
            if re.search(r"[.eE]", t[1]) and not t[1].lower().startswith("0x"):
                self.err("floating point literal is not supported")
            return ("num", parse_int(t[1]))
        if t[0] == "str":
            self.i += 1
            s = t[1][t[1].index('"') + 1:-1]
            while self.peek() is not None and self.peek()[0] == "str":
                u = self.peek()[1]
                s += u[u.index('"') + 1:-1]
                self.i += 1
            return ("str", s)
        if t[0] == "chr":
            self.i += 1
            return ("chr", t[1][t[1].index("'") + 1:-1])
        if is_p(t, "("):
            j = match_close(self.t, self.i, self.what)
            e = Parser(self.t[self.i + 1:j], self.what, self.type_names).full_expr()
            self.i = j + 1
            return e
        if is_p(t, "["):
            return self.lambda_expr()
        if is_p(t, "{"):
            j = match_close(self.t, self.i, self.what)
            items = [Parser(p, self.what, self.type_names).full_expr() for p in split_top(self.t[self.i + 1:j]) if p]
            self.i = j + 1
            return ("initlist", items)
        if t[0] == "id":
            k = t[1]
            if k in ("true", "false"):
                self.i += 1
                return ("bool", k == "true")
            if k in ("nullptr", "NULL"):
                self.i += 1
                return ("null",)
            if k == "this":
                self.i += 1
                return ("this",)
            if k in CASTS:
                self.i += 1
                if not self.at_p("<"):
                    self.err("cast without type")
                j = match_angle(self.t, self.i)
                if j < 0:
                    self.err("cast type not understood")
                sub = Parser(self.t[self.i + 1:j], self.what, self.type_names)
                ty = sub.try_type()
                if ty is None or not sub.done():
                    self.err("cast type not understood")
                self.i = j + 1
                if not self.at_p("("):
                    self.err("cast without operand")
                args = self.call_args()
                if len(args) != 1:
                    self.err("cast with %d operands" % len(args))
                return ("cast", ty, args[0])
            if k in KEYWORDS:
                self.err("`%s` is not supported here" % k)
            return self.qualified_id()
        if is_p(t, "::"):
            return self.qualified_id()
        self.err("expression not understood")

    def qualified_id(self):
        if self.at_p("::"):
            self.i += 1
        parts = []
        targs = None
        while True:
            if not self.at_id() or self.peek()[1] in KEYWORDS:
                self.err("identifier expected")
            parts.append(self.peek()[1])
            self.i += 1
            if self.at_p("<"):
                j = match_angle(self.t, self.i)
                if j > 0:
                    inner = self.t[self.i + 1:j]
                    nxt = self.t[j + 1] if j + 1 < len(self.t) else None
                    typeish = all(x[0] in ("id", "num") or (x[0] == "p" and x[1] in ("::", ",", "*", "&", "<", ">", "(", ")"))
                                  for x in inner)
                    if typeish and nxt is not None and nxt[0] == "p" and nxt[1] in ("(", "::", "{"):
                        if is_p(nxt, "::"):
                            parts[-1] += "<" + text_of(inner) + ">"
                        else:
                            targs = text_of(inner)
                        self.i = j + 1
            if self.at_p("::") and self.at_id(None, 1) and targs is None:
                self.i += 1
                continue
            break
        name = "::".join(parts)
        if targs is not None:
            return ("tid", name, targs)
        return ("id", name)

    def lambda_expr(self):
        j = match_close(self.t, self.i, self.what)
        self.i = j + 1
        params = []
        if self.at_p("("):
            k = match_close(self.t, self.i, self.what)
            for p in split_top(self.t[self.i + 1:k]):
                if not p:
                    continue
                if not (len(p) >= 2 and p[-1][0] == "id"):
                    self.err("lambda parameter without a name")
                params.append(p[-1][1])
            self.i = k + 1
        while self.at_id() and self.peek()[1] in ("mutable", "noexcept", "constexpr"):
            self.i += 1
        if self.at_p("->"):
            self.i += 1
            if self.try_type() is None:
                self.err("lambda return type not understood")
        if not self.at_p("{"):
            self.err("lambda body expected")
        k = match_close(self.t, self.i, self.what)
        body = Parser(self.t[self.i + 1:k], self.what, self.type_names).parse_all()
        self.i = k + 1
        return ("lambda", params, ("block", body))
