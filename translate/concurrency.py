#!/usr/bin/env python3
"""translate/concurrency.py -- reads src/celma/common/singleton.hpp and managed_thread.hpp of the
given tree and writes lean/CelmaVerif/Generated/SharedState.lean: how the cell tested by the unlocked
first check of Singleton<T>::instance() is declared and synchronised, and whether the activity flag
of ManagedThread is constructed before the std::thread is started.  The interleaving model
(Model/Concurrency.lean) takes these facts as its configuration `Cfg.current`, so the C20 theorems
are re-checked against what the source says now.

How the source is read (by structure and role, not by spelling):

 1. comments, preprocessor lines and the CELMA_VERIF_SYNC hooks are removed, the rest is tokenised;
 2. a declaration scanner collects classes (bases in order, data members with type and initialiser,
    `using` aliases, member functions) and namespace-scope constants / functions;
 3. the bodies of the anchored functions are parsed by a small recursive-descent parser (blocks,
    if/else and switch/case/break, both also with an init-statement `if (init; cond)` or a condition
    declaration `if (T x = e)`, return, declarations, expression statements; full expression grammar incl.
    lambdas, casts, `new`, ternaries, comma) -- any other statement raises;
 4. a symbolic executor runs them path by path: locals hold symbolic values (result of the k-th shared
    read, null, the fresh object, `this`, ...), a branch on a value whose nullness is already known on the
    path follows one side only, calls of functions defined in the same file are inlined (free functions,
    static and non-static members of the class or of a direct base, also through `this->` / a local or
    init-capture that holds `this`; arguments are substituted, so a helper `set( bool)` called with a
    literal stores that literal; names inside a base's member function are looked up in the base), lock
    guards release at the end of their scope, named constants and aliases are resolved.  Operands whose
    order of evaluation the language leaves open may not both touch shared state, nor one assign a local
    the other uses.  Shared objects are recognised by their declared type (std::mutex, std::atomic<..>,
    std::unique_ptr<..>, raw pointer);
 5. the resulting set of paths (sequence of shared accesses + decisions + what is returned) is compared
    with the path sets of the two shapes the Lean model covers.  Everything else raises
    ValueError -- a broken tie, never a default.
"""
import copy
import os
import re
import sys

ACQ = ("acquire", "acq_rel", "seq_cst")      # consume is not accepted
REL = ("release", "acq_rel", "seq_cst")


class TranslateError(ValueError):
    pass


def fail(msg):
    raise TranslateError(msg)


# ============================================================================ text -> tokens

def strip_comments(src):
    def repl(m):
        s = m.group(0)
        return " " if s.startswith("/") else s
    return re.sub(r'//[^\n]*|/\*.*?\*/|"(?:\\.|[^"\\\n])*"|\'(?:\\.|[^\'\\\n])*\'', repl, src, flags=re.S)


def strip_hooks(src):
    src = re.sub(r'CELMA_VERIF_SYNC\s*\(\s*"[^"]*"\s*\)\s*;', " ", src)
    src = re.sub(r'CELMA_VERIF_SYNC_INIT\s*\(\s*"[^"]*"\s*,\s*([^()]*?)\)', r"\1", src)
    return src


def strip_preprocessor(src):
    """directive lines are blanked; conditional compilation other than the include guard raises
    (both branches would be read as code)"""
    out, conds = [], 0
    lines = src.split("\n")
    i = 0
    while i < len(lines):
        l = lines[i]
        m = re.match(r"\s*#\s*(\w+)", l)
        if m:
            d = m.group(1)
            if d in ("if", "ifdef", "ifndef"):
                conds += 1
                if conds > 1 or d != "ifndef":
                    fail("conditional compilation (#%s) in an anchored file" % d)
            elif d in ("else", "elif"):
                fail("conditional compilation (#%s) in an anchored file" % d)
            while l.rstrip().endswith("\\") and i + 1 < len(lines):
                out.append("")
                i += 1
                l = lines[i]
            out.append("")
        else:
            out.append(l)
        i += 1
    return "\n".join(out)


TOKEN_RE = re.compile(r"""
    (?P<ws>\s+)
  | (?P<id>[A-Za-z_]\w*)
  | (?P<num>\d[\w.']*)
  | (?P<str>"(?:\\.|[^"\\\n])*")
  | (?P<chr>'(?:\\.|[^'\\\n])*')
  | (?P<op>\.\.\.|->\*|::|->|\+\+|--|==|!=|<=|>=|&&|\|\||\+=|-=|\*=|/=|%=|&=|\|=|\^=|[-+*/%&|^~!=<>?:;,.(){}\[\]])
""", re.X)


class Tok(str):
    """a token: its text, kind (id/num/str/chr/op) and source span"""
    __slots__ = ("k", "a", "b")

    def __new__(cls, s, k, a, b):
        o = str.__new__(cls, s)
        o.k, o.a, o.b = k, a, b
        return o


class Source:
    def __init__(self, path):
        raw = open(path, encoding="utf-8", errors="replace").read()
        self.path = path
        self.text = strip_preprocessor(strip_hooks(strip_comments(raw)))
        self.toks = []
        pos = 0
        while pos < len(self.text):
            m = TOKEN_RE.match(self.text, pos)
            if not m:
                fail("%s: cannot tokenise at %r" % (os.path.basename(path), self.text[pos:pos + 30]))
            if m.lastgroup != "ws":
                self.toks.append(Tok(m.group(0), m.lastgroup, m.start(), m.end()))
            pos = m.end()

    def span_text(self, toks):
        """source text of a run of tokens, blanks squeezed to one"""
        if not toks:
            return ""
        return re.sub(r"\s+", " ", self.text[toks[0].a:toks[-1].b]).strip()


OPEN = {"(": ")", "[": "]", "{": "}"}


def match_close(toks, i):
    """index of the bracket closing toks[i] (one of ( [ {)"""
    depth = 0
    j = i
    while j < len(toks):
        t = toks[j]
        if t.k == "op":
            if t in OPEN:
                depth += 1
            elif t in (")", "]", "}"):
                depth -= 1
                if depth == 0:
                    if t != OPEN[toks[i]]:
                        fail("mismatched brackets near %s" % " ".join(toks[i:i + 8]))
                    return j
        j += 1
    fail("unbalanced brackets near %s" % " ".join(toks[i:i + 8]))


def match_angle(toks, i):
    """index of the `>` closing the `<` at toks[i]; parens nest, `;{}` abort (-1)"""
    depth = 0
    j = i
    while j < len(toks):
        t = toks[j]
        if t.k == "op":
            if t == "<":
                depth += 1
            elif t == ">":
                depth -= 1
                if depth == 0:
                    return j
            elif t in ("(", "["):
                j = match_close(toks, j)
            elif t in (";", "{", "}", ")", "]", "&&", "||", "==", "!=", "=", "?"):
                return -1
        j += 1
    return -1


def split_commas(toks):
    """split a token list at top-level commas (brackets and template angles nest)"""
    parts, cur = [], []
    j = 0
    while j < len(toks):
        t = toks[j]
        if t.k == "op" and t in OPEN:
            e = match_close(toks, j)
            cur += toks[j:e + 1]
            j = e + 1
            continue
        if t.k == "op" and t == "<" and j > 0 and (toks[j - 1].k == "id"):
            e = match_angle(toks, j)
            if e > 0:
                cur += toks[j:e + 1]
                j = e + 1
                continue
        if t.k == "op" and t == ",":
            parts.append(cur)
            cur = []
        else:
            cur.append(t)
        j += 1
    if cur or parts:
        parts.append(cur)
    return parts


# ============================================================================ declarations

class Var:
    def __init__(self, name, type_toks, init, init_kind, static, const, access, cls):
        self.name, self.type_toks, self.init, self.init_kind = name, type_toks, init, init_kind
        self.static, self.const, self.access, self.cls = static, const, access, cls


class Func:
    def __init__(self, name, cls, params, body, inits, static, access, ret_toks, virtual=False):
        self.name, self.cls, self.params, self.body, self.inits = name, cls, params, body, inits
        self.static, self.access, self.ret_toks = static, access, ret_toks
        self.virtual = virtual          # declared virtual / override / final / pure: which body runs is not known statically


class Cls:
    def __init__(self, name, bases, key):
        self.name, self.bases, self.key = name, bases, key     # bases: [(access, [tokens])]
        self.vars, self.funcs, self.aliases = {}, {}, {}
        self.var_order = []


SPECIFIERS = ("static", "inline", "constexpr", "virtual", "explicit", "friend", "extern", "mutable", "thread_local",
              "typename", "const", "volatile")


class Unit:
    """what the declaration scanner found in one file"""

    def __init__(self, source):
        self.src = source
        self.classes, self.vars, self.funcs, self.aliases = {}, {}, {}, {}
        self.scan(source.toks, 0, len(source.toks), None, None)

    # -- helpers
    def skip_to_semicolon(self, toks, i, end):
        while i < end:
            t = toks[i]
            if t.k == "op" and t in OPEN:
                i = match_close(toks, i) + 1
                continue
            if t == ";" and t.k == "op":
                return i + 1
            i += 1
        return end

    def scan(self, toks, i, end, cls, access):
        while i < end:
            t = toks[i]
            if t.k == "op" and t == ";":
                i += 1
            elif t == "namespace" and t.k == "id":
                j = i + 1
                while j < end and not (toks[j].k == "op" and toks[j] in ("{", ";", "=")):
                    j += 1
                if j < end and toks[j] == "{":
                    e = match_close(toks, j)
                    self.scan(toks, j + 1, e, None, None)
                    i = e + 1
                else:
                    i = self.skip_to_semicolon(toks, i, end)
            elif t == "template" and t.k == "id" and i + 1 < end and toks[i + 1] == "<":
                e = match_angle(toks, i + 1)
                if e < 0:
                    fail("unbalanced template parameter list")
                i = e + 1
            elif t.k == "id" and t in ("public", "private", "protected") and i + 1 < end and toks[i + 1] == ":":
                access = str(t)
                i += 2
            elif t == "using" and t.k == "id":
                e = self.skip_to_semicolon(toks, i, end)
                if i + 2 < end and toks[i + 1].k == "id" and toks[i + 2] == "=":
                    (cls.aliases if cls else self.aliases)[str(toks[i + 1])] = [x for x in toks[i + 3:e - 1] if x != "typename"]
                i = e
            elif t == "typedef" and t.k == "id":
                e = self.skip_to_semicolon(toks, i, end)
                body = toks[i + 1:e - 1]
                if len(body) >= 2 and body[-1].k == "id":
                    (cls.aliases if cls else self.aliases)[str(body[-1])] = [x for x in body[:-1] if x != "typename"]
                i = e
            elif t.k == "id" and t in ("friend", "static_assert", "enum"):
                i = self.skip_to_semicolon(toks, i, end)
            elif t.k == "id" and t in ("class", "struct") and i + 1 < end and toks[i + 1].k == "id" and self.is_class_def(toks, i, end):
                i = self.scan_class(toks, i, end)
            else:
                i = self.scan_declaration(toks, i, end, cls, access)

    def is_class_def(self, toks, i, end):
        j = i + 2
        if j < end and toks[j] == "final":
            j += 1
        return j < end and toks[j].k == "op" and toks[j] in (":", "{")

    def scan_class(self, toks, i, end):
        key, name = str(toks[i]), str(toks[i + 1])
        j = i + 2
        if toks[j] == "final":
            j += 1
        bases = []
        if toks[j] == ":":
            k = j + 1
            while k < end and toks[k] != "{":
                k += 1
            for part in split_commas(toks[j + 1:k]):
                acc = "private" if key == "class" else "public"
                rest = []
                for x in part:
                    if x.k == "id" and x in ("public", "private", "protected"):
                        acc = str(x)
                    elif x.k == "id" and x == "virtual":
                        pass
                    else:
                        rest.append(x)
                bases.append((acc, rest))
            j = k
        e = match_close(toks, j)
        c = Cls(name, bases, key)
        if name in self.classes:
            fail("class %s is defined twice" % name)
        self.classes[name] = c
        self.scan(toks, j + 1, e, c, "private" if key == "class" else "public")
        if e + 1 >= end or toks[e + 1] != ";":
            fail("declarators after the body of class %s are not supported" % name)
        return e + 2

    def scan_declaration(self, toks, i, end, cls, access):
        # attributes in front
        while i + 1 < end and toks[i] == "[" and toks[i + 1] == "[":
            i = match_close(toks, i) + 1
        head = []
        j = i
        while j < end:
            t = toks[j]
            if t.k == "op":
                if t == "<":
                    e = match_angle(toks, j)
                    if e < 0:
                        fail("cannot read the declaration starting with: %s" % " ".join(toks[i:i + 12]))
                    head += toks[j:e + 1]
                    j = e + 1
                    continue
                if t == "[":
                    e = match_close(toks, j)
                    if j + 1 < end and toks[j + 1] == "[":     # attribute
                        j = e + 1
                        continue
                    head += toks[j:e + 1]
                    j = e + 1
                    continue
                if t in ("(", "=", "{", ";"):
                    break
                if t == "}":
                    fail("stray } in declarations")
            elif t == "operator":
                head.append(t)
                j += 1
                if j + 1 < end and toks[j] == "(" and toks[j + 1] == ")":
                    head += toks[j:j + 2]
                    j += 2
                while j < end and toks[j] != "(":
                    head.append(toks[j])
                    j += 1
                break
            elif t in ("decltype", "alignas") and j + 1 < end and toks[j + 1] == "(":
                e = match_close(toks, j + 1)
                head += toks[j:e + 1]
                j = e + 1
                continue
            head.append(t)
            j += 1
        if j >= end:
            if head:
                fail("unterminated declaration: %s" % " ".join(head[:12]))
            return end
        stop = toks[j]
        if stop == "(":
            return self.scan_function(toks, i, j, end, head, cls, access)
        # variable (or a forward declaration)
        init, kind = None, None
        if stop == ";":
            nxt = j + 1
        elif stop == "=":
            nxt = self.skip_to_semicolon(toks, j, end)
            init, kind = toks[j + 1:nxt - 1], "="
        else:
            e = match_close(toks, j)
            init, kind = toks[j + 1:e], "{"
            if e + 1 >= end or toks[e + 1] != ";":
                fail("cannot read the declaration: %s" % " ".join(head[:12]))
            nxt = e + 2
        self.add_var(head, init, kind, cls, access)
        return nxt

    def split_name(self, head):
        """head tokens -> (specifier/type tokens, owner class or None, name)"""
        if not head:
            return None
        k = len(head) - 1
        if "operator" in head:
            k = head.index("operator")
            name = "".join(head[k:])
        else:
            if head[k].k != "id":
                return None
            name = str(head[k])
            if k > 0 and head[k - 1] == "~":
                k -= 1
                name = "~" + name
        owner = None
        if k >= 2 and head[k - 1] == "::":
            q = k - 2
            if head[q] == ">":           # Class< T>::name
                depth = 0
                while q >= 0:
                    if head[q] == ">":
                        depth += 1
                    elif head[q] == "<":
                        depth -= 1
                        if depth == 0:
                            break
                    q -= 1
                q -= 1
            if q < 0 or head[q].k != "id":
                return None
            owner = str(head[q])
            k = q
            while k >= 2 and head[k - 1] == "::" and head[k - 2].k == "id":    # ns::Class::name
                k -= 2
        return head[:k], owner, name

    def add_var(self, head, init, kind, cls, access):
        sn = self.split_name(head)
        if sn is None:
            return
        pre, owner, name = sn
        ty = [x for x in pre if not (x.k == "id" and x in ("static", "inline", "constexpr", "extern", "mutable", "thread_local"))]
        if not ty or (len(ty) == 1 and ty[0] in ("class", "struct", "union", "enum")):
            return
        if "thread_local" in pre:
            return
        const = "constexpr" in pre or (bool(ty) and ty[0] == "const") or (bool(ty) and ty[-1] == "const")
        if owner and not cls:      # out-of-class definition of a static member: keeps the initialiser
            c = self.classes.get(owner)
            if c and name in c.vars:
                if init is not None and c.vars[name].init is None:
                    c.vars[name].init, c.vars[name].init_kind = init, kind
                return
            return
        v = Var(name, ty, init, kind, "static" in pre, const, access, cls.name if cls else None)
        if cls:
            if name in cls.vars:
                fail("member %s::%s is declared twice" % (cls.name, name))
            cls.vars[name] = v
            cls.var_order.append(name)
        else:
            self.vars.setdefault(name, v)

    def scan_function(self, toks, i, lp, end, head, cls, access):
        rp = match_close(toks, lp)
        sn = self.split_name(head)
        j = rp + 1
        ret_extra = []
        virt = any(x.k == "id" and x == "virtual" for x in head)
        while j < end:
            t = toks[j]
            if t.k == "id" and t in ("const", "volatile", "override", "final", "mutable"):
                if t in ("override", "final"):
                    virt = True
                j += 1
            elif t.k == "id" and t in ("noexcept", "throw"):
                j += 1
                if j < end and toks[j] == "(":
                    j = match_close(toks, j) + 1
            elif t.k == "op" and t in ("&", "&&"):
                j += 1
            elif t.k == "op" and t == "[" and j + 1 < end and toks[j + 1] == "[":
                j = match_close(toks, j) + 1
            elif t.k == "op" and t == "->":
                j += 1
                while j < end and not (toks[j].k == "op" and toks[j] in ("{", ";", "=")):
                    ret_extra.append(toks[j])
                    j += 1
            else:
                break
        if j >= end:
            fail("unterminated function declaration: %s" % " ".join(head[:12]))
        t = toks[j]
        body, inits = None, []
        if t == ";":
            nxt = j + 1
        elif t == "=":
            nxt = self.skip_to_semicolon(toks, j, end)
        elif t == "{" or t == ":":
            if t == ":":
                j += 1
                while True:
                    k = j
                    while k < end and not (toks[k].k == "op" and toks[k] in ("(", "{")):
                        if toks[k] == "<":
                            e = match_angle(toks, k)
                            if e < 0:
                                fail("cannot read a member initialiser")
                            k = e
                        k += 1
                    if k >= end:
                        fail("cannot read the member initialiser list of %s" % " ".join(head[-3:]))
                    e = match_close(toks, k)
                    inits.append((toks[j:k], toks[k + 1:e], str(toks[k])))
                    j = e + 1
                    if j < end and toks[j] == "...":
                        j += 1
                    if j < end and toks[j] == ",":
                        j += 1
                        continue
                    break
                if j >= end or toks[j] != "{":
                    fail("cannot read the member initialiser list of %s" % " ".join(head[-3:]))
            e = match_close(toks, j)
            body = toks[j:e + 1]
            nxt = e + 1
        else:
            # `T name( args) <something else>`: not a function; skip the statement
            return self.skip_to_semicolon(toks, i, end)
        if sn is None:
            return nxt
        pre, owner, name = sn
        params = []
        ptoks = toks[lp + 1:rp]
        if not (len(ptoks) == 1 and ptoks[0] == "void"):
            for part in split_commas(ptoks):
                if "=" in part:
                    part = part[:part.index("=")]
                pack = "..." in part
                part = [x for x in part if x != "..."]
                pname = None
                if len(part) >= 2 and part[-1].k == "id" and part[-2] != "::" and part[-1] not in ("const", "int", "char", "bool"):
                    pname = str(part[-1])
                    part = part[:-1]
                params.append((part, pname, pack))
        owner_cls = cls.name if cls else owner
        f = Func(name, owner_cls, params, body, inits, "static" in pre, access if cls else None,
                 [x for x in pre if not (x.k == "id" and x in SPECIFIERS and x != "const")] + ret_extra, virt)
        table = self.funcs
        if owner_cls:
            c = cls or self.classes.get(owner_cls)
            if c is None:
                return nxt
            table = c.funcs
        table.setdefault(name, []).append(f)
        return nxt


# ============================================================================ statements / expressions

BUILTIN_TYPES = ("bool", "char", "short", "int", "long", "unsigned", "signed", "float", "double", "void", "auto",
                 "size_t", "wchar_t")
CASTS = ("static_cast", "const_cast", "reinterpret_cast", "dynamic_cast")
UNSUPPORTED_STMT = ("while", "for", "do", "try", "goto", "throw", "case", "default", "continue",
                    "co_return", "co_await", "co_yield", "asm")        # case / default: only directly in a switch body
BINPREC = {"||": 1, "&&": 2, "|": 3, "^": 4, "&": 5, "==": 6, "!=": 6, "<": 7, ">": 7, "<=": 7, ">=": 7,
           "+": 9, "-": 9, "*": 10, "/": 10, "%": 10}
ASSIGN_OPS = ("=", "+=", "-=", "*=", "/=", "%=", "&=", "|=", "^=")


class Parser:
    """recursive descent over a token list.  Expressions are tuples:
       ("name", [parts], targs) ("lit", text) ("this",) ("call", f, args) ("member", obj, op, name)
       ("unary", op, e) ("binary", op, a, b) ("assign", op, a, b) ("cond", c, a, b) ("new", type, args)
       ("cast", type, e) ("pack", e) ("lambda", captures, params, body) ("construct", type, args) ("index", a, b)
       ("comma", [e..])
       statements: ("block", [..]) ("if", c, a, b) ("return", e) ("decl", type, name, init, kind) ("expr", e) ("empty",)
       ("switch", c, [(labels, [stmts])]) with labels = list of expressions / "default"; ("break",).
       `if (init; c) A else B` is returned as the block { init; if (c) A else B } and `if (T x = e) A else B` as
       { T x = e; if (x) A else B } (the same scopes and the same order of evaluation); likewise for switch."""

    def __init__(self, toks, what):
        self.t, self.i, self.what = list(toks), 0, what

    # -- token helpers
    def peek(self, k=0):
        j = self.i + k
        return self.t[j] if j < len(self.t) else None

    def at(self, s, k=0):
        x = self.peek(k)
        return x is not None and x == s and x.k in ("op", "id")

    def eat(self, s):
        if not self.at(s):
            fail("%s: expected `%s` at: %s" % (self.what, s, " ".join(self.t[self.i:self.i + 10])))
        self.i += 1

    def err(self, msg):
        fail("%s: %s at: %s" % (self.what, msg, " ".join(self.t[self.i:self.i + 12])))

    # -- statements
    def parse_body(self):
        s = self.statement()
        if self.i != len(self.t):
            self.err("trailing tokens")
        return s

    def statement(self):
        x = self.peek()
        if x is None:
            self.err("unexpected end")
        while self.at("[") and self.at("[", 1):      # attribute
            self.i = match_close(self.t, self.i) + 1
            x = self.peek()
        if x.k == "op" and x == "{":
            e = match_close(self.t, self.i)
            self.i += 1
            body = []
            while self.i < e:
                body.append(self.statement())
            self.i = e + 1
            return ("block", body)
        if x.k == "op" and x == ";":
            self.i += 1
            return ("empty",)
        if x.k == "id":
            if x in UNSUPPORTED_STMT:
                self.err("unsupported statement `%s`" % x)
            if x == "if":
                self.i += 1
                if self.at("constexpr"):
                    self.err("unsupported `if constexpr`")
                pre, c = self.condition()
                a = self.statement()
                b = None
                if self.at("else"):
                    self.i += 1
                    b = self.statement()
                s = ("if", c, a, b)
                return ("block", pre + [s]) if pre else s
            if x == "switch":
                self.i += 1
                pre, c = self.condition()
                s = ("switch", c, self.switch_body())
                return ("block", pre + [s]) if pre else s
            if x == "break":
                self.i += 1
                self.eat(";")
                return ("break",)
            if x == "return":
                self.i += 1
                if self.at(";"):
                    self.i += 1
                    return ("return", None)
                e = self.expression()
                self.eat(";")
                return ("return", e)
            if x in ("using", "typedef", "static_assert", "namespace", "class", "struct", "enum", "template"):
                self.err("unsupported local declaration `%s`" % x)
        d = self.try_declaration()
        if d is not None:
            return d
        e = self.expression()
        self.eat(";")
        return ("expr", e)

    def condition(self):
        """`( [init-statement] condition )` of if / switch -> (statements to run first in a scope of their own, expression).
        init-statement: expression statement, simple declaration or `;`; condition: expression or `T x = e` / `T x{e}`"""
        self.eat("(")
        e = match_close(self.t, self.i - 1)
        pre = []
        semis = []
        j = self.i
        while j < e:                                 # top-level semicolons only (a lambda body may contain some)
            y = self.t[j]
            if y.k == "op" and y in OPEN:
                j = match_close(self.t, j) + 1
                continue
            if y.k == "op" and y == ";":
                semis.append(j)
            j += 1
        if len(semis) > 1:
            self.err("cannot read the condition")
        if semis:
            x = self.peek()
            if x.k == "id" and (x in UNSUPPORTED_STMT or x in ("if", "switch", "break", "return", "using", "typedef", "static_assert",
                                                                 "namespace", "class", "struct", "enum", "template")):
                self.err("unsupported init-statement")
            if x.k == "op" and x == "{":
                self.err("unsupported init-statement")
            init = self.statement()
            if self.i != semis[0] + 1 or init[0] not in ("decl", "expr", "empty"):
                self.err("cannot read the init-statement")
            if init[0] != "empty":
                pre.append(init)
        d = self.try_declaration(cond=True)
        if d is not None:
            pre.append(d)
            c = ("name", [d[2]], None)
        else:
            c = self.expression()
        if self.i != e:
            self.err("cannot read the condition")
        self.eat(")")
        return pre, c

    def switch_body(self):
        """{ case L: ... default: ... } -> [(labels, statements)]; labels only directly in the body"""
        if not self.at("{"):
            self.err("switch without a compound statement")
        e = match_close(self.t, self.i)
        self.i += 1
        sections = []
        while self.i < e:
            labels = []
            while True:
                while self.at("[") and self.at("[", 1):      # [[fallthrough]]; [[likely]]
                    self.i = match_close(self.t, self.i) + 1
                    if self.at(";"):
                        self.i += 1
                if self.at("case"):
                    self.i += 1
                    j = self.i
                    while j < e and not (self.t[j].k == "op" and self.t[j] == ":"):
                        if self.t[j].k == "op" and self.t[j] == "?":
                            self.err("unsupported case label")
                        j += 1
                    sub = Parser(self.t[self.i:j], self.what + " (case label)")
                    lab = sub.assignment()
                    if sub.i != len(sub.t) or j >= e:
                        self.err("cannot read the case label")
                    labels.append(lab)
                    self.i = j + 1
                elif self.at("default") and self.at(":", 1):
                    labels.append("default")
                    self.i += 2
                else:
                    break
            if not labels:
                if not sections:
                    self.err("statement in a switch before the first label")
                sections[-1][1].append(self.statement())
            else:
                sections.append((labels, []))
        self.i = e + 1
        if sum(1 for ls, _ in sections for l in ls if l == "default") > 1:
            self.err("switch with two default labels")
        return sections

    def try_type(self):
        """type at the cursor -> token list (cursor after it), or None (cursor unchanged)"""
        save = self.i
        ty = []
        while self.peek() is not None and self.peek().k == "id" and self.peek() in ("const", "constexpr", "static", "volatile", "typename",
                                                                                    "unsigned", "signed", "long", "short"):
            ty.append(self.peek())
            self.i += 1
        if self.at("::"):
            ty.append(self.peek())
            self.i += 1
        named = False
        while True:
            x = self.peek()
            if x is None or x.k != "id" or x in ("new", "return", "this", "true", "false", "nullptr", "operator") + CASTS:
                break
            ty.append(x)
            self.i += 1
            named = True
            if self.at("<"):
                e = match_angle(self.t, self.i)
                if e < 0:
                    self.i = save
                    return None
                ty += self.t[self.i:e + 1]
                self.i = e + 1
            if self.at("::") and self.peek(1) is not None and self.peek(1).k == "id" and self.peek(1) != "operator":
                ty.append(self.peek())
                self.i += 1
                continue
            break
        if self.at("::"):            # Class::operator=( ..) and the like: an expression
            self.i = save
            return None
        if not named and not any(y in ("unsigned", "signed", "long", "short") for y in ty):
            self.i = save
            return None
        while self.peek() is not None and ((self.peek().k == "op" and self.peek() in ("*", "&", "&&")) or self.at("const")):
            ty.append(self.peek())
            self.i += 1
        return ty

    def try_declaration(self, cond=False):
        save = self.i
        ty = self.try_type()
        if ty is None:
            return None
        x = self.peek()
        if x is None or x.k != "id" or x in ("operator", "new", "this", "return") or not (self.peek(1) is not None and self.peek(1).k == "op" and self.peek(1) in ("=", "(", "{", ";")):
            self.i = save
            return None
        name = str(x)
        self.i += 1
        k = self.peek()
        if cond:
            if k == "=" and not self.at("{", 1):
                self.i += 1
                return ("decl", ty, name, [self.assignment()], "=")
            if k == "{":
                return ("decl", ty, name, self.arg_list("{", "}"), "{")
            self.i = save
            return None
        if k == ";":
            self.i += 1
            return ("decl", ty, name, [], None)
        if k == "=":
            self.i += 1
            if self.at("{"):
                args = self.arg_list("{", "}")
                self.eat(";")
                return ("decl", ty, name, args, "{")
            e = self.assignment()
            if self.at(","):
                self.err("unsupported declaration with several declarators")
            self.eat(";")
            return ("decl", ty, name, [e], "=")
        args = self.arg_list(str(k), OPEN[k])
        if self.at(","):
            self.err("unsupported declaration with several declarators")
        self.eat(";")
        return ("decl", ty, name, args, str(k))

    # -- expressions
    def arg_list(self, op, cl):
        self.eat(op)
        args = []
        if self.at(cl):
            self.i += 1
            return args
        while True:
            e = self.assignment()
            if self.at("..."):
                self.i += 1
                e = ("pack", e)
            args.append(e)
            if self.at(","):
                self.i += 1
                continue
            break
        self.eat(cl)
        return args

    def expression(self):
        e = self.assignment()
        if self.at(","):
            es = [e]
            while self.at(","):
                self.i += 1
                es.append(self.assignment())
            return ("comma", es)
        return e

    def assignment(self):
        c = self.binary(1)
        if self.at("?"):
            self.i += 1
            a = self.assignment()
            self.eat(":")
            b = self.assignment()
            return ("cond", c, a, b)
        x = self.peek()
        if x is not None and x.k == "op" and x in ASSIGN_OPS:
            self.i += 1
            if self.at("{"):
                self.err("unsupported assignment from a braced list")
            r = self.assignment()
            return ("assign", str(x), c, r)
        return c

    def binary(self, prec):
        a = self.unary()
        while True:
            x = self.peek()
            if x is None or x.k != "op" or x not in BINPREC or BINPREC[x] < prec:
                return a
            self.i += 1
            b = self.binary(BINPREC[x] + 1)
            a = ("binary", str(x), a, b)

    def unary(self):
        x = self.peek()
        if x is None:
            self.err("unexpected end of expression")
        if x.k == "op" and x in ("!", "*", "&", "-", "+", "~"):
            self.i += 1
            return ("unary", str(x), self.unary())
        if x.k == "op" and x in ("++", "--"):
            self.err("unsupported operator `%s`" % x)
        if x.k == "id" and x in ("sizeof", "alignof", "delete", "throw", "co_await", "noexcept", "typeid"):
            self.err("unsupported operator `%s`" % x)
        return self.postfix(self.primary())

    def postfix(self, e):
        while True:
            x = self.peek()
            if x is None or x.k != "op":
                return e
            if x == "(":
                e = ("call", e, self.arg_list("(", ")"))
            elif x in (".", "->"):
                self.i += 1
                if self.at("template"):
                    self.i += 1
                if self.at("~"):
                    self.err("unsupported explicit destructor call")
                n = self.qualified_name()
                e = ("member", e, str(x), n)
            elif x == "[":
                self.i += 1
                b = self.expression()
                self.eat("]")
                e = ("index", e, b)
            elif x in ("++", "--", "->*"):
                self.err("unsupported operator `%s`" % x)
            else:
                return e

    def qualified_name(self):
        """id ( :: id )*, each part possibly followed by template arguments -> ("name", parts, targs of the last part)"""
        parts, targs = [], None
        if self.at("::"):
            self.i += 1
        while True:
            x = self.peek()
            if x is None or x.k != "id":
                self.err("identifier expected")
            self.i += 1
            if x == "operator":
                op = ""
                while self.peek() is not None and not self.at("("):
                    op += self.peek()
                    self.i += 1
                if op == "" and self.at("(") and self.at(")", 1):
                    op = "()"
                    self.i += 2
                parts.append("operator" + op)
                return ("name", parts, None)
            parts.append(str(x))
            targs = None
            if self.at("<"):
                e = match_angle(self.t, self.i)
                if e > 0 and e + 1 < len(self.t) and self.t[e + 1].k == "op" and self.t[e + 1] in ("(", "::", "{"):
                    targs = self.t[self.i + 1:e]
                    self.i = e + 1
            if self.at("::") and self.peek(1) is not None and self.peek(1).k == "id":
                self.i += 1
                continue
            return ("name", parts, targs)

    def primary(self):
        x = self.peek()
        if x.k in ("num", "str", "chr"):
            self.i += 1
            return ("lit", str(x))
        if x.k == "op":
            if x == "(":
                e = match_close(self.t, self.i)
                inner = self.t[self.i + 1:e]
                if inner and inner[-1].k == "op" and inner[-1] in ("*", "&") and all(
                        y.k == "id" or (y.k == "op" and y in ("::", "<", ">", "*", "&", ",")) for y in inner):
                    self.i = e + 1                     # C-style cast to a pointer / reference type
                    return ("cast", inner, self.unary())
                if inner and all(y.k == "id" and y in BUILTIN_TYPES + ("const",) for y in inner):
                    self.i = e + 1                     # (void) x, (bool) x
                    return ("cast", inner, self.unary())
                self.i += 1
                r = self.expression()
                self.eat(")")
                return r
            if x == "[":
                return self.lambda_expr()
            if x == "::":
                return self.named()
            self.err("unexpected token in expression")
        if x in ("true", "false", "nullptr", "NULL"):
            self.i += 1
            return ("lit", str(x))
        if x == "this":
            self.i += 1
            return ("this",)
        if x == "new":
            self.i += 1
            if self.at("("):
                self.err("unsupported placement / nothrow new")
            ty = self.try_type()
            if ty is None:
                self.err("type expected after new")
            args = []
            if self.at("("):
                args = self.arg_list("(", ")")
            elif self.at("{"):
                args = self.arg_list("{", "}")
            if self.at("["):
                self.err("unsupported array new")
            return ("new", ty, args)
        if x in CASTS:
            self.i += 1
            if not self.at("<"):
                self.err("template argument expected")
            e = match_angle(self.t, self.i)
            if e < 0:
                self.err("unbalanced cast")
            ty = self.t[self.i + 1:e]
            self.i = e + 1
            self.eat("(")
            v = self.expression()
            self.eat(")")
            return ("cast", ty, v)
        return self.named()

    def named(self):
        n = self.qualified_name()
        if self.at("{"):
            return ("construct", n, self.arg_list("{", "}"))
        return n

    def lambda_expr(self):
        e = match_close(self.t, self.i)
        caps = split_commas(self.t[self.i + 1:e])
        self.i = e + 1
        params = []
        if self.at("("):
            e = match_close(self.t, self.i)
            ptoks = self.t[self.i + 1:e]
            for part in split_commas(ptoks):
                pack = "..." in part
                part = [y for y in part if y != "..."]
                pname = None
                if len(part) >= 2 and part[-1].k == "id":
                    pname = str(part[-1])
                    part = part[:-1]
                params.append((part, pname, pack))
            self.i = e + 1
        while not self.at("{"):
            x = self.peek()
            if x is None:
                self.err("lambda without body")
            if x.k == "id" and x in ("mutable", "constexpr"):
                self.i += 1
            elif x.k == "id" and x == "noexcept":
                self.i += 1
                if self.at("("):
                    self.i = match_close(self.t, self.i) + 1
            elif x.k == "op" and x == "->":
                self.i += 1
                if self.try_type() is None:
                    self.err("lambda return type expected")
            else:
                self.err("cannot read the lambda declarator")
        e = match_close(self.t, self.i)
        body = Parser(self.t[self.i:e + 1], self.what + " (lambda)").parse_body()
        self.i = e + 1
        return ("lambda", caps, params, body)


# ============================================================================ symbolic execution

def squeeze(s):
    return re.sub(r"\s+", "", s)


def side_effects(e):
    """(locals assigned, simple names mentioned) in an expression tree; lambda bodies run later and are skipped"""
    asg, used = set(), set()

    def walk(x):
        if isinstance(x, (list,)):
            for y in x:
                walk(y)
            return
        if not isinstance(x, tuple) or not x:
            return
        if x[0] == "lambda":
            for c in x[1]:                       # captures are evaluated where the lambda is written
                for tok in c:
                    if getattr(tok, "k", None) == "id":
                        used.add(str(tok))
            return
        if x[0] == "name":
            if len(x[1]) == 1:
                used.add(x[1][0])
            return
        if x[0] == "assign" and x[2][0] == "name" and len(x[2][1]) == 1:
            asg.add(x[2][1][0])
        if x[0] in ("lit", "this"):
            return
        for y in x[1:]:
            if isinstance(y, (tuple, list)):
                walk(y)
    walk(e)
    return asg, used


def type_text(toks):
    return "".join(("const " if x == "const" else str(x)) for x in toks).strip()


GUARD_TYPES = ("std::lock_guard", "std::scoped_lock", "std::unique_lock")
OTHER_MUTEX = ("std::recursive_mutex", "std::timed_mutex", "std::recursive_timed_mutex", "std::shared_mutex",
               "std::shared_timed_mutex")


class State:
    """one path"""

    def __init__(self):
        self.frames = []       # frame = {"scopes": [ {"vars": {}, "guards": []} ], "outer": dict or None, "this": bool}
        self.events = []
        self.conds = {}        # index of a read event -> True (non-null / true) | False
        self.order = []        # read indices in the order they were decided
        self.held = []         # mutexes held
        self.owner = {}        # owning pointer -> value it is known to hold (set while locked, on this path)
        self.ret = None
        self.returned = False
        self.broke = False     # a `break` is unwinding to the enclosing switch
        self.guards = 0

    def clone(self):
        return copy.deepcopy(self)


class Exec:
    """symbolic executor for the functions of one file"""

    MAX_DEPTH = 8

    def __init__(self, unit, cls):
        self.unit, self.cls = unit, cls
        self.depth = 0
        self.parsed = {}
        self.ctx = []          # class whose member function body is being executed (innermost last); names are looked
                               # up in that class and its bases, not in the class the walk started from

    # ---------------------------------------------------------------- types and roles
    def resolve_type(self, toks, n=0):
        if n > 8:
            fail("alias cycle in " + type_text(toks))
        out, changed = [], False
        for k, x in enumerate(toks):
            if x.k == "id" and not (k > 0 and toks[k - 1] == "::"):
                al = None
                for c in self.class_chain():
                    if x in c.aliases:
                        al = c.aliases[str(x)]
                        break
                if al is None and x in self.unit.aliases:
                    al = self.unit.aliases[str(x)]
                if al is not None and not (k + 1 < len(toks) and toks[k + 1] == "::"):
                    out += al
                    changed = True
                    continue
            out.append(x)
        return self.resolve_type(out, n + 1) if changed else out

    def class_chain(self, of=None):
        """the class whose code is being executed (or `of`) and its direct bases defined in the same file"""
        res = []
        cur = of if of is not None else (self.ctx[-1] if self.ctx else self.cls)
        if cur is not None:
            res.append(cur)
            for _, b in cur.bases:
                names = [x for x in b if x.k == "id"]
                if names and str(names[-1]) in self.unit.classes and "<" not in b:
                    res.append(self.unit.classes[str(names[-1])])
        return res

    def own_object_chain(self):
        """classes whose members can be named through a pointer to the object under translation: the class the walk
        started from and its direct bases (a pointer to the own object is typed as the most derived class, see
        check_this_type)"""
        return self.class_chain(of=self.cls)

    def check_this_type(self, ty, what):
        """a local / parameter that receives `this` must be declared auto / auto* / <own class>*: through a pointer to
        a base the names would be looked up in the base only, which the translator does not model"""
        core = [str(x) for x in self.resolve_type(ty) if not (x.k == "id" and x in ("const", "volatile", "constexpr"))]
        s = "".join(core)
        cur = self.ctx[-1] if self.ctx else self.cls
        if s in ("auto", "auto*") or (cur is not None and (s == cur.name + "*" or s.endswith("::" + cur.name + "*"))):
            return
        fail("%s receives `this` but is declared %s (only auto / auto* / %s* are followed)" % (what, type_text(ty), cur.name if cur else "?"))

    def role_of(self, type_toks):
        ty = self.resolve_type(type_toks)
        ref = any(x.k == "op" and x in ("&", "&&") for x in ty)
        core = [x for x in ty if not (x.k == "id" and x in ("const", "volatile", "static", "constexpr", "typename", "mutable"))
                and not (x.k == "op" and x in ("&", "&&"))]
        s = "".join(core)
        if s.startswith("::"):
            s = s[2:]
        if s == "std::mutex":
            return "mutex", ref
        if s in OTHER_MUTEX:
            return "othermutex", ref
        if s.endswith("*"):
            return "plain_ptr", ref
        if s == "std::atomic<bool>" or s == "std::atomic_bool":
            return "atomic_bool", ref
        if s.startswith("std::atomic<") and s.endswith("*>"):
            return "atomic_ptr", ref
        if s.startswith("std::atomic"):
            return "atomic_other", ref
        if s.startswith("std::unique_ptr<"):
            return "unique_ptr", ref
        if s == "bool":
            return "plain_bool", ref
        for g in GUARD_TYPES:
            if s == g or s.startswith(g + "<"):
                if g == "std::scoped_lock" and s != g and len(split_commas(core[core.index("<") + 1:-1])) != 1:
                    fail("std::scoped_lock on several mutexes is not covered")
                return "guard", ref
        if s == "auto" or s == "auto*":
            return "auto", ref
        return "other:" + s, ref

    # ---------------------------------------------------------------- names
    def find_member(self, name):
        for c in self.class_chain():
            if name in c.vars:
                return c, c.vars[name]
        return None, None

    def shared_value(self, c, v):
        role, _ = self.role_of(v.type_toks)
        return ("shared", c.name if c else None, v.name, role)

    def lookup(self, st, parts):
        """value of a (qualified) name"""
        chain = self.class_chain()
        if len(parts) > 1 and chain and parts[0] in [c.name for c in chain]:
            parts = parts[1:]
        if len(parts) == 1:
            n = parts[0]
            fr = st.frames[-1]
            for sc in reversed(fr["scopes"]):
                if n in sc["vars"]:
                    return sc["vars"][n]
            if fr["outer"] is not None and n in fr["outer"]:
                return fr["outer"][n]
            c, v = self.find_member(n)
            if v is not None:
                if not v.static and not fr["this"]:
                    fail("non-static member %s used where no object is available" % n)
                return self.var_value(st, c, v)
            if n in self.unit.vars:
                return self.var_value(st, None, self.unit.vars[n])
        if parts[0] == "std" and len(parts) >= 2:
            m = re.match(r"^memory_order_(\w+)$", parts[-1])
            if m and len(parts) == 2:
                return ("order", m.group(1))
            if len(parts) == 3 and parts[1] == "memory_order":
                return ("order", parts[2])
            return ("stdname", "::".join(parts))
        if len(parts) > 1 and parts[-1] in self.unit.vars:       # ns::constant
            return self.var_value(st, None, self.unit.vars[parts[-1]])
        fail("unknown name %s" % "::".join(parts))

    def var_value(self, st, c, v):
        role, _ = self.role_of(v.type_toks)
        if v.const and v.init is not None and role not in ("mutex", "atomic_ptr", "atomic_bool", "unique_ptr"):
            key = ("const", c.name if c else None, v.name)
            if key in self.parsed:
                return self.parsed[key]
            p = Parser(v.init, "initialiser of %s" % v.name)
            if v.init_kind == "{" and not v.init:
                fail("constant %s without value" % v.name)
            e = p.assignment()
            if p.i != len(p.t):
                fail("cannot read the initialiser of the constant %s" % v.name)
            s0 = State()
            s0.frames.append({"scopes": [{"vars": {}, "guards": []}], "outer": None, "this": False})
            r = self.ev(s0, e)
            if len(r) != 1 or r[0][0].events:
                fail("the initialiser of the constant %s is not a constant" % v.name)
            self.parsed[key] = r[0][1]
            return r[0][1]
        if v.const:
            fail("constant %s without a readable initialiser" % v.name)
        return self.shared_value(c, v)

    # ---------------------------------------------------------------- values
    def read_event(self, st, sh, order):
        st.events.append(("read", sh[1:], order, tuple(st.held)))
        return ("read", len(st.events) - 1)

    def rvalue(self, st, v):
        """content of a shared object named as an rvalue (implicit load / plain read)"""
        if v[0] == "shared":
            role = v[3]
            if role in ("atomic_ptr", "atomic_bool"):
                return self.read_event(st, v, "seq_cst")
            if role in ("plain_ptr", "plain_bool"):
                return self.read_event(st, v, "none")
            if role == "unique_ptr":
                return self.owner_get(st, v)
            fail("object %s (%s) used as a value" % (v[2], role))
        if v[0] == "uninit":
            fail("use of the uninitialised local %s" % v[1])
        return v

    def owner_get(self, st, sh):
        if sh[1:] in st.owner and st.held:
            return st.owner[sh[1:]]
        return self.read_event(st, sh, "none")

    def truth(self, st, v):
        """-> [(state, bool)]; forks on the value of a shared read that is not decided on this path"""
        v = self.rvalue(st, v)
        k = v[0]
        if k == "bool":
            return [(st, v[1])]
        if k == "null":
            return [(st, False)]
        if k == "int":
            return [(st, v[1] != 0)]
        if k in ("new", "addr"):
            return [(st, True)]
        if k == "not":
            return [(s, not b) for s, b in self.truth(st, v[1])]
        if k == "read":
            if v[1] in st.conds:
                return [(st, st.conds[v[1]])]
            s2 = st.clone()
            st.conds[v[1]] = True
            st.order.append(v[1])
            s2.conds[v[1]] = False
            s2.order.append(v[1])
            return [(st, True), (s2, False)]
        fail("condition on a value the translator cannot follow (%s)" % (v,))

    def order_of(self, vals, k, default="seq_cst"):
        if len(vals) <= k:
            return default
        v = vals[k]
        if v[0] != "order":
            fail("memory order argument is not a std::memory_order constant: %s" % (v,))
        return v[1]

    # ---------------------------------------------------------------- expressions
    def ev_list(self, st, exprs):
        """operands of one operator / arguments of one call.  Their evaluation order is not fixed by the language
        (or not the one used here), so: at most one of them may access shared state or take a decision, and none may
        assign a local another one mentions -- otherwise the order of the events would be a guess"""
        if len(exprs) > 1:
            eff = [side_effects(e) for e in exprs]
            for i, (asg, _) in enumerate(eff):
                for j, (_, used) in enumerate(eff):
                    if i != j and asg & used:
                        fail("operands are not sequenced: %s is assigned in one and used in another" % ", ".join(sorted(asg & used)))
        res = [(st, [], 0)]
        for e in exprs:
            nxt = []
            for s, vs, active in res:
                n0, d0 = len(s.events), len(s.order)
                r = self.ev(s, e)
                for s2, v in r:
                    a2 = active + (1 if (len(s2.events) != n0 or len(s2.order) != d0 or len(r) > 1) else 0)
                    if a2 > 1:
                        fail("operands are not sequenced: more than one of them accesses shared state")
                    nxt.append((s2, vs + [v], a2))
            res = nxt
        return [(s, vs) for s, vs, _ in res]

    def ev(self, st, e):
        """-> [(state, value)]"""
        k = e[0]
        if k == "lit":
            s = e[1]
            if s in ("nullptr", "NULL"):
                return [(st, ("null",))]
            if s in ("true", "false"):
                return [(st, ("bool", s == "true"))]
            if re.match(r"^\d+[uUlL]*$", s):
                return [(st, ("int", int(re.sub(r"[uUlL]", "", s))))]
            return [(st, ("opaque", s))]
        if k == "this":
            if not st.frames[-1]["this"]:
                fail("`this` used where no object is available")
            return [(st, ("this",))]
        if k == "name":
            return [(st, self.lookup(st, e[1]))]
        if k == "pack":
            return [(s, ("packval", v)) for s, v in self.ev(st, e[1])]
        if k == "cast":
            res = []
            ty = squeeze("".join(self.resolve_type(e[1])))
            for s, v in self.ev(st, e[2]):
                if ty == "void":
                    res.append((s, ("void",)))
                elif ty == "bool":
                    res += [(s2, ("bool", b)) for s2, b in self.truth(s, v)]
                elif ty.endswith("&") and v == ("deref", ("this",)):
                    res.append((s, ("castref", ty, v)))      # a base-class view of *this
                elif ty.endswith("&") and v[0] in ("deref", "shared"):
                    res.append((s, v))                       # a reference cast names the same object
                else:
                    v = self.rvalue(s, v)
                    if v[0] == "int" and v[1] == 0 and ty.endswith("*"):
                        v = ("null",)
                    if v[0] == "this":
                        self.check_this_type(e[1], "a cast")
                    res.append((s, v))
            return res
        if k == "unary":
            op = e[1]
            res = []
            for s, v in self.ev(st, e[2]):
                if op == "!":
                    res += [(s2, ("bool", not b)) for s2, b in self.truth(s, v)]
                elif op == "&":
                    if v[0] == "shared":
                        res.append((s, ("addr", v)))
                    elif v[0] == "deref":
                        res.append((s, v[1]))
                    else:
                        fail("address of a value the translator cannot follow (%s)" % (v,))
                elif op == "*":
                    if v[0] == "addr":
                        res.append((s, v[1]))
                    elif v[0] == "this":
                        res.append((s, ("deref", v)))
                    else:
                        if v[0] == "shared" and v[3] not in ("unique_ptr", "plain_ptr", "atomic_ptr"):
                            fail("dereference of %s" % (v,))
                        shared = v[0] == "shared"
                        v = self.rvalue(s, v)
                        if v[0] not in ("read", "new"):
                            fail("dereference of a value the translator cannot follow (%s)" % (v,))
                        res.append((s, ("deref", v, shared)))
                else:
                    fail("unsupported unary operator %s" % op)
            return res
        if k == "binary":
            return self.ev_binary(st, e)
        if k == "cond":
            res = []
            for s, b in self.bind_truth(st, e[1]):
                res += self.ev(s, e[2] if b else e[3])
            return res
        if k == "assign":
            return self.ev_assign(st, e)
        if k == "new":
            res = []
            for s, vs in self.ev_list(st, e[2]):
                s.events.append(("new", type_text(e[1]), tuple(s.held)))
                res.append((s, ("new", len(s.events) - 1)))
            return res
        if k == "lambda":
            return [(st, self.make_closure(st, e))]
        if k == "call":
            return self.ev_call(st, e)
        if k == "member":
            res = []
            for s, o in self.ev(st, e[1]):
                res.append((s, self.member_of(s, o, e[2], e[3])))
            return res
        if k == "construct":
            return self.ev_call(st, ("call", e[1], e[2]))
        if k == "comma":                     # sequenced left to right, only the last value is used
            res = [(st, ("void",))]
            for sub in e[1]:
                nxt = []
                for s, _ in res:
                    nxt += self.ev(s, sub)
                res = nxt
            return res
        fail("unsupported expression (%s)" % k)

    def bind_truth(self, st, e):
        res = []
        for s, v in self.ev(st, e):
            res += self.truth(s, v)
        return res

    def member_of(self, st, o, op, name):
        """data member named through an object expression (this->x, (*this).x)"""
        if o[0] == "this" or (o[0] == "deref" and o[1] == ("this",)):
            parts = name[1]
            if len(parts) != 1:
                fail("qualified member name %s through a pointer to the own object" % "::".join(parts))
            c, v = self.find_member(parts[-1])
            if v is None:
                fail("unknown member %s" % parts[-1])
            return self.var_value(st, c, v)
        fail("member access on a value the translator cannot follow (%s . %s)" % (o, "::".join(name[1])))

    def ev_binary(self, st, e):
        op = e[1]
        if op in ("&&", "||"):
            res = []
            for s, a in self.bind_truth(st, e[2]):
                if (op == "&&" and not a) or (op == "||" and a):
                    res.append((s, ("bool", a)))
                else:
                    res += [(s2, ("bool", b)) for s2, b in self.bind_truth(s, e[3])]
            return res
        if op in ("==", "!="):
            res = []
            for s, (a, b) in self.ev_list(st, [e[2], e[3]]):
                a, b = self.rvalue(s, a), self.rvalue(s, b)
                for x, y in ((a, b), (b, a)):
                    if x[0] == "null" or (x[0] == "int" and x[1] == 0) or x[0] == "bool":
                        for s2, t in self.truth(s, y):
                            eq = (t == x[1]) if x[0] == "bool" else (not t)
                            res.append((s2, ("bool", eq if op == "==" else not eq)))
                        break
                else:
                    fail("comparison the translator cannot follow (%s %s %s)" % (a, op, b))
            return res
        fail("unsupported binary operator %s" % op)

    def ev_assign(self, st, e):
        if e[1] != "=":
            fail("unsupported assignment operator %s" % e[1])
        lhs = e[2]
        res = []
        if lhs[0] == "name" and len(lhs[1]) == 1:
            fr = st.frames[-1]
            for sc in reversed(fr["scopes"]):
                if lhs[1][0] in sc["vars"] and sc["vars"][lhs[1][0]][0] != "shared":
                    for s, v in self.ev(st, e[3]):
                        v = self.rvalue(s, v)
                        for sc2 in reversed(s.frames[-1]["scopes"]):
                            if lhs[1][0] in sc2["vars"]:
                                sc2["vars"][lhs[1][0]] = v
                                break
                        res.append((s, v))
                    return res
        for s, (l, r) in self.ev_list(st, [lhs, e[3]]):
            if l[0] == "castref":
                if squeeze(l[1]) == "std::thread&" and l[2] == ("deref", ("this",)) and r[0] == "thread":
                    s.events.append(("start_thread", r[1]))
                    res.append((s, ("void",)))
                    continue
                fail("assignment through a cast the translator cannot follow")
            if l[0] != "shared":
                fail("assignment to something the translator cannot follow (%s)" % (l,))
            role = l[3]
            if role in ("atomic_ptr", "atomic_bool", "plain_ptr", "plain_bool"):
                r = self.rvalue(s, r)
                s.events.append(("store", l[1:], self.storable(r), "seq_cst" if role.startswith("atomic") else "none", tuple(s.held)))
            elif role == "unique_ptr":
                if r[0] != "uptr":
                    fail("assignment to the owning pointer %s from %s" % (l[2], r))
                self.own(s, l, r[1])
            else:
                fail("assignment to %s (%s)" % (l[2], role))
            res.append((s, ("void",)))
        return res

    def storable(self, v):
        if v[0] == "int" and v[1] == 0:
            return ("null",)
        if v[0] in ("null", "bool", "new", "read"):
            return v
        fail("store of a value the translator cannot follow (%s)" % (v,))

    def own(self, st, sh, v):
        if v[0] == "new":
            if v[1] != len(st.events) - 1:
                fail("something happens between `new` and handing the object to the owning pointer")
            st.events.append(("own", sh[1:], tuple(st.held)))
            st.owner[sh[1:]] = v
        elif v[0] == "null":
            st.events.append(("disown", sh[1:], tuple(st.held)))
            st.owner[sh[1:]] = v
        else:
            fail("owning pointer %s reset with %s" % (sh[2], v))

    # ---------------------------------------------------------------- calls
    def ev_call(self, st, e):
        f, args = e[1], e[2]
        res = []
        if f[0] == "member":
            for s, o in self.ev(st, f[1]):
                for s2, vs in self.ev_list(s, args):
                    res += self.method_call(s2, o, f[2], f[3], vs)
            return res
        if f[0] == "name":
            parts = f[1]
            chain = self.class_chain()
            if parts[0] == "std" or parts[-1].startswith("operator"):
                for s, vs in self.ev_list(st, args):
                    res += self.std_call(s, parts, f[2], vs)
                return res
            if len(parts) == 1 and parts[0] in BUILTIN_TYPES:
                return self.ev(st, ("cast", [Tok(parts[0], "id", 0, 0)], args[0])) if len(args) == 1 else fail("bad functional cast")
            own = parts[1:] if len(parts) > 1 and chain and parts[0] in [c.name for c in chain] else parts
            if len(own) == 1:
                local = None
                fr = st.frames[-1]
                for sc in reversed(fr["scopes"]):
                    if own[0] in sc["vars"]:
                        local = sc["vars"][own[0]]
                        break
                if local is None and fr["outer"] is not None and own[0] in fr["outer"]:
                    local = fr["outer"][own[0]]
                if local is not None:
                    for s, vs in self.ev_list(st, args):
                        res += self.call_value(s, local, vs)
                    return res
                cands = self.member_funcs(own[0])
                if not cands:
                    cands = [(None, x) for x in self.unit.funcs.get(own[0], [])]
                if cands:
                    for s, vs in self.ev_list(st, args):
                        res += self.inline(s, own[0], cands, vs)
                    return res
            fail("call of a function that is not defined in this file: %s" % "::".join(parts))
        # call of a computed value (closure, callable)
        for s, fv in self.ev(st, f):
            for s2, vs in self.ev_list(s, args):
                res += self.call_value(s2, fv, vs)
        return res

    def call_value(self, st, fv, vs):
        if fv[0] == "userfn":
            st.events.append(("user_call",))
            return [(st, ("opaque", "result of the user function"))]
        if fv[0] == "closure":
            return self.run_closure(st, fv, vs)
        fail("call of a value the translator cannot follow (%s)" % (fv,))

    def std_call(self, st, parts, targs, vs):
        n = "::".join(parts)
        if n in ("std::forward", "std::move", "std::as_const") and len(vs) == 1:
            return [(st, vs[0])]
        if n == "std::addressof" and len(vs) == 1 and vs[0][0] == "shared":
            return [(st, ("addr", vs[0]))]
        if n == "std::invoke" and vs:
            return self.call_value(st, vs[0], vs[1:])
        if n == "std::make_unique":
            st.events.append(("new", squeeze("".join(targs or [])), tuple(st.held)))
            return [(st, ("uptr", ("new", len(st.events) - 1)))]
        if n == "std::unique_ptr" and len(vs) == 1 and vs[0][0] in ("new", "null"):
            return [(st, ("uptr", vs[0]))]
        if n == "std::thread" and vs and vs[0][0] == "closure":
            return [(st, ("thread", vs[0]))]
        if n in ("std::thread::operator=", "thread::operator=") and len(vs) == 1 and vs[0][0] == "thread" and st.frames[-1]["this"]:
            st.events.append(("start_thread", vs[0][1]))
            return [(st, ("void",))]
        fail("unsupported call of %s" % n)

    def method_call(self, st, o, op, name, vs):
        m = name[1][-1]
        if o[0] == "addr" and op == "->":
            o = o[1]
        elif o[0] == "this" or (o[0] == "deref" and o[1] == ("this",)):
            # this->f(), (*this).f(), self->f() with self = this: a value ("this",) exists only where an object does
            if len(name[1]) != 1:
                fail("qualified call %s through a pointer to the own object" % "::".join(name[1]))
            cands = self.member_funcs(m)
            if not cands:
                fail("call of the member function %s, which is not defined in this file" % m)
            return self.inline(st, m, cands, vs, this=True)
        elif op == "->" and not (o[0] == "shared" and o[3] == "unique_ptr"):
            fail("-> on a value the translator cannot follow (%s)" % (o,))
        if o[0] == "guardobj":
            if m == "unlock" and not vs:
                for fr in st.frames:
                    for sc in fr["scopes"]:
                        for g in sc["guards"]:
                            if g["id"] == o[1]:
                                if not g["held"] or o[2] != "std::unique_lock":
                                    fail("unlock() of a guard that cannot be unlocked here")
                                g["held"] = False
                                self.unlock(st, g["mutex"])
                                return [(st, ("void",))]
            fail("unsupported operation %s on a lock guard" % m)
        if o[0] != "shared":
            fail("call of %s on a value the translator cannot follow (%s)" % (m, o))
        role = o[3]
        if role in ("atomic_ptr", "atomic_bool"):
            if m == "load" and len(vs) <= 1:
                return [(st, self.read_event(st, o, self.order_of(vs, 0)))]
            if m == "store" and 1 <= len(vs) <= 2:
                st.events.append(("store", o[1:], self.storable(self.rvalue(st, vs[0])), self.order_of(vs, 1), tuple(st.held)))
                return [(st, ("void",))]
            fail("atomic operation %s is not covered by the model" % m)
        if role == "unique_ptr":
            if m == "get" and not vs:
                return [(st, self.owner_get(st, o))]
            if m == "reset" and len(vs) <= 1:
                self.own(st, o, self.rvalue(st, vs[0]) if vs else ("null",))
                return [(st, ("void",))]
            fail("operation %s on the owning pointer is not covered by the model" % m)
        if role == "mutex":
            if m == "lock" and not vs:
                self.lock(st, o)
                return [(st, ("void",))]
            if m == "unlock" and not vs:
                self.unlock(st, o[1:])
                return [(st, ("void",))]
            fail("mutex operation %s is not covered by the model" % m)
        fail("call of %s on %s (%s)" % (m, o[2], role))

    def member_funcs(self, m):
        """member functions named m as seen from the class whose code is executed: the first class of the chain that
        declares the name hides the others (no overloading across classes)"""
        for c in self.class_chain():
            if m in c.funcs:
                return [(c, x) for x in c.funcs[m]]
        return []

    def lock(self, st, sh):
        if sh[1:] in st.held:
            fail("mutex %s locked twice on one path" % sh[2])
        st.events.append(("lock", sh[1:]))
        st.held.append(sh[1:])
        st.owner = {}

    def unlock(self, st, key):
        if key not in st.held:
            fail("unlock of a mutex that is not held")
        st.held.remove(key)
        st.events.append(("unlock", key))
        st.owner = {}

    # ---------------------------------------------------------------- functions
    def parse_func(self, f, what):
        key = id(f)
        if key not in self.parsed:
            self.parsed[key] = Parser(f.body, what).parse_body()
        return self.parsed[key]

    def pick(self, name, cands, nargs):
        with_body = [(c, f) for c, f in cands if f.body is not None]
        if not with_body:
            fail("function %s has no definition in this file" % name)
        if len(with_body) > 1:
            fit = [(c, f) for c, f in with_body if len(f.params) == nargs or any(p[2] for p in f.params)]
            if len(fit) != 1:
                fail("call of the overloaded function %s is ambiguous for the translator" % name)
            with_body = fit
        return with_body[0]

    def inline(self, st, name, cands, vs, this=None):
        c, f = self.pick(name, cands, len(vs))
        decl_static = f.static or any(x.static for _, x in cands)
        has_this = st.frames[-1]["this"] if st.frames else False
        if this is not None:
            has_this = this
        if decl_static:
            has_this = False
        elif c is not None and not has_this:
            fail("non-static member function %s called where no object is available" % name)
        if f.virtual or any(x.virtual for _, x in cands):
            fail("call of the virtual member function %s: which body runs is not known statically" % name)
        self.depth += 1
        if self.depth > self.MAX_DEPTH:
            fail("calls nested deeper than %d (recursion?) at %s" % (self.MAX_DEPTH, name))
        body = self.parse_func(f, "%s()" % name)
        vars_ = {}
        k = 0
        for (pty, pname, pack) in f.params:
            if pack:
                val = ("packval", ("opaque", "arguments"))
                k = len(vs)
            else:
                if k >= len(vs):
                    fail("too few arguments in a call of %s" % name)
                val = vs[k]
                k += 1
                role, ref = self.role_of(pty)
                if val[0] == "shared" and not ref:
                    val = self.rvalue(st, val)
                if val[0] == "this":
                    self.check_this_type(pty, "parameter %s of %s" % (pname, name))
            if pname:
                vars_[pname] = val
        if k < len(vs) and not all(v[0] == "packval" for v in vs[k:]):
            fail("too many arguments in a call of %s" % name)
        st.frames.append({"scopes": [{"vars": vars_, "guards": []}], "outer": None, "this": has_this})
        self.ctx.append(c if c is not None else (self.ctx[-1] if self.ctx else self.cls))
        try:
            out = []
            for s in self.exec_stmt(st, body):
                if s.broke:
                    fail("`break` outside a switch in %s" % name)
                s.frames.pop()
                v = s.ret if s.returned else ("void",)
                s.ret, s.returned = None, False
                out.append((s, v))
        finally:
            self.ctx.pop()
        for _, v in out:
            if v[0] == "this":           # checked against the class of the caller
                self.check_this_type(f.ret_toks, "the result of %s" % name)
        self.depth -= 1
        return out

    def make_closure(self, st, e):
        caps, params, body = e[1], e[2], e[3]
        env, this, default = {}, False, None
        visible = {}
        fr = st.frames[-1]
        if fr["outer"]:
            visible.update(fr["outer"])
        for sc in fr["scopes"]:
            visible.update(sc["vars"])
        for c in caps:
            if not c:
                continue
            if len(c) == 1 and c[0] in ("&", "="):
                default = str(c[0])
            elif len(c) == 1 and c[0] == "this" or (len(c) == 2 and c[0] == "*" and c[1] == "this"):
                this = fr["this"]
            elif "=" in c:
                k = c.index("=")
                names = [x for x in c[:k] if x.k == "id"]
                if len(names) != 1:
                    fail("cannot read the lambda capture %s" % " ".join(c))
                byref = any(x == "&" for x in c[:k])
                p = Parser(c[k + 1:], "lambda capture %s" % names[0])
                ce = p.assignment()
                if p.i != len(p.t):
                    fail("cannot read the lambda capture %s" % " ".join(c))
                r = self.ev(st, ce)
                if len(r) != 1:
                    fail("lambda capture with a branch")
                v = r[0][1]
                if v[0] == "shared" and not byref:
                    v = self.rvalue(st, v)
                env[str(names[0])] = v
            else:
                names = [x for x in c if x.k == "id"]
                if len(names) != 1 or str(names[0]) not in visible:
                    fail("cannot read the lambda capture %s" % " ".join(c))
                env[str(names[0])] = visible[str(names[0])]
        if default is not None:
            for n, v in visible.items():
                env.setdefault(n, v)
            this = fr["this"]
        return ("closure", id(e), this, tuple(sorted(env.items())), ClosureRef(e, self.ctx[-1] if self.ctx else self.cls))

    def run_closure(self, st, cl, vs):
        e = cl[4].node
        vars_ = dict(cl[3])
        k = 0
        for (pty, pname, pack) in e[2]:
            if pack:
                val = ("packval", ("opaque", "arguments"))
                k = len(vs)
            else:
                val = vs[k] if k < len(vs) else ("opaque", "argument")
                k += 1
            if pname:
                vars_[pname] = val
        self.depth += 1
        if self.depth > self.MAX_DEPTH:
            fail("calls nested deeper than %d" % self.MAX_DEPTH)
        st.frames.append({"scopes": [{"vars": vars_, "guards": []}], "outer": None, "this": cl[2]})
        self.ctx.append(cl[4].cls)
        try:
            out = []
            for s in self.exec_stmt(st, e[3]):
                if s.broke:
                    fail("`break` outside a switch in a lambda")
                s.frames.pop()
                v = s.ret if s.returned else ("void",)
                s.ret, s.returned = None, False
                out.append((s, v))
        finally:
            self.ctx.pop()
        self.depth -= 1
        return out

    # ---------------------------------------------------------------- statements
    def exec_stmt(self, st, s):
        """-> [state]; a state that has executed `return` carries .returned"""
        if st.returned or st.broke:
            return [st]
        k = s[0]
        if k == "empty":
            return [st]
        if k == "break":
            st.broke = True
            return [st]
        if k == "switch":
            return self.exec_switch(st, s)
        if k == "block":
            st.frames[-1]["scopes"].append({"vars": {}, "guards": []})
            states = [st]
            for sub in s[1]:
                nxt = []
                for x in states:
                    nxt += self.exec_stmt(x, sub)
                states = nxt
            for x in states:
                sc = x.frames[-1]["scopes"].pop()
                for g in reversed(sc["guards"]):
                    if g["held"]:
                        self.unlock(x, g["mutex"])
            return states
        if k == "if":
            out = []
            for x, b in self.bind_truth(st, s[1]):
                br = s[2] if b else s[3]
                if br is None:
                    out.append(x)
                else:
                    out += self.exec_stmt(x, ("block", [br]))
            return out
        if k == "return":
            if s[1] is None:
                st.returned, st.ret = True, ("void",)
                return [st]
            out = []
            for x, v in self.ev(st, s[1]):
                if v[0] == "shared":
                    v = self.rvalue(x, v)
                x.returned, x.ret = True, v
                out.append(x)
            return out
        if k == "expr":
            return [x for x, _ in self.ev(st, s[1])]
        if k == "decl":
            return self.exec_decl(st, s)
        fail("unsupported statement %s" % k)

    def exec_switch(self, st, s):
        """the controlling value must be a constant or decided by a fork on a shared read; labels must be constants;
        execution starts at the matching label (else `default`, else nothing) and runs through the following
        sections until `break` / `return` -- one scope for the whole body, as in C++"""
        out = []
        for x, v in self.ev(st, s[1]):
            v = self.rvalue(x, v)
            if v[0] in ("bool", "int"):
                forks = [(x, int(v[1]))]
            elif v[0] == "not" or (v[0] == "read" and not self.is_ptr_read(x, v)):
                forks = [(x2, int(b)) for x2, b in self.truth(x, v)]
            else:
                fail("switch on a value the translator cannot follow (%s)" % (v,))
            for x2, val in forks:
                start, dflt, seen = None, None, set()
                for n, (labels, _) in enumerate(s[2]):
                    for lab in labels:
                        if lab == "default":
                            dflt = n
                            continue
                        r = self.ev(x2, lab)
                        if len(r) != 1 or r[0][1][0] not in ("bool", "int") or r[0][0] is not x2:
                            fail("case label that is not a constant")
                        lv = int(r[0][1][1])
                        if lv in seen:
                            fail("duplicate case label")
                        seen.add(lv)
                        if lv == val and start is None:
                            start = n
                if start is None:
                    start = dflt
                if start is None:
                    out.append(x2)
                    continue
                body = [sub for _, stmts in s[2][start:] for sub in stmts]
                for y in self.exec_stmt(x2, ("block", body)):
                    y.broke = False
                    out.append(y)
        return out

    def exec_decl(self, st, s):
        _, ty, name, init, kind = s
        role, ref = self.role_of(ty)
        if any(x == "static" for x in ty):
            fail("function-local static %s is not covered" % name)
        out = []
        if role == "guard":
            gname = squeeze("".join(self.resolve_type(ty))).replace("const", "")
            gname = gname.split("<")[0]
            for x, vs in self.ev_list(st, init):
                if len(vs) != 1 or vs[0][0] != "shared":
                    fail("lock guard %s: expected exactly one mutex argument" % name)
                if vs[0][3] != "mutex":
                    fail("lock guard argument %s is not a std::mutex (%s)" % (vs[0][2], vs[0][3]))
                self.lock(x, vs[0])
                x.guards += 1
                x.frames[-1]["scopes"][-1]["guards"].append({"id": x.guards, "mutex": vs[0][1:], "held": True})
                x.frames[-1]["scopes"][-1]["vars"][name] = ("guardobj", x.guards, gname)
                out.append(x)
            return out
        if role in ("mutex", "othermutex", "atomic_ptr", "atomic_bool", "atomic_other", "unique_ptr") and not ref:
            fail("local object %s of type %s is not covered" % (name, type_text(ty)))
        if not init:
            if kind is None:
                st.frames[-1]["scopes"][-1]["vars"][name] = ("uninit", name)
            elif role == "plain_ptr":
                st.frames[-1]["scopes"][-1]["vars"][name] = ("null",)
            else:
                fail("local %s: value-initialisation of %s is not covered" % (name, type_text(ty)))
            return [st]
        if len(init) != 1:
            fail("local %s: initialiser with %d arguments" % (name, len(init)))
        for x, v in self.ev(st, init[0]):
            if v[0] == "shared" and not ref:
                v = self.rvalue(x, v)
            if v[0] == "int" and v[1] == 0 and role == "plain_ptr":
                v = ("null",)
            if v[0] == "this":
                self.check_this_type(ty, "local %s" % name)
            if role == "plain_bool" and v[0] in ("read", "not", "null", "new", "addr"):
                b = self.truth(x, v) if v[0] != "read" or self.is_ptr_read(x, v) else [(x, None)]
                for x2, t in b:
                    x2.frames[-1]["scopes"][-1]["vars"][name] = v if t is None else ("bool", t)
                    out.append(x2)
                continue
            x.frames[-1]["scopes"][-1]["vars"][name] = v
            out.append(x)
        return out

    def is_ptr_read(self, st, v):
        ev = st.events[v[1]]
        return ev[1][2] in ("atomic_ptr", "plain_ptr", "unique_ptr")


class ClosureRef:
    """keeps the lambda's syntax tree out of deepcopy / comparisons"""

    def __init__(self, node, cls=None):
        self.node, self.cls = node, cls

    def __deepcopy__(self, memo):
        return self

    def __eq__(self, other):
        return isinstance(other, ClosureRef) and other.node is self.node

    def __hash__(self):
        return id(self.node)


# ============================================================================ facts

def show_value(v):
    if v is None:
        return "-"
    if v[0] == "deref":
        return "*" + show_value(v[1]) + ("(shared)" if len(v) > 2 and v[2] else "")
    if v[0] in ("read", "new"):
        return "%s#%d" % (v[0], v[1])
    if v[0] == "bool":
        return "true" if v[1] else "false"
    return v[0]


def show_path(st, ret):
    out = []
    for k, ev in enumerate(st.events):
        if ev[0] == "read":
            s = "#%d=read %s %s%s" % (k, ev[1][1], ev[2], " [locked]" if ev[3] else "")
            if k in st.conds:
                s += (" -> set" if st.conds[k] else " -> null/false")
        elif ev[0] == "store":
            s = "store %s := %s %s%s" % (ev[1][1], show_value(ev[2]), ev[3], " [locked]" if ev[4] else "")
        elif ev[0] in ("lock", "unlock"):
            s = "%s %s" % (ev[0], ev[1][1])
        elif ev[0] == "new":
            s = "#%d=new %s%s" % (k, ev[1], " [locked]" if ev[2] else "")
        elif ev[0] in ("own", "disown"):
            s = "%s %s%s" % (ev[0], ev[1][1], " [locked]" if ev[2] else "")
        else:
            s = ev[0]
        out.append(s)
    out.append("return " + show_value(ret))
    return "; ".join(out)


def show_paths(paths):
    return " || ".join(show_path(s, v) for s, v in paths)


def run_function(ex, cls, name, this, args):
    st = State()
    st.frames.append({"scopes": [{"vars": {}, "guards": []}], "outer": None, "this": this})
    cands = [(cls, f) for f in cls.funcs.get(name, [])]
    if not cands:
        fail("definition of %s::%s() not found" % (cls.name, name))
    return ex.inline(st, name, cands, args), any(f.static for _, f in cands)


def singleton_facts(path):
    unit = Unit(Source(path))
    cls = unit.classes.get("Singleton")
    if cls is None:
        fail("class Singleton not found")
    ex = Exec(unit, cls)
    paths, static = run_function(ex, cls, "instance", False, [("packval", ("opaque", "arguments"))])
    if not static:
        fail("Singleton::instance() is not a static member function")
    what = "Singleton<T>::instance(): the paths through the body are none of the shapes the model covers: "

    def bad(why):
        fail(what + why + " :: " + show_paths(paths))

    for s, _ in paths:
        if s.held:
            bad("a path returns with the mutex held")
    if len(paths) != 3:
        bad("%d paths instead of 3" % len(paths))
    fast = [p for p in paths if len(p[0].order) == 1 and p[0].conds.get(p[0].order[0]) is True]
    mid = [p for p in paths if len(p[0].order) == 2 and p[0].conds[p[0].order[0]] is False and p[0].conds[p[0].order[1]] is True]
    slow = [p for p in paths if len(p[0].order) == 2 and p[0].conds[p[0].order[0]] is False and p[0].conds[p[0].order[1]] is False]
    if not (len(fast) == len(mid) == len(slow) == 1):
        bad("not the three decisions set / null-set / null-null")
    (fs, fr), (ms, mr), (ss, sr) = fast[0], mid[0], slow[0]
    ev = ss.events
    if not ev or ev[0][0] != "read" or ev[0][3] != ():
        bad("the first access is not an unlocked read")
    if len(ev) < 6:
        bad("the path on which both checks find nothing does not lock / construct / publish")
    cell, o1 = ev[0][1], ev[0][2]
    if ev[1][0] != "lock":
        bad("no lock after the first check")
    mx = ev[1][1]
    if not (ev[2][0] == "read" and ev[2][1] == cell and ev[2][3] == (mx,)):
        bad("no second read of the same cell under the lock")
    o2 = ev[2][2]
    if ss.order != [0, 2]:
        bad("the decisions are not taken on the unlocked and on the locked read")
    if not (ev[3][0] == "new" and ev[3][2] == (mx,)):
        bad("no construction under the lock after the second check")
    if ev[3][1] != "T":
        bad("the constructed type is %s, not T" % ev[3][1])
    if not (ev[4][0] == "own" and ev[4][2] == (mx,)):
        bad("the new object is not handed to an owning pointer under the lock")
    owner = ev[4][1]
    separate = owner != cell
    exp_slow = [("read", cell, o1, ()), ("lock", mx), ("read", cell, o2, (mx,)), ("new", "T", (mx,)), ("own", owner, (mx,))]
    o3 = "none"
    if separate:
        if cell[2] not in ("atomic_ptr", "plain_ptr"):
            bad("the cell of the unlocked check is neither the owning pointer nor a pointer")
        if not (ev[5][0] == "store" and ev[5][1] == cell and ev[5][4] == (mx,)):
            bad("the cell of the unlocked check is not written under the lock after the construction")
        if ev[5][2] != ("new", 3):
            bad("the value stored into the cell is not the new object")
        o3 = ev[5][3]
        exp_slow.append(("store", cell, ("new", 3), o3, (mx,)))
    elif cell[2] != "unique_ptr":
        bad("owner and cell coincide but are not a std::unique_ptr")
    exp_slow.append(("unlock", mx))
    exp_mid = [("read", cell, o1, ()), ("lock", mx), ("read", cell, o2, (mx,)), ("unlock", mx)]
    exp_fast = [("read", cell, o1, ())]
    finals = set()
    for (st, rv), exp, local in ((fs, fr), exp_fast, ("read", 0)), ((ms, mr), exp_mid, ("read", 2)), ((ss, sr), exp_slow, ("new", 3)):
        n = len(exp)
        if st.events[:n] != exp:
            bad("unexpected sequence of accesses")
        rest = st.events[n:]
        if not rest:
            if rv != ("deref", local, False):
                bad("a path does not return the object it found / created")
            finals.add(False)
        elif len(rest) == 1 and rest[0][0] == "read" and rest[0][3] == () and rv[:2] == ("deref", ("read", n)):
            if rest[0][1] != cell:
                bad("return dereferences another shared object (%s) than the one the unlocked check reads" % rest[0][1][1])
            finals.add(True)
        else:
            bad("unexpected accesses before return")
    if len(finals) != 1:
        bad("the paths do not agree on what return dereferences")
    for k, nm in ((cell, "cell"), (owner, "owner"), (mx, "mutex")):
        if k[0] != "Singleton" or not cls.vars[k[1]].static:
            fail("instance() uses %s, which is not a static data member of Singleton" % k[1])
    f = {}
    f["shape"] = ("double-checked locking: atomic fast-path cell + owning pointer" if separate
                  else "double-checked locking on the owning pointer itself")
    f["cell"], f["owner"], f["mutex"] = cell[1], owner[1], mx[1]
    f["load_order"], f["store_order"], f["locked_load_order"] = o1, o3, o2
    f["separate_owner"] = separate
    f["final_read_shared"] = finals.pop()
    f["cell_type"] = unit.src.span_text(cls.vars[cell[1]].type_toks)
    f["atomic"] = cell[2] == "atomic_ptr"
    f["load_acquire"] = f["atomic"] and o1 in ACQ
    f["store_release"] = f["atomic"] and o3 in REL
    f["paths"] = [show_path(s, v) for s, v in (fast[0], mid[0], slow[0])]
    # reset(): informational (the property assumes it is not called concurrently with instance())
    try:
        rp, _ = run_function(Exec(unit, cls), cls, "reset", False, [])
        f["reset_locked"] = all(s.events and s.events[0] == ("lock", mx) and s.events[-1] == ("unlock", mx) and
                                all(e[-1] == (mx,) for e in s.events[1:-1]) for s, _ in rp)
    except (ValueError, KeyError, IndexError) as e:
        f["reset_locked"] = "not understood: %s" % e
    return f


def parse_args(toks, what):
    p = Parser(toks, what)
    args = []
    while p.i < len(p.t):
        e = p.assignment()
        if p.at("..."):
            p.i += 1
            e = ("pack", e)
        args.append(e)
        if p.i < len(p.t):
            p.eat(",")
    return args


def managed_facts(path):
    unit = Unit(Source(path))
    cls = unit.classes.get("ManagedThread")
    if cls is None:
        fail("class ManagedThread not found")
    ex = Exec(unit, cls)
    bases = [squeeze("".join(ex.resolve_type(b))) for _, b in cls.bases]
    if "std::thread" not in bases:
        fail("ManagedThread does not derive from std::thread: bases = %s" % bases)
    # isActive(): one load of the flag, its value returned
    paths, _ = run_function(ex, cls, "isActive", True, [])
    flag, load_order = None, None
    for s, rv in paths:
        if len(s.events) != 1 or s.events[0][0] != "read" or s.events[0][3] != ():
            fail("isActive(): expected exactly one load of the flag: " + show_paths(paths))
        if not (rv == ("read", 0) or (0 in s.conds and rv == ("bool", s.conds[0]))):
            fail("isActive() does not return the value of the flag: " + show_paths(paths))
        if flag is not None and (flag, load_order) != (s.events[0][1], s.events[0][2]):
            fail("isActive(): the paths read different things: " + show_paths(paths))
        flag, load_order = s.events[0][1], s.events[0][2]
    if flag is None or flag[2] not in ("atomic_bool", "plain_bool"):
        fail("isActive(): the object read is not a flag: %s" % (flag,))
    if len(paths) == 2 and not ({True, False} == {s.conds.get(0) for s, _ in paths}):
        fail("isActive(): unexpected paths: " + show_paths(paths))
    if len(paths) > 2:
        fail("isActive(): unexpected paths: " + show_paths(paths))
    fcls = unit.classes[flag[0]]
    fvar = fcls.vars[flag[1]]
    if fvar.static:
        fail("the flag %s is a static member" % flag[1])
    if flag[0] == cls.name:
        where = "member"
    else:
        where = None
        for i, (_, b) in enumerate(cls.bases):
            ids = [x for x in b if x.k == "id"]
            if ids and ids[-1] == flag[0]:
                where = "base:%d:%s" % (i, bases[i])
        if where is None:
            fail("declaration of the flag %s not found in ManagedThread or its bases" % flag[1])
    # the constructor: where is the thread started, what does the thread run
    ctors = [f for f in cls.funcs.get("ManagedThread", []) if f.body is not None]
    if len(ctors) != 1:
        fail("expected exactly one ManagedThread constructor with a body, found %d" % len(ctors))
    ctor = ctors[0]
    vars_ = {}
    for k, (pty, pname, pack) in enumerate(ctor.params):
        if pname:
            vars_[pname] = ("packval", ("opaque", "arguments")) if pack else (("userfn",) if k == 0 else ("opaque", "argument"))
    if not ctor.params or ctor.params[0][2]:
        fail("the constructor's first parameter is not the thread function")
    st = State()
    st.frames.append({"scopes": [{"vars": vars_, "guards": []}], "outer": None, "this": True})
    closure, started_in_init, flag_init = None, False, fvar.init
    flag_init_kind = fvar.init_kind
    for name_toks, arg_toks, br in ctor.inits:
        nm = squeeze("".join(ex.resolve_type(name_toks)))
        if nm == flag[1] and flag[0] == cls.name:
            flag_init, flag_init_kind = arg_toks, br
            continue
        r = ex.ev_list(st, parse_args(arg_toks, "initialiser of " + nm))
        if len(r) != 1:
            fail("constructor: initialiser of %s branches" % nm)
        st, vs = r[0]
        if nm == "std::thread":
            if not vs or vs[0][0] != "closure":
                fail("constructor: std::thread is not started with a lambda")
            closure, started_in_init = vs[0], True
        elif nm in bases and vs:
            fail("constructor: base %s is initialised with arguments" % nm)
    if st.events:
        fail("constructor: the member initialisers touch shared state")
    body = Parser(ctor.body, "ManagedThread constructor").parse_body()
    outs = ex.exec_stmt(st, body)
    if len(outs) != 1:
        fail("constructor: the body branches")
    evs = outs[0].events
    if started_in_init:
        if evs:
            fail("constructor: unexpected accesses in the body after the thread was started by the initialiser")
    else:
        if len(evs) == 1 and evs[0][0] == "start_thread":
            closure = evs[0][1]
        else:
            fail("cannot see where the constructor starts the thread")
    # initial value of the flag
    if flag_init is None:
        fail("the flag %s is not initialised with false (no initialiser found)" % flag[1])
    iv = parse_args(flag_init, "initialiser of the flag")
    s0 = State()
    s0.frames.append({"scopes": [{"vars": {}, "guards": []}], "outer": None, "this": False})
    r = ex.ev_list(s0, iv) if iv else [(s0, [("bool", False)])]      # `{}` value-initialises
    if len(r) != 1 or len(r[0][1]) != 1 or r[0][1][0] != ("bool", False) or r[0][0].events:
        fail("the flag %s is not initialised with false (found %r)" % (flag[1], " ".join(flag_init)))
    # the thread function
    tp = ex.run_closure(State(), closure, [("packval", ("opaque", "arguments"))])
    if len(tp) != 1:
        fail("thread function: branches: " + show_paths(tp))
    te = tp[0][0].events
    if not (len(te) == 3 and te[0][0] == "store" and te[1] == ("user_call",) and te[2][0] == "store" and
            te[0][2] == ("bool", True) and te[2][2] == ("bool", False) and te[0][4] == () and te[2][4] == ()):
        fail("thread function: expected store(true); func(...); store(false) through one pointer: " + show_paths(tp))
    if te[0][1] != flag or te[2][1] != flag:
        fail("the thread function does not store into the flag isActive() reads (%s)" % flag[1])
    so1, so2 = te[0][3], te[2][3]
    if started_in_init:
        if where == "member":
            first = False
        else:
            first = int(where.split(":")[1]) < bases.index("std::thread")
    else:
        first = True         # thread started in the constructor body, all bases and members exist
    atomic = flag[2] == "atomic_bool"
    return {"bases": bases, "flag": flag[1], "flag_type": unit.src.span_text(fvar.type_toks), "flag_where": where,
            "flag_atomic": atomic,
            "thread_started_in": "base-class initialiser" if started_in_init else "constructor body",
            "flag_first": first, "store_orders": [so1, so2], "load_order": load_order,
            "orders_ok": atomic and so1 in REL and so2 in REL and load_order in ACQ,
            "thread_function": show_path(tp[0][0], None)}


# ============================================================================ output

def lean_bool(b):
    return "true" if b else "false"


def render(s, m):
    return """/-
  GENERATED by translate/concurrency.py from src/celma/common/singleton.hpp and
  src/celma/common/managed_thread.hpp of the tree under check -- do not edit by hand.
  (The handler-wide shared-state inventory for C09 is a separate generated file.)
-/
namespace CelmaVerif.Generated.SharedState

/-- Singleton<T>::instance(): %s -/
def singletonFastCell : String := "%s"
def singletonFastCellType : String := "%s"
def singletonLoadOrder : String := "%s"
def singletonStoreOrder : String := "%s"
def singletonPtrAtomic : Bool := %s
def singletonLoadAcquire : Bool := %s
def singletonStoreRelease : Bool := %s
def singletonSeparateOwner : Bool := %s
def singletonFinalReadShared : Bool := %s

/-- ManagedThread: bases %s; flag `%s` declared as %s; thread started in the %s -/
def managedFlagType : String := "%s"
def managedFlagWhere : String := "%s"
def managedFlagAtomic : Bool := %s
def managedFlagFirst : Bool := %s
def managedFlagOrdersOk : Bool := %s

end CelmaVerif.Generated.SharedState
""" % (s["shape"], s["cell"], s["cell_type"], s["load_order"], s["store_order"], lean_bool(s["atomic"]),
       lean_bool(s["load_acquire"]), lean_bool(s["store_release"]), lean_bool(s["separate_owner"]),
       lean_bool(s["final_read_shared"]),
       ", ".join(m["bases"]), m["flag"], m["flag_where"], m["thread_started_in"],
       m["flag_type"], m["flag_where"], lean_bool(m["flag_atomic"]), lean_bool(m["flag_first"]),
       lean_bool(m["orders_ok"]))


# facts of the repaired code: written for a part whose source is not understood, so that the model the
# theorems are proved for stays defined (and is not a stale one from another tree); translate() still
# raises, i.e. the tie is reported broken
FALLBACK_S = {"shape": "SOURCE NOT UNDERSTOOD - facts of the repaired code assumed", "cell": "?", "cell_type": "?",
              "load_order": "?", "store_order": "?", "atomic": True, "load_acquire": True, "store_release": True,
              "separate_owner": True, "final_read_shared": False}
FALLBACK_M = {"bases": ["SOURCE NOT UNDERSTOOD - facts of the repaired code assumed"], "flag": "?", "flag_type": "?",
              "flag_where": "?", "thread_started_in": "?", "flag_atomic": True, "flag_first": True, "orders_ok": True}


def translate(repo, lean):
    """check.py entry point: (repo root, lean project root) -> extraction report"""
    errs = []
    try:
        s = singleton_facts(os.path.join(repo, "src/celma/common/singleton.hpp"))
    except (ValueError, OSError, KeyError, IndexError, RecursionError) as e:
        errs.append("singleton.hpp: %s" % e)
        s = dict(FALLBACK_S)
    try:
        m = managed_facts(os.path.join(repo, "src/celma/common/managed_thread.hpp"))
    except (ValueError, OSError, KeyError, IndexError, RecursionError) as e:
        errs.append("managed_thread.hpp: %s" % e)
        m = dict(FALLBACK_M)
    out = os.path.join(lean, "CelmaVerif", "Generated", "SharedState.lean")
    txt = render(s, m)
    old = open(out).read() if os.path.exists(out) else None
    if old != txt:
        os.makedirs(os.path.dirname(out), exist_ok=True)
        tmp = out + ".tmp%d" % os.getpid()
        with open(tmp, "w") as f:
            f.write(txt)
        os.replace(tmp, out)
    if errs:
        raise ValueError(" | ".join(errs))
    return {"singleton": s, "managed_thread": m, "written": os.path.relpath(out, lean), "changed": old != txt}


if __name__ == "__main__":
    import json
    repo = sys.argv[1] if len(sys.argv) > 1 else os.environ.get("CELMA_REPO", "/repo")
    if len(sys.argv) > 2:
        print(json.dumps(translate(repo, sys.argv[2]), indent=1))
    else:   # dry run: facts only
        print(json.dumps({"singleton": singleton_facts(os.path.join(repo, "src/celma/common/singleton.hpp")),
                          "managed_thread": managed_facts(os.path.join(repo, "src/celma/common/managed_thread.hpp"))},
                         indent=1))
