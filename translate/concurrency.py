#!/usr/bin/env python3
"""translate/concurrency.py -- reads src/celma/common/singleton.hpp and managed_thread.hpp of the
given tree and writes lean/CelmaVerif/Generated/SharedState.lean: how the cell tested by the unlocked
first check of Singleton<T>::instance() is declared and synchronised, and whether the activity flag
of ManagedThread is constructed before the std::thread is started.  The interleaving model
(Model/Concurrency.lean) takes these facts as its configuration `Cfg.current`, so the C20 theorems
are re-checked against what the source says now.

Token scan (comments and CELMA_VERIF_SYNC hooks removed, whitespace squeezed) against the narrow
shapes the model was written for; anything else raises ValueError -- a broken tie, never a default.
"""
import os
import re
import sys

ACQ = ("acquire", "acq_rel", "seq_cst")      # consume is not accepted
REL = ("release", "acq_rel", "seq_cst")


def strip_comments(src):
    src = re.sub(r"/\*.*?\*/", " ", src, flags=re.S)
    src = re.sub(r"//[^\n]*", " ", src)
    return src


def strip_hooks(src):
    src = re.sub(r'CELMA_VERIF_SYNC\s*\(\s*"[^"]*"\s*\)\s*;', " ", src)
    src = re.sub(r'CELMA_VERIF_SYNC_INIT\s*\(\s*"[^"]*"\s*,\s*([^()]*?)\)', r"\1", src)
    return src


def squeeze(s):
    return re.sub(r"\s+", "", s)


def braced(src, start):
    """text between the brace at/after `start` and its match, and the index after it"""
    i = src.index("{", start)
    depth, j = 0, i
    while j < len(src):
        if src[j] == "{":
            depth += 1
        elif src[j] == "}":
            depth -= 1
            if depth == 0:
                return src[i + 1:j], j + 1
        j += 1
    raise ValueError("unbalanced braces")


def order_of(txt):
    """memory order named in an argument list tail (None -> seq_cst)"""
    if not txt:
        return "seq_cst"
    m = re.search(r"memory_order_(\w+)|memory_order::(\w+)", txt)
    if not m:
        raise ValueError("unrecognised memory order: " + txt)
    return m.group(1) or m.group(2)


def class_body(src, name):
    m = re.search(r"\bclass\s+" + name + r"\b[^;{]*\{", src)
    if not m:
        raise ValueError("class %s not found" % name)
    body, _ = braced(src, m.start())
    return src[m.start():src.index("{", m.start())], body


MO = r"(?:,(std::memory_order(?:_|::)\w+))?"


def singleton_facts(path):
    src = strip_hooks(strip_comments(open(path, encoding="utf-8", errors="replace").read()))
    _, body = class_body(src, "Singleton")
    statics = {}
    for m in re.finditer(r"\bstatic\s+([^;()]+?)\s+(\w+)\s*;", body):
        statics[m.group(2)] = re.sub(r"\s+", " ", m.group(1)).strip()
    m = re.search(r"Singleton\s*<\s*T\s*>\s*::\s*instance\s*\(", src)
    if not m:
        raise ValueError("definition of Singleton<T>::instance() not found")
    ibody, _ = braced(src, m.start())
    c = squeeze(ibody)
    lg = r"(?:const)?std::lock_guard<std::mutex>\w+\((\w+)\);"
    shape_b = re.compile(
        r"^T\*(?P<loc>\w+)=(?P<cell>\w+)\.load\((?P<o1>[\w:]*)\);if\((?P=loc)==nullptr\)\{" + lg.replace(r"(\w+)", r"(?P<mx>\w+)") +
        r"(?P=loc)=(?P=cell)\.load\((?P<o2>[\w:]*)\);if\((?P=loc)==nullptr\)\{(?P<own>\w+)\.reset\(newT\(.*?\)\);"
        r"(?P=loc)=(?P=own)\.get\(\);(?P=cell)\.store\((?P=loc)(?:,(?P<o3>[\w:]+))?\);\}\}return\*(?P<ret>\w+);$")
    shape_a = re.compile(
        r"^if\((?P<cell>\w+)\.get\(\)==nullptr\)\{" + lg.replace(r"(\w+)", r"(?P<mx>\w+)") +
        r"if\((?P=cell)\.get\(\)==nullptr\)\{(?P=cell)\.reset\(newT\(.*?\)\);\}\}return\*(?P<ret>\w+);$")
    f = {}
    mb, ma = shape_b.match(c), shape_a.match(c)
    if mb:
        g = mb.groupdict()
        f["shape"] = "double-checked locking: atomic fast-path cell + owning pointer"
        f["cell"], f["owner"], f["mutex"] = g["cell"], g["own"], g["mx"]
        f["load_order"], f["store_order"] = order_of(g["o1"]), order_of(g["o3"])
        f["locked_load_order"] = order_of(g["o2"])
        f["separate_owner"] = g["own"] != g["cell"]
        if g["ret"] == g["loc"]:
            f["final_read_shared"] = False
        elif g["ret"] in (g["cell"], g["own"]):
            f["final_read_shared"] = True
        else:
            raise ValueError("instance(): return dereferences an unknown name " + g["ret"])
    elif ma:
        g = ma.groupdict()
        f["shape"] = "double-checked locking on the owning pointer itself"
        f["cell"], f["owner"], f["mutex"] = g["cell"], g["cell"], g["mx"]
        f["load_order"], f["store_order"], f["locked_load_order"] = "none", "none", "none"
        f["separate_owner"] = False
        if g["ret"] != g["cell"]:
            raise ValueError("instance(): return dereferences an unknown name " + g["ret"])
        f["final_read_shared"] = True
    else:
        raise ValueError("Singleton<T>::instance(): body has none of the shapes the model covers: " + c[:400])
    for k in ("cell", "owner", "mutex"):
        if f[k] not in statics:
            raise ValueError("instance() uses %s, which is not a static data member of Singleton" % f[k])
    if squeeze(statics[f["mutex"]]) != "std::mutex":
        raise ValueError("lock_guard argument %s is not a std::mutex" % f["mutex"])
    f["cell_type"] = statics[f["cell"]]
    f["atomic"] = squeeze(f["cell_type"]).startswith("std::atomic<")
    if not f["atomic"] and mb:
        raise ValueError("fast-path cell %s is loaded like an atomic but declared %s" % (f["cell"], f["cell_type"]))
    f["load_acquire"] = f["atomic"] and f["load_order"] in ACQ
    f["store_release"] = f["atomic"] and f["store_order"] in REL
    # reset(): must hold the same mutex
    m = re.search(r"Singleton\s*<\s*T\s*>\s*::\s*reset\s*\(", src)
    if m:
        rb = squeeze(braced(src, m.start())[0])
        f["reset_locked"] = bool(re.match(r"^(?:const)?std::lock_guard<std::mutex>\w+\(" + f["mutex"] + r"\);", rb))
    return f


def managed_facts(path):
    src = strip_hooks(strip_comments(open(path, encoding="utf-8", errors="replace").read()))
    head, body = class_body(src, "ManagedThread")
    hm = re.search(r":(.*)$", head, re.S)
    bases = []
    if hm:
        for b in hm.group(1).split(","):
            b = re.sub(r"\b(public|private|protected|virtual)\b", "", b).strip()
            bases.append(squeeze(b))
    if "std::thread" not in bases:
        raise ValueError("ManagedThread does not derive from std::thread: bases = %s" % bases)
    m = re.search(r"ManagedThread\s*::\s*isActive\s*\(\s*\)[^{;]*\{", src)
    if not m:
        raise ValueError("definition of ManagedThread::isActive() not found")
    ab = squeeze(braced(src, m.start())[0])
    am = re.match(r"^return(\w+)\.load\(([\w:]*)\);$", ab)
    if not am:
        raise ValueError("isActive(): unrecognised body " + ab)
    flag, load_order = am.group(1), order_of(am.group(2))
    decl = re.compile(r"([\w:<> ]+?)\s+" + flag + r"\s*(?:\{\s*(\w+)\s*\}|=\s*(\w+))?\s*;")

    def find_decl(text):
        for dm in decl.finditer(text):
            t = squeeze(dm.group(1))
            if t.startswith("return") or not t:
                continue
            return re.sub(r"\s+", " ", dm.group(1)).strip(), dm.group(2) or dm.group(3)
        return None

    where, ftype, finit = None, None, None
    d = find_decl(body)
    if d:
        where, (ftype, finit) = "member", d
    else:
        for i, b in enumerate(bases):
            if b == "std::thread":
                continue
            try:
                _, bb = class_body(src, b.split("::")[-1])
            except ValueError:
                continue
            d = find_decl(bb)
            if d:
                where, (ftype, finit) = "base:%d:%s" % (i, b), d
                break
    if where is None:
        raise ValueError("declaration of the flag %s not found in ManagedThread or its bases" % flag)
    if finit != "false":
        raise ValueError("the flag %s is not initialised with false (found %r)" % (flag, finit))
    # constructor: where is the thread started, what does the thread run
    m = re.search(r"ManagedThread\s*::\s*ManagedThread\s*\(", src)
    if not m:
        raise ValueError("definition of the ManagedThread constructor not found")
    # skip the parameter list; what follows is the mem-initialiser list (with the lambda) and the body
    depth = 1
    j = m.end()
    while depth:
        if src[j] == "(":
            depth += 1
        elif src[j] == ")":
            depth -= 1
        j += 1
    rest = src[j:]
    rs = squeeze(rest)
    started_in_init = rs.startswith(":std::thread([")
    lam = re.search(r"\{(\w+)->store\(true" + MO + r"\);func\(.*?\);\1->store\(false" + MO + r"\);\}", rs)
    if not lam:
        raise ValueError("thread function: expected store(true); func(...); store(false) through one pointer")
    cap = re.search(r"\[[^\]]*\b" + lam.group(1) + r"=&(\w+)[^\]]*\]", rs)
    if not cap or cap.group(1) != flag:
        raise ValueError("the thread function does not store into the flag isActive() reads (%s)" % flag)
    so1, so2 = order_of(lam.group(2)), order_of(lam.group(3))
    if started_in_init:
        if where == "member":
            first = False
        else:
            first = int(where.split(":")[1]) < bases.index("std::thread")
    else:
        if re.match(r"^(:[^{]*)?\{.*(std::thread::operator=|static_cast<std::thread&>\(\*this\)=)", rs):
            first = True     # thread started in the constructor body, all members exist
        else:
            raise ValueError("cannot see where the constructor starts the thread")
    return {"bases": bases, "flag": flag, "flag_type": ftype, "flag_where": where,
            "flag_atomic": squeeze(ftype).startswith("std::atomic<"),
            "thread_started_in": "base-class initialiser" if started_in_init else "constructor body",
            "flag_first": first, "store_orders": [so1, so2], "load_order": load_order,
            "orders_ok": so1 in REL and so2 in REL and load_order in ACQ}


def lean_bool(b):
    return "true" if b else "false"


def render(s, m):
    return """/-
  GENERATED by translate/concurrency.py from src/celma/common/singleton.hpp and
  src/celma/common/managed_thread.hpp of the tree under check -- do not edit by hand.
  (The handler-wide shared-state inventory for C09 is a separate generated file.)
-/
namespace CelmaVerif.Generated.SharedState

/-- Singleton<T>::instance(): %s -/
def singletonFastCell : String := "%s"
def singletonFastCellType : String := "%s"
def singletonLoadOrder : String := "%s"
def singletonStoreOrder : String := "%s"
def singletonPtrAtomic : Bool := %s
def singletonLoadAcquire : Bool := %s
def singletonStoreRelease : Bool := %s
def singletonSeparateOwner : Bool := %s
def singletonFinalReadShared : Bool := %s

/-- ManagedThread: bases %s; flag `%s` declared as %s; thread started in the %s -/
def managedFlagType : String := "%s"
def managedFlagWhere : String := "%s"
def managedFlagAtomic : Bool := %s
def managedFlagFirst : Bool := %s
def managedFlagOrdersOk : Bool := %s

end CelmaVerif.Generated.SharedState
""" % (s["shape"], s["cell"], s["cell_type"], s["load_order"], s["store_order"], lean_bool(s["atomic"]),
       lean_bool(s["load_acquire"]), lean_bool(s["store_release"]), lean_bool(s["separate_owner"]),
       lean_bool(s["final_read_shared"]),
       ", ".join(m["bases"]), m["flag"], m["flag_where"], m["thread_started_in"],
       m["flag_type"], m["flag_where"], lean_bool(m["flag_atomic"]), lean_bool(m["flag_first"]),
       lean_bool(m["orders_ok"]))


# facts of the repaired code: written for a part whose source is not understood, so that the model the
# theorems are proved for stays defined (and is not a stale one from another tree); translate() still
# raises, i.e. the tie is reported broken
FALLBACK_S = {"shape": "SOURCE NOT UNDERSTOOD - facts of the repaired code assumed", "cell": "?", "cell_type": "?",
              "load_order": "?", "store_order": "?", "atomic": True, "load_acquire": True, "store_release": True,
              "separate_owner": True, "final_read_shared": False}
FALLBACK_M = {"bases": ["SOURCE NOT UNDERSTOOD - facts of the repaired code assumed"], "flag": "?", "flag_type": "?",
              "flag_where": "?", "thread_started_in": "?", "flag_atomic": True, "flag_first": True, "orders_ok": True}


def translate(repo, lean):
    """check.py entry point: (repo root, lean project root) -> extraction report"""
    errs = []
    try:
        s = singleton_facts(os.path.join(repo, "src/celma/common/singleton.hpp"))
    except (ValueError, OSError) as e:
        errs.append("singleton.hpp: %s" % e)
        s = dict(FALLBACK_S)
    try:
        m = managed_facts(os.path.join(repo, "src/celma/common/managed_thread.hpp"))
    except (ValueError, OSError) as e:
        errs.append("managed_thread.hpp: %s" % e)
        m = dict(FALLBACK_M)
    out = os.path.join(lean, "CelmaVerif", "Generated", "SharedState.lean")
    txt = render(s, m)
    old = open(out).read() if os.path.exists(out) else None
    if old != txt:
        os.makedirs(os.path.dirname(out), exist_ok=True)
        tmp = out + ".tmp%d" % os.getpid()
        with open(tmp, "w") as f:
            f.write(txt)
        os.replace(tmp, out)
    if errs:
        raise ValueError(" | ".join(errs))
    return {"singleton": s, "managed_thread": m, "written": os.path.relpath(out, lean), "changed": old != txt}


if __name__ == "__main__":
    import json
    repo = sys.argv[1] if len(sys.argv) > 1 else os.environ.get("CELMA_REPO", "/repo")
    if len(sys.argv) > 2:
        print(json.dumps(translate(repo, sys.argv[2]), indent=1))
    else:   # dry run: facts only
        print(json.dumps({"singleton": singleton_facts(os.path.join(repo, "src/celma/common/singleton.hpp")),
                          "managed_thread": managed_facts(os.path.join(repo, "src/celma/common/managed_thread.hpp"))},
                         indent=1))
