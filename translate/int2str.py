#!/usr/bin/env python3
"""translate/int2str.py — C++ sources of Celma's integer-to-string conversions -> Lean data.

Reads (from the working tree under <repo>/src):
  celma/format/detail/int{8,16,32,64}_str_length.hpp        nested if / ternary decision trees
  library/format/detail/{,grouped_}int{8,16,32,64}_to_string.cpp
        checkAddGroupChar(), the unrolled convert() switch, the four caller functions
  celma/format/detail/{,grouped_}int{8,16,32,64}_to_string.hpp   zero / negative dispatch
  celma/format/int2string.hpp, grouped_int2string.hpp            overload tables
and writes lean/CelmaVerif/Generated/Int2Str.lean: the trees, the statements of every `case`, the
caller expressions, the dispatch and overload tables as Lean data (types in Model/Int2Str.lean), and
lean/CelmaVerif/Generated/Int2StrOk.lean: one `by decide` obligation per table.  A narrow parser on purpose: anything it does not recognise
raises TranslateError (a broken tie), it never guesses.
"""
import os
import re
import sys

WIDTHS = (8, 16, 32, 64)


class TranslateError(Exception):
    pass


# ----------------------------------------------------------------------------- lexing

TOKEN_RE = re.compile(r"""
    (?P<ws>\s+)
  | (?P<num>0[xX][0-9a-fA-F]+[uUlL]*|\d+[uUlL]*)
  | (?P<id>[A-Za-z_][A-Za-z_0-9]*)
  | (?P<chr>'(?:\\.|[^'\\])')
  | (?P<str>"(?:\\.|[^"\\])*")
  | (?P<op>\[\[|\]\]|::|\+\+|--|>=|<=|==|!=|/=|%=|\+=|-=|\*=|&&|\|\||->|[-+*/%<>=!?:;,.(){}\[\]&~^|\#])
""", re.X)


def strip_comments(src):
    out, i, n = [], 0, len(src)
    while i < n:
        c = src[i]
        if src.startswith("//", i):
            while i < n and src[i] != "\n":
                i += 1
        elif src.startswith("/*", i):
            j = src.find("*/", i + 2)
            if j < 0:
                raise TranslateError("unterminated comment")
            out.append(" ")
            i = j + 2
        elif c == '"' or c == "'":
            j = i + 1
            while j < n and src[j] != c:
                j += 2 if src[j] == "\\" else 1
            out.append(src[i:j + 1])
            i = j + 1
        else:
            out.append(c)
            i += 1
    return "".join(out)


def lex(src):
    toks, i = [], 0
    while i < len(src):
        m = TOKEN_RE.match(src, i)
        if not m:
            raise TranslateError("cannot tokenise at %r" % src[i:i + 30])
        i = m.end()
        if m.lastgroup != "ws":
            toks.append((m.lastgroup, m.group(m.lastgroup)))
    return toks


def num_value(text):
    t = text.rstrip("uUlL")
    return int(t, 16) if t.lower().startswith("0x") else int(t, 10)


ESC = {"n": 10, "t": 9, "0": 0, "\\": 92, "'": 39, '"': 34, "r": 13}


def char_value(text):
    body = text[1:-1]
    if body.startswith("\\"):
        if body[1] not in ESC or len(body) != 2:
            raise TranslateError("unsupported character literal %s" % text)
        return ESC[body[1]]
    if len(body) != 1:
        raise TranslateError("unsupported character literal %s" % text)
    return ord(body)


def string_bytes(text):
    body, out, i = text[1:-1], [], 0
    while i < len(body):
        if body[i] == "\\":
            if body[i + 1] not in ESC:
                raise TranslateError("unsupported escape in %s" % text)
            out.append(ESC[body[i + 1]])
            i += 2
        else:
            out.append(ord(body[i]))
            i += 1
    return out


class P:
    """token cursor"""

    def __init__(self, toks, what):
        self.t, self.i, self.what = toks, 0, what

    def peek(self, k=0):
        return self.t[self.i + k] if self.i + k < len(self.t) else ("eof", "")

    def at(self, *texts):
        for k, x in enumerate(texts):
            if self.peek(k)[1] != x:
                return False
        return True

    def next(self):
        tok = self.peek()
        self.i += 1
        return tok

    def eat(self, *texts):
        for x in texts:
            tok = self.next()
            if tok[1] != x:
                self.fail("expected `%s`, found `%s`" % (x, tok[1]))

    def opt(self, *texts):
        if self.at(*texts):
            self.i += len(texts)
            return True
        return False

    def ident(self):
        tok = self.next()
        if tok[0] != "id":
            self.fail("expected identifier, found `%s`" % tok[1])
        return tok[1]

    def done(self):
        return self.i >= len(self.t)

    def fail(self, msg):
        ctx = " ".join(x[1] for x in self.t[max(0, self.i - 6):self.i + 6])
        raise TranslateError("%s: %s (near `%s`)" % (self.what, msg, ctx))


def find_function(toks, what, ret_pred, name_pred, nth=0):
    """locate `<ret> <name> ( params ) { body }`; returns (name, param tokens, body tokens).
    ret_pred gets the list of token texts before the name back to the previous `;`/`}`/`{`."""
    hits = []
    for i in range(1, len(toks) - 1):
        if toks[i][0] == "id" and toks[i + 1][1] == "(" and name_pred(toks[i][1]):
            j = i - 1
            pre = []
            while j >= 0 and toks[j][1] not in (";", "}", "{", "#"):
                pre.append(toks[j][1])
                j -= 1
            pre.reverse()
            if not ret_pred(pre):
                continue
            k, depth = i + 1, 0
            while True:
                if toks[k][1] == "(":
                    depth += 1
                elif toks[k][1] == ")":
                    depth -= 1
                    if depth == 0:
                        break
                k += 1
            params = toks[i + 2:k]
            if k + 1 >= len(toks) or toks[k + 1][1] != "{":
                continue        # a declaration
            b, depth = k + 1, 0
            while True:
                if toks[b][1] == "{":
                    depth += 1
                elif toks[b][1] == "}":
                    depth -= 1
                    if depth == 0:
                        break
                b += 1
            hits.append((toks[i][1], params, toks[k + 2:b]))
    if len(hits) <= nth:
        raise TranslateError("%s: function not found" % what)
    return hits[nth]


def int_type_bits(name, what):
    m = re.fullmatch(r"(u?)int(8|16|32|64)_t", name)
    if not m:
        raise TranslateError("%s: `%s` is not a fixed-width integer type" % (what, name))
    return int(m.group(2)), m.group(1) == ""


def split_params(params):
    out, cur, depth = [], [], 0
    for tok in params:
        if tok[1] in "(<":
            depth += 1
        elif tok[1] in ")>":
            depth -= 1
        if tok[1] == "," and depth == 0:
            out.append(cur)
            cur = []
        else:
            cur.append(tok)
    if cur:
        out.append(cur)
    return out


# ----------------------------------------------------------------------------- str_length trees

CMP = {">=", ">", "<", "<="}


def parse_cond_value(p):
    """`value OP literal` (optionally parenthesised) -> (k, swapped): true branch is `value >= k` unless swapped"""
    paren = p.opt("(")
    if p.ident() != "value":
        p.fail("condition must compare `value`")
    op = p.next()[1]
    if op not in CMP:
        p.fail("unsupported comparison `%s`" % op)
    tok = p.next()
    if tok[0] != "num":
        p.fail("comparison against a non-literal")
    k = num_value(tok[1])
    if paren:
        p.eat(")")
    if op == ">=":
        return k, False
    if op == ">":
        return k + 1, False
    if op == "<":
        return k, True
    return k + 1, True


def mk_node(k, swapped, yes, no):
    return ("node", k, no, yes) if swapped else ("node", k, yes, no)


def parse_tree_expr(p):
    """ternary chain or literal"""
    if p.peek()[0] == "num":
        return ("leaf", num_value(p.next()[1]))
    if p.at("("):
        # either a parenthesised condition followed by `?`, or a parenthesised expression
        save = p.i
        try:
            k, sw = parse_cond_value(p)
            p.eat("?")
        except TranslateError:
            p.i = save
            p.eat("(")
            e = parse_tree_expr(p)
            p.eat(")")
            return e
        yes = parse_tree_expr(p)
        p.eat(":")
        no = parse_tree_expr(p)
        return mk_node(k, sw, yes, no)
    p.fail("unsupported return expression")


def parse_stmts_raw(p, until):
    """statement list of the str_length subset: if/else, return, blocks"""
    out = []
    while not p.at(until) and not p.done():
        out.append(parse_stmt_raw(p))
    return out


def parse_stmt_raw(p):
    if p.opt("{"):
        body = parse_stmts_raw(p, "}")
        p.eat("}")
        return ("block", body)
    if p.opt("if"):
        p.eat("(")
        k, sw = parse_cond_value(p)
        p.eat(")")
        yes = parse_stmt_raw(p)
        no = None
        if p.opt("else"):
            no = parse_stmt_raw(p)
        return ("if", k, sw, yes, no)
    if p.opt("return"):
        e = parse_tree_expr(p)
        p.eat(";")
        return ("return", e)
    p.fail("unsupported statement in str_length")


def flatten(st):
    return st[1] if st[0] == "block" else [st]


def tree_of(stmts, what):
    """continuation semantics: statements after an `if` are reached from every branch that does not return"""
    if not stmts:
        raise TranslateError("%s: a path reaches the end of the function without `return`" % what)
    s, rest = stmts[0], stmts[1:]
    if s[0] == "return":
        return s[1]
    if s[0] == "block":
        return tree_of(s[1] + rest, what)
    _, k, sw, yes, no = s
    t_yes = tree_of(flatten(yes) + rest, what)
    t_no = tree_of((flatten(no) if no is not None else []) + rest, what)
    return mk_node(k, sw, t_yes, t_no)


def parse_str_length(repo, n):
    path = os.path.join(repo, "src/celma/format/detail/int%d_str_length.hpp" % n)
    what = "int%d_str_length.hpp" % n
    toks = lex(strip_comments(open(path, encoding="utf-8").read()))
    name, params, body = find_function(toks, what, lambda pre: pre[-1:] == ["uint8_t"],
                                       lambda nm: nm == "int%d_str_length" % n)
    if [t[1] for t in params] != ["T", "orig_value"]:
        raise TranslateError("%s: unexpected parameters" % what)
    p = P(body, what)
    p.eat("const", "auto", "value", "=", "static_cast", "<")
    bits, signed = int_type_bits(p.ident(), what)
    if signed:
        raise TranslateError("%s: value is cast to a signed type" % what)
    p.eat(">", "(", "orig_value", ")", ";")
    stmts = parse_stmts_raw(p, "}")
    if not p.done():
        p.fail("trailing tokens")
    return {"tree": tree_of(stmts, what), "cast": bits}


# ----------------------------------------------------------------------------- expressions of the callers

def parse_expr(p):
    e = parse_term(p)
    while p.peek()[1] in ("+", "-"):
        op = p.next()[1]
        r = parse_term(p)
        e = ("add" if op == "+" else "sub", e, r)
    return e


def parse_term(p):
    e = parse_atom(p)
    while p.peek()[1] in ("*", "/"):
        op = p.next()[1]
        r = parse_atom(p)
        if op == "/" and r[0] != "lit":
            p.fail("division by a non-literal")
        if op == "/" and r[1] == 0:
            p.fail("division by zero")
        e = ("mul" if op == "*" else "div", e, r)
    return e


def parse_atom(p):
    tok = p.next()
    if tok[0] == "num":
        return ("lit", num_value(tok[1]))
    if tok[1] == "result_len":
        return ("len",)
    if tok[1] == "grouped_result_len":
        return ("glen",)
    if tok[1] == "(":
        e = parse_expr(p)
        p.eat(")")
        return e
    if tok[1] == "-" and p.peek()[0] == "num":
        return ("lit", -num_value(p.next()[1]))
    p.fail("unsupported expression atom `%s`" % tok[1])


# ----------------------------------------------------------------------------- convert() and callers

def parse_check_helper(toks, what):
    try:
        name, params, body = find_function(toks, what, lambda pre: pre[-1:] == ["void"],
                                           lambda nm: nm == "checkAddGroupChar")
    except TranslateError:
        return None
    if [t[1] for t in params] != ["char", "*", "&", "buffer", ",", "uint8_t", "&", "num_digits", ",", "char",
                                  "group_char"]:
        raise TranslateError("%s: checkAddGroupChar has unexpected parameters" % what)
    p = P(body, what + " checkAddGroupChar")
    p.eat("if", "(", "++", "num_digits", "==")
    thr = num_value(p.next()[1])
    p.eat(")", "{", "*", "buffer", "--", "=", "group_char", ";", "num_digits", "=")
    reset = num_value(p.next()[1])
    p.eat(";", "}")
    if not p.done():
        p.fail("trailing tokens")
    return thr, reset


def parse_convert(toks, what):
    name, params, body = find_function(toks, what, lambda pre: pre[-1:] == ["void"], lambda nm: nm == "convert")
    ps = [[t[1] for t in x] for x in split_params(params)]
    if len(ps) not in (3, 4) or ps[0] != ["char", "*", "buffer"] or ps[1][1:] != ["value"] or len(ps[1]) != 2 \
            or ps[2] != ["uint8_t", "result_len"]:
        raise TranslateError("%s: convert() has unexpected parameters %r" % (what, ps))
    has_group = len(ps) == 4
    if has_group and ps[3] != ["char", "group_char"]:
        raise TranslateError("%s: convert() has unexpected 4th parameter" % what)
    bits, signed = int_type_bits(ps[1][0], what)
    if signed:
        raise TranslateError("%s: convert() takes a signed value" % what)
    helper = parse_check_helper(toks, what)
    p = P(body, what + " convert()")
    nd_init = 0
    if p.opt("uint8_t", "num_digits", "="):
        nd_init = num_value(p.next()[1])
        p.eat(";")
    p.eat("switch", "(", "result_len", ")", "{")
    rows = []
    cur = None
    while not p.at("}"):
        if p.opt("case"):
            tok = p.next()
            if tok[0] != "num":
                p.fail("case label is not a literal")
            p.eat(":")
            cur = {"label": num_value(tok[1]), "ops": [], "fall": True}
            rows.append(cur)
            continue
        if p.opt("default"):
            p.eat(":")
            cur = {"label": None, "ops": [], "fall": True}
            rows.append(cur)
            continue
        if cur is None:
            p.fail("statement before the first case label")
        if not cur["fall"]:
            p.fail("statement after break")
        if p.opt("[[", "fallthrough", "]]", ";"):
            continue
        if p.opt("break", ";"):
            cur["fall"] = False
            continue
        if p.opt("*", "buffer"):
            dec = p.opt("--")
            p.eat("=")
            tok = p.next()
            if tok[0] == "chr":
                base = char_value(tok[1])
            elif tok[0] == "num":
                base = num_value(tok[1])
            else:
                p.fail("digit store does not start with a character literal")
            p.eat("+")
            paren = p.opt("(")
            p.eat("value")
            mod = None
            if p.opt("%"):
                mod = num_value(p.next()[1])
            if paren:
                p.eat(")")
            p.eat(";")
            cur["ops"].append(("emit", base, mod, dec))
            continue
        if p.opt("value", "/="):
            d = num_value(p.next()[1])
            p.eat(";")
            cur["ops"].append(("div", d))
            continue
        if p.opt("++", "num_digits", ";"):
            cur["ops"].append(("inc",))
            continue
        if p.opt("checkAddGroupChar", "(", "buffer", ",", "num_digits", ",", "group_char", ")", ";"):
            if helper is None:
                p.fail("checkAddGroupChar() called but not defined")
            cur["ops"].append(("check", helper[0], helper[1]))
            continue
        p.fail("unsupported statement in switch")
    p.eat("}")
    if not p.done():
        p.fail("statements after the switch")
    labels = [r["label"] for r in rows]
    if len(set(labels)) != len(labels):
        raise TranslateError("%s: duplicate case label" % what)
    return {"bits": bits, "has_group": has_group, "nd_init": nd_init, "rows": rows}


def parse_neg(p, what):
    """after `const uintN_t abs_value =`"""
    if p.opt("-", "value", ";"):
        return ("inSigned", 0)
    if p.opt("-", "static_cast", "<"):
        bits, signed = int_type_bits(p.ident(), what)
        if signed:
            p.fail("negation after a cast to a signed type")
        p.eat(">", "(", "value", ")", ";")
        return ("inUnsigned", bits)
    p.fail("unsupported negation expression")


def parse_caller(toks, what, fname, is_buf, has_group):
    ret_pred = (lambda pre: pre[-1:] == ["int"]) if is_buf else (lambda pre: pre[-3:] == ["std", "::", "string"])
    name, params, body = find_function(toks, what + " " + fname, ret_pred, lambda nm: nm == fname)
    ps = [[t[1] for t in x] for x in split_params(params)]
    if is_buf:
        if not ps or ps[0] != ["char", "*", "buffer"]:
            raise TranslateError("%s %s: first parameter is not `char* buffer`" % (what, fname))
        ps = ps[1:]
    if not ps or len(ps[0]) != 2 or ps[0][1] != "value":
        raise TranslateError("%s %s: unexpected value parameter" % (what, fname))
    pbits, psigned = int_type_bits(ps[0][0], what)
    rest = ps[1:]
    if rest and rest not in ([["char", "group_char"]], [["char"]]):
        raise TranslateError("%s %s: unexpected parameters %r" % (what, fname, rest))
    c = {"pbits": pbits, "psigned": psigned, "neg": None, "len_fn": None, "len_abs": False, "glen": None,
         "str": None, "end": None, "nul": None, "conv_abs": False, "sign": None, "ret": None}
    p = P(body, "%s %s" % (what, fname))
    converted = False
    returned = False
    while not p.done():
        if returned:
            p.fail("statement after return")
        if p.at("const") and p.peek(2)[1] == "abs_value":
            p.eat("const")
            abits, asigned = int_type_bits(p.ident(), what)
            if asigned:
                p.fail("abs_value has a signed type")
            p.eat("abs_value", "=")
            if c["neg"] is not None or c["len_fn"] is not None:
                p.fail("abs_value declared twice or too late")
            kind, cast = parse_neg(p, what)
            c["neg"] = (kind, cast, abits)
            continue
        if p.opt("const", "auto", "result_len", "="):
            m = re.fullmatch(r"int(8|16|32|64)_str_length", p.ident())
            if not m or c["len_fn"] is not None:
                p.fail("unexpected length function")
            c["len_fn"] = int(m.group(1))
            p.eat("(")
            arg = p.ident()
            if arg not in ("value", "abs_value") or (arg == "abs_value" and c["neg"] is None):
                p.fail("unexpected argument of the length function")
            c["len_abs"] = arg == "abs_value"
            p.eat(")", ";")
            continue
        if p.opt("const", "uint8_t", "grouped_result_len", "="):
            if c["len_fn"] is None or c["glen"] is not None:
                p.fail("grouped_result_len out of order")
            c["glen"] = parse_expr(p)
            p.eat(";")
            if "glen" in repr(c["glen"]):
                p.fail("grouped_result_len defined by itself")
            continue
        if not is_buf and p.opt("std", "::", "string", "result", "("):
            if c["len_fn"] is None or c["str"] is not None:
                p.fail("result string out of order")
            size = parse_expr(p)
            p.eat(",")
            tok = p.next()
            if tok[0] != "chr":
                p.fail("fill is not a character literal")
            p.eat(")", ";")
            c["str"] = (size, char_value(tok[1]))
            continue
        if not is_buf and p.opt("auto", "buffer_end", "=", "const_cast", "<", "char", "*", ">", "(", "result", ".",
                                "c_str", "(", ")", ")", "+"):
            if c["str"] is None or c["end"] is not None:
                p.fail("buffer_end out of order")
            c["end"] = parse_expr(p)
            p.eat(";")
            continue
        if is_buf and p.opt("char", "*", "buffer_end", "=", "buffer", "+"):
            if c["len_fn"] is None or c["end"] is not None:
                p.fail("buffer_end out of order")
            c["end"] = parse_expr(p)
            p.eat(";")
            continue
        if is_buf and p.opt("buffer", "["):
            e = parse_expr(p)
            p.eat("]", "=")
            tok = p.next()
            if tok[0] != "chr":
                p.fail("stored value is not a character literal")
            p.eat(";")
            key = "sign" if converted else "nul"
            if c[key] is not None:
                p.fail("more than one store %s convert()" % ("after" if converted else "before"))
            c[key] = (e, char_value(tok[1]))
            continue
        if p.opt("convert", "(", "buffer_end", ","):
            if converted or c["end"] is None:
                p.fail("convert() out of order")
            arg = p.ident()
            if arg not in ("value", "abs_value") or (arg == "abs_value" and c["neg"] is None):
                p.fail("unexpected value argument of convert()")
            c["conv_abs"] = arg == "abs_value"
            p.eat(",", "result_len")
            if has_group:
                p.eat(",", "group_char")
            p.eat(")", ";")
            converted = True
            continue
        if p.opt("return"):
            if not converted:
                p.fail("return before convert()")
            if is_buf:
                c["ret"] = parse_expr(p)
            else:
                p.eat("result")
                c["ret"] = ("lit", 0)
            p.eat(";")
            returned = True
            continue
        p.fail("unsupported statement")
    if not returned:
        p.fail("no return statement")
    return c


def parse_cpp(repo, n, grouped):
    rel = "src/library/format/detail/%sint%d_to_string.cpp" % ("grouped_" if grouped else "", n)
    what = os.path.basename(rel)
    toks = lex(strip_comments(open(os.path.join(repo, rel), encoding="utf-8").read()))
    conv = parse_convert(toks, what)
    pre = "grouped" if grouped else ""
    uname = ("groupedUint%dtoString" if grouped else "uint%dtoString") % n
    nname = ("groupedInt%dnegToString" if grouped else "int%dnegToString") % n
    callers = {
        "ustr": parse_caller(toks, what, uname, False, conv["has_group"]),
        "nstr": parse_caller(toks, what, nname, False, conv["has_group"]),
        "ubuf": parse_caller(toks, what, uname, True, conv["has_group"]),
        "nbuf": parse_caller(toks, what, nname, True, conv["has_group"]),
    }
    lens = set(c["len_fn"] for c in callers.values())
    if len(lens) != 1:
        raise TranslateError("%s: the callers use different length functions %r" % (what, lens))
    return {"rel": rel, "conv": conv, "callers": callers, "len_fn": lens.pop(), "uname": uname, "nname": nname}


# ----------------------------------------------------------------------------- dispatch headers

COND = {"<": "lt0", "<=": "le0", "==": "eq0", "!=": "ne0", ">=": "ge0", ">": "gt0"}


def parse_dispatch_body(p, is_buf, uname, nname, grouped):
    def call_target():
        """after `return`"""
        if p.opt("std", "::", "string", "("):
            tok = p.next()
            if tok[0] != "str":
                p.fail("std::string( … ) without a literal")
            p.eat(")", ";")
            bs = string_bytes(tok[1])
            return ("lit", bs, len(bs))
        name = p.ident()
        if name not in (uname, nname):
            p.fail("call of unexpected function `%s`" % name)
        p.eat("(")
        if is_buf:
            p.eat("buffer", ",")
        p.eat("value")
        if grouped:
            p.eat(",", "group_char")
        p.eat(")", ";")
        return ("neg",) if name == nname else ("unsigned",)

    def target():
        if p.opt("{"):
            if p.opt("::") or True:
                if p.opt("strcpy", "(", "buffer", ","):
                    tok = p.next()
                    if tok[0] != "str":
                        p.fail("strcpy without a literal")
                    p.eat(")", ";", "return")
                    r = p.next()
                    if r[0] != "num":
                        p.fail("non-literal return value")
                    p.eat(";", "}")
                    return ("lit", string_bytes(tok[1]), num_value(r[1]))
            p.eat("return")
            t = call_target()
            p.eat("}")
            return t
        p.eat("return")
        return call_target()

    branches = []
    while not p.done():
        if p.opt("if", "("):
            if p.ident() != "value":
                p.fail("condition is not about `value`")
            op = p.next()[1]
            if op not in COND:
                p.fail("unsupported comparison")
            lit = p.next()
            if lit[0] != "num" or num_value(lit[1]) != 0:
                p.fail("comparison against something other than 0")
            p.eat(")")
            branches.append((COND[op], target()))
        else:
            branches.append(("always", target()))
            if not p.done():
                p.fail("statements after the unconditional return")
    return branches


def parse_hpp(repo, n, grouped, uname, nname):
    rel = "src/celma/format/detail/%sint%d_to_string.hpp" % ("grouped_" if grouped else "", n)
    what = os.path.basename(rel)
    toks = lex(strip_comments(open(os.path.join(repo, rel), encoding="utf-8").read()))
    sname = ("groupedInt%dtoString" if grouped else "int%dtoString") % n
    out = {"rel": rel, "sname": sname}
    for key, is_buf in (("str", False), ("buf", True)):
        ret_pred = (lambda pre: pre[-1:] == ["int"]) if is_buf else (lambda pre: pre[-3:] == ["std", "::", "string"])
        # both overloads have the same name: pick by the first parameter
        found = None
        for nth in range(4):
            try:
                name, params, body = find_function(toks, what + " " + sname, ret_pred, lambda nm: nm == sname, nth)
            except TranslateError:
                break
            ps = [[t[1] for t in x] for x in split_params(params)]
            if (ps[0] == ["char", "*", "buffer"]) == is_buf:
                found = (ps, body)
                break
        if found is None:
            raise TranslateError("%s: %s overload of %s not found" % (what, key, sname))
        ps, body = found
        if is_buf:
            ps = ps[1:]
        if len(ps[0]) != 2 or ps[0][1] != "value":
            raise TranslateError("%s: unexpected value parameter of %s" % (what, sname))
        bits, signed = int_type_bits(ps[0][0], what)
        if not signed:
            raise TranslateError("%s: %s takes an unsigned value" % (what, sname))
        if grouped and (len(ps) != 2 or ps[1][:2] != ["char", "group_char"]):
            raise TranslateError("%s: %s lacks the group_char parameter" % (what, sname))
        out.setdefault("bits", bits)
        if out["bits"] != bits:
            raise TranslateError("%s: overloads of %s differ in the value type" % (what, sname))
        out[key] = parse_dispatch_body(P(body, "%s %s(%s)" % (what, sname, key)), is_buf, uname, nname, grouped)
    # the unsigned / negative functions must be declared with the types the .cpp defines (the compiler checks that)
    return out


# ----------------------------------------------------------------------------- overload tables

def parse_api(repo, grouped, names):
    rel = "src/celma/format/%sint2string.hpp" % ("grouped_" if grouped else "")
    what = os.path.basename(rel)
    raw = open(os.path.join(repo, rel), encoding="utf-8").read()
    src = strip_comments(raw)
    flat = re.sub(r"\\\n", " ", src)
    flat1 = re.sub(r"\s+", " ", flat)
    fn = "grouped_int2string" if grouped else "int2string"
    garg = r" , char group_char = '\\'' " if grouped else " "
    gpass = r" , group_char " if grouped else " "
    need = [
        r"#define TEMPLATE_ENABLE_IF\( b, s, r\) template< typename T> std::enable_if_t< std::is_integral< T>::value "
        r"&& \(sizeof\( T\) == b\) && std::is_signed< T>::value == s, r>",
        r"#define FUNCTION_ENABLED\( b, s, f\) TEMPLATE_ENABLE_IF\( b, s, std::string\) %s\( T value%s\) "
        r"\{ return detail::f\( value%s\); \}" % (fn, garg.rstrip() if grouped else "", gpass.rstrip() if grouped else ""),
        r"#define BUFFER_FUNCTION_ENABLED\( b, s, f\) TEMPLATE_ENABLE_IF\( b, s, int\) %s\( char\* buffer, T value%s\) "
        r"\{ return detail::f\( buffer, value%s\); \}" % (fn, garg.rstrip() if grouped else "", gpass.rstrip() if grouped else ""),
        r"#define SIGNED_FUNCTIONS\( b, f\) FUNCTION_ENABLED\( b, true, f\) BUFFER_FUNCTION_ENABLED\( b, true, f\)",
        r"#define UNSIGNED_FUNCTIONS\( b, f\) FUNCTION_ENABLED\( b, false, f\) BUFFER_FUNCTION_ENABLED\( b, false, f\)",
    ]
    squeeze = lambda s: re.sub(r"\s+", "", s)
    sq = squeeze(flat1)
    for rx in need:
        if not re.search(squeeze(rx), sq):
            raise TranslateError("%s: macro definition not as expected: %s" % (what, rx[:60]))
    entries = []
    for m in re.finditer(r"^\s*(SIGNED|UNSIGNED)_FUNCTIONS\(\s*(\d+)\s*,\s*(\w+)\s*\)", flat, re.M):
        f = m.group(3)
        if f not in names:
            raise TranslateError("%s: `%s` is not one of the detail functions" % (what, f))
        fbits, fsigned = names[f]
        entries.append({"bytes": int(m.group(2)), "signed": m.group(1) == "SIGNED", "fbits": fbits, "fsigned": fsigned,
                        "fn": f})
    if not entries:
        raise TranslateError("%s: no SIGNED_FUNCTIONS/UNSIGNED_FUNCTIONS lines" % what)
    default_group = None
    if grouped:
        m = re.search(r"char group_char = ('(?:\\.|[^'\\])')", flat1)
        default_group = char_value(m.group(1))
    return {"rel": rel, "entries": entries, "default_group": default_group}


# ----------------------------------------------------------------------------- Lean output

def lean_tree(t, ind=2):
    if t[0] == "leaf":
        return "leaf %d" % t[1]
    pad = " " * ind
    return "node %d\n%s(%s)\n%s(%s)" % (t[1], pad, lean_tree(t[2], ind + 2), pad, lean_tree(t[3], ind + 2))


def lean_expr(e):
    if e[0] == "lit":
        return "(lit %d)" % e[1] if e[1] >= 0 else "(lit (%d))" % e[1]
    if e[0] in ("len", "glen"):
        return e[0]
    return "(%s %s %s)" % (e[0], lean_expr(e[1]), lean_expr(e[2]))


def lean_opt(x, f):
    return "none" if x is None else "(some %s)" % f(x)


def lean_op(o):
    if o[0] == "emit":
        return "emit %d %s %s" % (o[1], "none" if o[2] is None else "(some %d)" % o[2], "true" if o[3] else "false")
    if o[0] == "div":
        return "div %d" % o[1]
    if o[0] == "inc":
        return "inc"
    return "check %d %d" % (o[1], o[2])


def lean_bool(b):
    return "true" if b else "false"


def lean_caller(c):
    neg = "none"
    if c["neg"] is not None:
        neg = "some ⟨.%s, %d, %d⟩" % c["neg"]
    pair = lambda x: "(%s, %d)" % (lean_expr(x[0]), x[1])
    return ("{ paramBits := %d, paramSigned := %s, neg := %s, lenArgAbs := %s,\n      glen := %s, strSize := %s,\n"
            "      endOff := %s, nulAt := %s, convArgAbs := %s,\n      signAt := %s, ret := %s }") % (
        c["pbits"], lean_bool(c["psigned"]), neg, lean_bool(c["len_abs"]), lean_opt(c["glen"], lean_expr),
        lean_opt(c["str"], pair), lean_expr(c["end"]), lean_opt(c["nul"], pair), lean_bool(c["conv_abs"]),
        lean_opt(c["sign"], pair), lean_expr(c["ret"]))


def lean_target(t):
    if t[0] == "lit":
        return ".lit [%s] %d" % (", ".join(map(str, t[1])), t[2])
    return "." + t[0]


def lean_branches(bs):
    return "[" + ", ".join("(.%s, %s)" % (c, lean_target(t)) for c, t in bs) + "]"


def generate(repo):
    trees = {n: parse_str_length(repo, n) for n in WIDTHS}
    files, hdrs, names = {}, {}, {False: {}, True: {}}
    for grouped in (False, True):
        for n in WIDTHS:
            f = parse_cpp(repo, n, grouped)
            h = parse_hpp(repo, n, grouped, f["uname"], f["nname"])
            files[(grouped, n)] = f
            hdrs[(grouped, n)] = h
            names[grouped][h["sname"]] = (n, True)
            names[grouped][f["uname"]] = (n, False)
    apis = {g: parse_api(repo, g, names[g]) for g in (False, True)}

    L = []
    w = L.append
    w("import CelmaVerif.Model.Int2Str")
    w("/-")
    w("  GENERATED by translate/int2str.py from the C++ sources — do not edit.")
    w("  Data: decision trees of intN_str_length, the statements of every case of the convert() switches,")
    w("  the expressions of the caller functions, the zero/negative dispatch, the overload tables.")
    w("  The proof obligations of these tables are in Generated/Int2StrOk.lean (kept apart so that the")
    w("  model driver still builds and runs the regenerated tables when an obligation fails).")
    w("-/")
    w("namespace CelmaVerif.Int2Str.Gen")
    w("open CelmaVerif.Int2Str CelmaVerif.Int2Str.Tree CelmaVerif.Int2Str.Op CelmaVerif.Int2Str.Expr")
    w("")
    for n in WIDTHS:
        w("/-- `int%d_str_length()` (src/celma/format/detail/int%d_str_length.hpp) -/" % (n, n))
        w("def lenTree%d : Tree :=\n  %s" % (n, lean_tree(trees[n]["tree"], 4)))
        w("")
    obligations = []
    O = ["import CelmaVerif.Generated.Int2Str",
         "/-",
         "  GENERATED by translate/int2str.py — do not edit.",
         "  The proof obligations of the regenerated tables of Generated/Int2Str.lean: the decidable",
         "  well-formedness checks of Model/Int2Str.lean, each discharged by `decide` over the finite table",
         "  (no value is enumerated).  A wrong constant, a dropped or reordered statement, a wrong size or",
         "  offset expression in the C++ makes one of them false and `lake build` fail.",
         "-/",
         "namespace CelmaVerif.Int2Str.Gen",
         "open CelmaVerif.Int2Str",
         ""]
    for grouped in (False, True):
        for n in WIDTHS:
            f = files[(grouped, n)]
            h = hdrs[(grouped, n)]
            nm = ("grouped%d" if grouped else "plain%d") % n
            w("/-- %s -/" % f["rel"])
            w("def %s : FileSpec where" % nm)
            w("  bits := %d" % n)
            w("  grouped := %s" % lean_bool(grouped))
            w("  tree := lenTree%d" % f["len_fn"])
            w("  lenCast := %d" % trees[f["len_fn"]]["cast"])
            w("  convBits := %d" % f["conv"]["bits"])
            w("  ndInit := %d" % f["conv"]["nd_init"])
            w("  rows := [")
            rows = f["conv"]["rows"]
            for i, r in enumerate(rows):
                w("    ⟨%s, [%s], %s⟩%s" % ("none" if r["label"] is None else "some %d" % r["label"],
                                             ", ".join(lean_op(o) for o in r["ops"]), lean_bool(r["fall"]),
                                             "," if i + 1 < len(rows) else ""))
            w("  ]")
            for key in ("ustr", "nstr", "ubuf", "nbuf"):
                w("  %s :=\n    %s" % (key, lean_caller(f["callers"][key])))
            w("")
            w("/-- %s -/" % h["rel"])
            w("def %sDispatch : Dispatch where" % nm)
            w("  paramBits := %d" % h["bits"])
            w("  str := %s" % lean_branches(h["str"]))
            w("  buf := %s" % lean_branches(h["buf"]))
            w("")
            for suffix, stmt, doc in (  # obligations go to the second file
                    ("tree_ok", "%s.treeOk = true" % nm, "the decision tree returns the digit count on [0, 2^%d)" % n),
                    ("rows_ok", "%s.rowsOk = true" % nm, "every reachable case writes its digits%s back to front" % (
                        " and group characters" if grouped else "")),
                    ("unsigned_ok", "%s.unsignedOk = true" % nm, "sizes, offsets, NUL position and return value of the unsigned callers"),
                    ("neg_callers_ok", "%s.negCallersOk = true" % nm, "the same for the negative callers, with the sign"),
                    ("negation_ok", "%s.negationOk = true" % nm, "abs_value is computed without signed overflow"),
                    ("dispatch_ok", "dispatchOk %s %sDispatch = true" % (nm, nm), "negative / zero / positive reach the right function")):
                O.append("/-- %s (%s) -/" % (doc, f["rel"] if suffix != "dispatch_ok" else h["rel"]))
                O.append("theorem %s_%s : %s := by decide" % (nm, suffix, stmt))
                obligations.append("%s_%s" % (nm, suffix))
            O.append("")
    for grouped in (False, True):
        a = apis[grouped]
        nm = "apiGrouped" if grouped else "apiPlain"
        w("/-- %s -/" % a["rel"])
        w("def %s : List ApiEntry := [" % nm)
        es = a["entries"]
        for i, e in enumerate(es):
            w("  ⟨%d, %s, %d, %s⟩%s   -- %s" % (e["bytes"], lean_bool(e["signed"]), e["fbits"], lean_bool(e["fsigned"]),
                                               "," if i + 1 < len(es) else " ", e["fn"]))
        w("]")
        O.append("/-- every (size, signedness) is routed to the function of that width and signedness (%s) -/" % a["rel"])
        O.append("theorem %s_ok : apiOk %s = true := by decide" % (nm, nm))
        obligations.append("%s_ok" % nm)
        w("")
    w("/-- default group character of `grouped_int2string()` -/")
    w("def defaultGroup : Byte := %d" % apis[True]["default_group"])
    w("")
    w("def plainFile : Nat → Option (FileSpec × Dispatch)")
    for n in WIDTHS:
        w("  | %d => some (plain%d, plain%dDispatch)" % (n, n, n))
    w("  | _ => none")
    w("")
    w("def groupedFile : Nat → Option (FileSpec × Dispatch)")
    for n in WIDTHS:
        w("  | %d => some (grouped%d, grouped%dDispatch)" % (n, n, n))
    w("  | _ => none")
    w("")
    w("/-- the library as found in the sources -/")
    w("def lib : Lib where")
    w("  file := fun grouped bits => if grouped then groupedFile bits else plainFile bits")
    w("  api := fun grouped => if grouped then apiGrouped else apiPlain")
    w("")
    w("end CelmaVerif.Int2Str.Gen")
    O.append("end CelmaVerif.Int2Str.Gen")
    text = ("\n".join(L) + "\n", "\n".join(O) + "\n")
    report = {
        "files_read": 4 + 8 + 8 + 2,
        "trees": {str(n): {"leaves": count_leaves(trees[n]["tree"]), "cast_bits": trees[n]["cast"]} for n in WIDTHS},
        "switch_rows": {("grouped" if g else "plain") + str(n): len(files[(g, n)]["conv"]["rows"]) for g in (False, True) for n in WIDTHS},
        "negation": {("grouped" if g else "plain") + str(n): files[(g, n)]["callers"]["nstr"]["neg"][0] + "/" +
                     files[(g, n)]["callers"]["nbuf"]["neg"][0] for g in (False, True) for n in WIDTHS},
        "obligations": len(obligations),
    }
    return text, report


def count_leaves(t):
    return 1 if t[0] == "leaf" else count_leaves(t[2]) + count_leaves(t[3])


def translate(repo_root, lean_root):
    """entry point used by tools/comp_int2str.py; rewrites Generated/Int2Str.lean only when it changed"""
    texts, report = generate(repo_root)
    report["changed"] = []
    for name, text in zip(("Int2Str.lean", "Int2StrOk.lean"), texts):
        out = os.path.join(lean_root, "CelmaVerif", "Generated", name)
        os.makedirs(os.path.dirname(out), exist_ok=True)
        old = open(out, encoding="utf-8").read() if os.path.exists(out) else None
        if old != text:
            report["changed"].append(name)
            tmp = out + ".tmp%d" % os.getpid()
            with open(tmp, "w", encoding="utf-8") as f:
                f.write(text)
            os.replace(tmp, out)
    return report


if __name__ == "__main__":
    repo = sys.argv[1] if len(sys.argv) > 1 else os.environ.get("CELMA_REPO", "/repo")
    lean = sys.argv[2] if len(sys.argv) > 2 else os.path.join(os.path.dirname(os.path.dirname(os.path.abspath(__file__))), "lean")
    if len(sys.argv) > 3 and sys.argv[3] == "--stdout":
        sys.stdout.write("".join(generate(repo)[0]))
    else:
        print(translate(repo, lean))
