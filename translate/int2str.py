#!/usr/bin/env python3
"""translate/int2str.py — C++ sources of Celma's integer-to-string conversions -> Lean data.

Reads (from the working tree under <repo>/src):
  celma/format/detail/int{8,16,32,64}_str_length.hpp        nested if / ternary decision trees
  library/format/detail/{,grouped_}int{8,16,32,64}_to_string.cpp
        checkAddGroupChar(), the unrolled convert() switch, the four caller functions
  celma/format/detail/{,grouped_}int{8,16,32,64}_to_string.hpp   zero / negative dispatch
  celma/format/int2string.hpp, grouped_int2string.hpp            overload tables
and writes lean/CelmaVerif/Generated/Int2Str.lean: the trees, the statements of every `case`, the
caller expressions, the dispatch and overload tables as Lean data (types in Model/Int2Str.lean), and
lean/CelmaVerif/Generated/Int2StrOk.lean: one `by decide` obligation per table.

The sources are followed by STRUCTURE and ROLE, not by spelling: a recursive-descent parser of the C++
subset the anchored functions use (types, expressions, if/switch/for/while/do, declarations, file-local
functions, constants, aliases) feeds one abstract interpreter.  Integers that do not depend on the converted
value (digit count, loop and group counters, named constants) are computed with the C++ rules; what depends
on the value is a symbolic value of a per-function domain:
  * intN_str_length: paths are enumerated, each comparison of the (divided) argument with a constant is a
    node `argument >= thr`, each `return` a leaf  -> the same Tree for nested ifs, early returns, ternaries,
    negated conditions, counting loops;
  * the conversion function (whatever its name): executed once per digit count k; the trace of digit stores,
    group character stores and divisions is the row of k  -> the same rows for an unrolled switch, a loop, an
    if chain, helpers called or inlined;
  * the four callers: values are roles (value parameter, its negation, digit count, the one expression
    truncated to uint8_t, result string, pointer + offset expression), local names and helper functions vanish;
  * the signed entry points: paths over the sign of the argument.
Constant tables (`static constexpr T name[ N] = { … }`, `std::array< T, N>`, at function or namespace scope) are values
of the interpreter: an element read with an index that is known here (a constant, a loop counter) is the element's
constant, `sizeof` / `std::size` / `.size()` are constants, `static_assert`s are evaluated (a false one raises).
Anything without an exact meaning in these domains raises TranslateError (a broken tie); nothing is guessed
and nothing is remembered from an earlier version of the code.
"""
import os
import re
import sys

WIDTHS = (8, 16, 32, 64)

sys.path.insert(0, os.path.dirname(os.path.abspath(__file__)))
import int2str_literal  # noqa: E402  (second, literal reading of the convert() switch)


class TranslateError(Exception):
    pass


# ----------------------------------------------------------------------------- lexing

TOKEN_RE = re.compile(r"""
    (?P<ws>\s+)
  | (?P<num>0[xX][0-9a-fA-F]+[uUlL]*|\d+[uUlL]*)
  | (?P<id>[A-Za-z_][A-Za-z_0-9]*)
  | (?P<chr>'(?:\\.|[^'\\])')
  | (?P<str>"(?:\\.|[^"\\])*")
  | (?P<op>\[\[|\]\]|::|\+\+|--|>=|<=|==|!=|/=|%=|\+=|-=|\*=|&&|\|\||->|[-+*/%<>=!?:;,.(){}\[\]&~^|\#])
""", re.X)


def strip_comments(src):
    out, i, n = [], 0, len(src)
    while i < n:
        c = src[i]
        if src.startswith("//", i):
            while i < n and src[i] != "\n":
                i += 1
        elif src.startswith("/*", i):
            j = src.find("*/", i + 2)
            if j < 0:
                raise TranslateError("unterminated comment")
            out.append(" ")
            i = j + 2
        elif c == '"' or c == "'":
            j = i + 1
            while j < n and src[j] != c:
                j += 2 if src[j] == "\\" else 1
            out.append(src[i:j + 1])
            i = j + 1
        else:
            out.append(c)
            i += 1
    return "".join(out)


def lex(src):
    toks, i = [], 0
    while i < len(src):
        m = TOKEN_RE.match(src, i)
        if not m:
            raise TranslateError("cannot tokenise at %r" % src[i:i + 30])
        i = m.end()
        if m.lastgroup != "ws":
            toks.append((m.lastgroup, m.group(m.lastgroup)))
    return toks


def num_value(text):
    t = text.rstrip("uUlL")
    return int(t, 16) if t.lower().startswith("0x") else int(t, 10)


ESC = {"n": 10, "t": 9, "0": 0, "\\": 92, "'": 39, '"': 34, "r": 13}


def char_value(text):
    body = text[1:-1]
    if body.startswith("\\"):
        if body[1] not in ESC or len(body) != 2:
            raise TranslateError("unsupported character literal %s" % text)
        return ESC[body[1]]
    if len(body) != 1:
        raise TranslateError("unsupported character literal %s" % text)
    return ord(body)


def string_bytes(text):
    body, out, i = text[1:-1], [], 0
    while i < len(body):
        if body[i] == "\\":
            if body[i + 1] not in ESC:
                raise TranslateError("unsupported escape in %s" % text)
            out.append(ESC[body[i + 1]])
            i += 2
        else:
            out.append(ord(body[i]))
            i += 1
    return out


class P:
    """token cursor"""

    def __init__(self, toks, what):
        self.t, self.i, self.what = toks, 0, what

    def peek(self, k=0):
        return self.t[self.i + k] if self.i + k < len(self.t) else ("eof", "")

    def at(self, *texts):
        for k, x in enumerate(texts):
            if self.peek(k)[1] != x:
                return False
        return True

    def next(self):
        tok = self.peek()
        self.i += 1
        return tok

    def eat(self, *texts):
        for x in texts:
            tok = self.next()
            if tok[1] != x:
                self.fail("expected `%s`, found `%s`" % (x, tok[1]))

    def opt(self, *texts):
        if self.at(*texts):
            self.i += len(texts)
            return True
        return False

    def ident(self):
        tok = self.next()
        if tok[0] != "id":
            self.fail("expected identifier, found `%s`" % tok[1])
        return tok[1]

    def done(self):
        return self.i >= len(self.t)

    def fail(self, msg):
        ctx = " ".join(x[1] for x in self.t[max(0, self.i - 6):self.i + 6])
        raise TranslateError("%s: %s (near `%s`)" % (self.what, msg, ctx))


# ----------------------------------------------------------------------------- C++ subset: types

INT_INFO = {"uint8_t": (8, False), "int8_t": (8, True), "uint16_t": (16, False), "int16_t": (16, True),
            "uint32_t": (32, False), "int32_t": (32, True), "uint64_t": (64, False), "int64_t": (64, True),
            "int": (32, True), "unsigned": (32, False), "char": (8, True), "size_t": (64, False), "bool": (1, False)}
BASIC_WORDS = {"unsigned", "signed", "long", "short", "int", "char", "bool", "void", "auto"}
BASIC_TABLE = {
    "int": "int", "signed": "int", "int signed": "int", "unsigned": "unsigned", "int unsigned": "unsigned",
    "char": "char", "char unsigned": "uint8_t", "char signed": "int8_t",
    "short": "int16_t", "int short": "int16_t", "short signed": "int16_t", "short unsigned": "uint16_t",
    "int short unsigned": "uint16_t",
    "long": "int64_t", "int long": "int64_t", "long signed": "int64_t", "long unsigned": "uint64_t",
    "int long unsigned": "uint64_t", "long long": "int64_t", "int long long": "int64_t",
    "long long unsigned": "uint64_t", "int long long unsigned": "uint64_t",
    "bool": "bool", "void": "void", "auto": "auto"}
STD_TYPES = set(INT_INFO) | {"string"}
CV = {"const", "volatile"}
DECL_SPEC = {"inline", "static", "constexpr", "extern", "register", "thread_local", "mutable"}
DROP_QUALIFIERS = {"std", "detail", "celma", "format"}


class Ctx:
    """what the parser must know to tell a declaration from an expression: alias and template parameter names"""

    def __init__(self):
        self.aliases = {}        # name -> (base, ptr, ref)
        self.tparams = set()

    def is_type_name(self, name):
        return name in self.aliases or name in self.tparams or (name in INT_INFO and name not in ("int", "char", "bool", "unsigned"))


def type_start(p, ctx, k=0):
    """does a type (or a declaration specifier) start at token p.i + k?"""
    kind, text = p.peek(k)
    if kind != "id" and text != "::":
        return False
    if text in CV or text in DECL_SPEC or text in BASIC_WORDS:
        return True
    if text == "::":
        return type_start(p, ctx, k + 1)
    if text == "std" and p.peek(k + 1)[1] == "::":
        return p.peek(k + 2)[1] in STD_TYPES or (p.peek(k + 2)[1] == "array" and p.peek(k + 3)[1] == "<")
    return ctx.is_type_name(text)


def parse_type(p, ctx):
    """[cv] base [cv|*|&]*  ->  (base, ptr, ref); declaration specifiers in front are returned as a set"""
    specs = set()
    words = []
    base = None
    while True:
        kind, text = p.peek()
        if text in CV or text in DECL_SPEC:
            specs.add(p.next()[1])
        elif text in BASIC_WORDS and kind == "id" and base is None:
            words.append(p.next()[1])
        elif base is None and not words and (text == "::" or kind == "id"):
            p.opt("::")
            name = p.ident()
            while p.at("::"):
                if name not in DROP_QUALIFIERS:
                    p.fail("unsupported qualified type name")
                p.eat("::")
                name = p.ident()
            if name == "array" and p.at("<"):
                # std::array< T, N>: a constant table like `T name[ N]`
                p.eat("<")
                elem, especs = parse_type(p, ctx)
                p.eat(",")
                size = parse_bin(p, ctx, 10)
                p.eat(">")
                base = ("[]", 0, False, elem, size, True)
            elif name in ctx.aliases:
                base = ctx.aliases[name]
            elif name in ctx.tparams:
                base = ("tparam:" + name, 0, False)
            elif name in STD_TYPES:
                base = (name, 0, False)
            else:
                p.fail("unknown type name `%s`" % name)
        else:
            break
    if words:
        key = " ".join(sorted(words))
        if key not in BASIC_TABLE:
            p.fail("unsupported basic type `%s`" % " ".join(words))
        base = (BASIC_TABLE[key], 0, False)
    if base is None:
        p.fail("expected a type")
    if base[0] == "[]":
        while p.peek()[1] in CV:
            p.next()
        if p.peek()[1] in ("*", "&"):
            p.fail("pointer or reference to an array")
        return base, specs
    b, ptr, ref = base
    while True:
        text = p.peek()[1]
        if text in CV:
            p.next()
        elif text == "*":
            if ref:
                p.fail("pointer to reference")
            p.next()
            ptr += 1
        elif text == "&":
            p.next()
            ref = True
        else:
            break
    return (b, ptr, ref), specs


def parse_array_suffix(p, ctx, ct):
    """`[ N]` / `[]` behind a declarator name: the declared type becomes a (one-dimensional) array of ct"""
    if not p.at("["):
        return ct
    if ct[0] == "[]" or ct[2]:
        p.fail("array of arrays / of references")
    p.eat("[")
    size = None if p.at("]") else parse_expr(p, ctx)
    p.eat("]")
    if p.at("["):
        p.fail("array with more than one dimension")
    return ("[]", 0, False, ct, size, False)


def parse_braced(p, ctx):
    """after `{` up to and including `}`: expressions and nested brace lists"""
    items = []
    if p.opt("}"):
        return items
    while True:
        if p.opt("{"):
            items.append(("list", parse_braced(p, ctx)))
        else:
            items.append(parse_expr(p, ctx))
        if p.opt("}"):
            return items
        p.eat(",")
        if p.opt("}"):          # trailing comma
            return items


def parse_initialiser(p, ctx, ct):
    """`= e` | `= { … }` | `( … )` | `{ … }` | nothing"""
    if p.opt("="):
        if p.opt("{"):
            return ("list", parse_braced(p, ctx))
        return ("expr", parse_expr(p, ctx))
    if p.opt("("):
        return ("ctor", parse_args(p, ctx, ")"))
    if p.opt("{"):
        if ct[0] == "[]":
            return ("list", parse_braced(p, ctx))
        return ("ctor", parse_args(p, ctx, "}"))
    return None


def skip_static_assert(p, ctx):
    """after `static_assert`: `( condition [, message] ) ;` -> the condition if it is in the expression subset, else
    None (a static_assert has no run-time meaning; the harness build is what proves that it holds)"""
    p.eat("(")
    depth, start = 1, p.i
    while depth:
        if p.done():
            p.fail("unterminated static_assert")
        t = p.next()[1]
        if t in ("(", "[", "{"):
            depth += 1
        elif t in (")", "]", "}"):
            depth -= 1
    inner = p.t[start:p.i - 1]
    p.eat(";")
    sub = P(inner + [("op", ",")], p.what)
    try:
        e = parse_expr(sub, ctx)
        if not sub.at(","):
            return None
        return e
    except TranslateError:
        return None


def is_int_type(ct):
    return ct[1] == 0 and ct[0] in INT_INFO


# ----------------------------------------------------------------------------- C++ subset: expressions

BINPREC = {"*": 13, "/": 13, "%": 13, "+": 12, "-": 12, "<": 9, "<=": 9, ">": 9, ">=": 9, "==": 8, "!=": 8,
           "&": 7, "^": 6, "|": 5, "&&": 4, "||": 3}
ASSIGN_OPS = {"=", "+=", "-=", "*=", "/=", "%="}
CASTS = {"static_cast", "const_cast", "reinterpret_cast"}


def num_literal(text):
    """value and C type of an integer literal"""
    body = text.rstrip("uUlL")
    suffix = text[len(body):].lower()
    v = int(body, 16) if body.lower().startswith("0x") else int(body, 10)
    if body != "0" and body[0] == "0" and not body.lower().startswith("0x"):
        raise TranslateError("octal literal %s" % text)
    uns = "u" in suffix
    lng = "l" in suffix
    if uns:
        bits = 64 if (lng or v >= 1 << 32) else 32
        signed = False
    else:
        if not lng and v < 1 << 31:
            bits, signed = 32, True
        elif v < 1 << 63:
            bits, signed = 64, True
        else:
            bits, signed = 64, False
    if v >= 1 << 64:
        raise TranslateError("integer literal %s too large" % text)
    return v, bits, signed


def parse_expr(p, ctx):
    lhs = parse_cond(p, ctx)
    if p.peek()[0] == "op" and p.peek()[1] in ASSIGN_OPS:
        op = p.next()[1]
        rhs = parse_expr(p, ctx)
        return ("asg", op, lhs, rhs)
    return lhs


def parse_cond(p, ctx):
    c = parse_bin(p, ctx, 3)
    if p.opt("?"):
        a = parse_expr(p, ctx)
        p.eat(":")
        b = parse_expr(p, ctx)
        return ("cond", c, a, b)
    return c


def parse_bin(p, ctx, minprec):
    lhs = parse_unary(p, ctx)
    while True:
        kind, op = p.peek()
        pr = BINPREC.get(op) if kind == "op" else None
        if pr is None or pr < minprec:
            return lhs
        p.next()
        rhs = parse_bin(p, ctx, pr + 1)
        lhs = ("bin", op, lhs, rhs)


def parse_unary(p, ctx):
    kind, text = p.peek()
    if kind == "op" and text in ("-", "+", "!", "~", "*", "&"):
        p.next()
        return ("un", text, parse_unary(p, ctx))
    if kind == "op" and text in ("++", "--"):
        p.next()
        return ("pre", text, parse_unary(p, ctx))
    if text == "(" and type_start(p, ctx, 1):
        # C cast
        p.eat("(")
        ct, specs = parse_type(p, ctx)
        p.eat(")")
        return ("cast", ct, parse_unary(p, ctx))
    if text == "sizeof":
        p.next()
        if p.at("(") and type_start(p, ctx, 1):
            p.eat("(")
            ct, specs = parse_type(p, ctx)
            p.eat(")")
            return ("sizeof_t", ct)
        return ("sizeof_e", parse_unary(p, ctx))
    if text in ("new", "delete", "throw", "alignof"):
        p.fail("unsupported operator `%s`" % text)
    return parse_postfix(p, ctx)


def parse_args(p, ctx, close):
    args = []
    if p.opt(close):
        return args
    while True:
        args.append(parse_expr(p, ctx))
        if p.opt(close):
            return args
        p.eat(",")


def parse_postfix(p, ctx):
    e = parse_primary(p, ctx)
    while True:
        kind, text = p.peek()
        if kind != "op":
            return e
        if text in ("++", "--"):
            p.next()
            e = ("post", text, e)
        elif text == "[":
            p.next()
            i = parse_expr(p, ctx)
            p.eat("]")
            e = ("idx", e, i)
        elif text == "(":
            p.next()
            e = ("call", e, parse_args(p, ctx, ")"))
        elif text in (".", "->"):
            p.next()
            e = ("mem", e, p.ident())
        else:
            return e


def parse_primary(p, ctx):
    kind, text = p.peek()
    if kind == "num":
        p.next()
        return ("num",) + num_literal(text)
    if kind == "chr":
        p.next()
        return ("chr", char_value(text))
    if kind == "str":
        bs = []
        while p.peek()[0] == "str":
            bs += string_bytes(p.next()[1])
        return ("str", tuple(bs))
    if text == "(":
        p.next()
        e = parse_expr(p, ctx)
        p.eat(")")
        return e
    if text in CASTS:
        p.next()
        p.eat("<")
        ct, specs = parse_type(p, ctx)
        p.eat(">", "(")
        e = parse_expr(p, ctx)
        p.eat(")")
        return ("cast", ct, e)
    if text in ("nullptr", "NULL"):
        p.next()
        return ("null",)
    if text in ("true", "false"):
        p.next()
        return ("num", 1 if text == "true" else 0, 1, False)
    if type_start(p, ctx) and text not in CV and text not in DECL_SPEC:
        ct, specs = parse_type(p, ctx)
        if p.opt("("):
            args = parse_args(p, ctx, ")")
        elif p.opt("{"):
            args = parse_args(p, ctx, "}")
        else:
            p.fail("type name in an expression")
        if is_int_type(ct) and len(args) == 1:
            return ("cast", ct, args[0])
        return ("construct", ct, args)
    if kind == "id" or text == "::":
        p.opt("::")
        name = p.ident()
        while p.at("::"):
            if name not in DROP_QUALIFIERS:
                p.fail("unsupported qualified name `%s::`" % name)
            p.eat("::")
            name = p.ident()
        if p.at("<") and name in ("min", "max"):
            p.eat("<")
            parse_type(p, ctx)
            p.eat(">")
        return ("id", name)
    p.fail("unsupported expression at `%s`" % text)


# ----------------------------------------------------------------------------- C++ subset: statements

def skip_attribute(p):
    """`[[ … ]]`; returns the attribute text"""
    p.eat("[[")
    words = []
    while not p.at("]]"):
        if p.done():
            p.fail("unterminated attribute")
        words.append(p.next()[1])
    p.eat("]]")
    return " ".join(words)


def parse_block(p, ctx):
    """after `{` up to and including `}`"""
    out = []
    while not p.opt("}"):
        if p.done():
            p.fail("unterminated block")
        out.append(parse_stmt(p, ctx))
    return out


def parse_decl_rest(p, ctx):
    """declaration statement starting at a type; single declarator"""
    ct, specs = parse_type(p, ctx)
    name = p.ident()
    ct = parse_array_suffix(p, ctx, ct)
    init = parse_initialiser(p, ctx, ct)
    if p.at(","):
        p.fail("several declarators in one declaration")
    p.eat(";")
    if "static" in specs or "thread_local" in specs or "extern" in specs:
        if not ({"const", "constexpr"} & specs):
            p.fail("mutable static local `%s`" % name)
    return ("decl", ct, name, init, bool({"const", "constexpr"} & specs))


def parse_stmt(p, ctx):
    kind, text = p.peek()
    if text == "[[":
        a = skip_attribute(p)
        if p.opt(";"):
            return ("nop",)
        if a not in ("maybe_unused", "likely", "unlikely"):
            p.fail("unsupported attribute [[%s]]" % a)
        return parse_stmt(p, ctx)
    if p.opt(";"):
        return ("nop",)
    if p.opt("{"):
        return ("block", parse_block(p, ctx))
    if p.opt("if"):
        if p.at("constexpr"):
            p.fail("if constexpr")
        p.eat("(")
        c = parse_expr(p, ctx)
        p.eat(")")
        yes = parse_stmt(p, ctx)
        no = parse_stmt(p, ctx) if p.opt("else") else None
        return ("if", c, yes, no)
    if p.opt("switch"):
        p.eat("(")
        e = parse_expr(p, ctx)
        p.eat(")", "{")
        items = []
        while not p.opt("}"):
            if p.done():
                p.fail("unterminated switch")
            if p.opt("case"):
                items.append(("case", parse_cond(p, ctx)))
                p.eat(":")
            elif p.opt("default"):
                p.eat(":")
                items.append(("default",))
            else:
                items.append(parse_stmt(p, ctx))
        return ("switch", e, items)
    if p.opt("for"):
        p.eat("(")
        if type_start(p, ctx):
            # range-for over a constant table: `for (const auto limit : Pow10)`
            save = p.i
            ct, specs = parse_type(p, ctx)
            if p.peek()[0] == "id" and p.peek(1)[1] == ":":
                name = p.ident()
                p.eat(":")
                cont = parse_expr(p, ctx)
                p.eat(")")
                return ("rangefor", ct, name, cont, parse_stmt(p, ctx))
            p.i = save
        if p.opt(";"):
            init = None
        elif type_start(p, ctx):
            init = parse_decl_rest(p, ctx)
        else:
            init = ("expr", parse_expr(p, ctx))
            p.eat(";")
        cond = None if p.at(";") else parse_expr(p, ctx)
        p.eat(";")
        incs = []
        if not p.at(")"):
            incs.append(parse_expr(p, ctx))
            while p.opt(","):
                incs.append(parse_expr(p, ctx))
        p.eat(")")
        return ("for", init, cond, incs, parse_stmt(p, ctx))
    if p.opt("while"):
        p.eat("(")
        c = parse_expr(p, ctx)
        p.eat(")")
        return ("while", c, parse_stmt(p, ctx))
    if p.opt("do"):
        body = parse_stmt(p, ctx)
        p.eat("while", "(")
        c = parse_expr(p, ctx)
        p.eat(")", ";")
        return ("dowhile", body, c)
    if p.opt("break"):
        p.eat(";")
        return ("break",)
    if p.opt("continue"):
        p.eat(";")
        return ("continue",)
    if p.opt("return"):
        if p.opt(";"):
            return ("return", None)
        if p.at("{"):
            p.fail("braced return value")
        e = parse_expr(p, ctx)
        p.eat(";")
        return ("return", e)
    if p.opt("static_assert"):
        e = skip_static_assert(p, ctx)
        return ("nop",) if e is None else ("sassert", e)
    if text in ("goto", "try", "throw", "asm", "using", "typedef", "struct", "class", "enum", "case", "default"):
        p.fail("unsupported statement `%s`" % text)
    if type_start(p, ctx):
        # `uint8_t( x)` as an expression statement does not occur; a type here starts a declaration
        return parse_decl_rest(p, ctx)
    e = parse_expr(p, ctx)
    p.eat(";")
    return ("expr", e)


# ----------------------------------------------------------------------------- C++ subset: translation units

class Func:
    def __init__(self, name, ret, params, body, local, what):
        self.name, self.ret, self.params, self.body, self.local, self.what = name, ret, params, body, local, what
        # params: list of (ctype, name or None, default expression or None)


class Unit:
    def __init__(self, what):
        self.what = what
        self.funcs = {}       # name -> [Func] (definitions only)
        self.decls = {}       # name -> [(ret, params)] (declarations without body)
        self.globals = []     # (ctype, name, init, is_const)
        self.sasserts = []    # conditions of namespace-scope static_asserts (those inside the expression subset)
        self.ctx = Ctx()

    def defs(self, name):
        return self.funcs.get(name, [])


def strip_pp(src, what):
    """drops #include, include guards and #pragma once; everything else is a shape we do not follow"""
    out, guards = [], set()
    lines = src.split("\n")
    i = 0
    while i < len(lines):
        s = lines[i].strip()
        if s.startswith("#"):
            full = s
            while full.endswith("\\") and i + 1 < len(lines):
                i += 1
                full = full[:-1] + " " + lines[i].strip()
            d = re.sub(r"^#\s*", "", full)
            m1 = re.match(r"ifndef\s+(\w+)\s*$", d)
            m2 = re.match(r"define\s+(\w+)\s*$", d)
            if re.match(r"include\b", d) or re.match(r"pragma\s+once\s*$", d) or re.match(r"endif\b", d):
                pass
            elif m1:
                guards.add(m1.group(1))
            elif m2 and m2.group(1) in guards:
                pass
            else:
                raise TranslateError("%s: preprocessor directive not understood: #%s" % (what, d[:60]))
            out.append("")
        else:
            out.append(lines[i])
        i += 1
    return "\n".join(out)


def parse_params(p, ctx):
    """after `(` up to and including `)`"""
    params = []
    if p.opt(")"):
        return params
    if p.at("void", ")"):
        p.eat("void", ")")
        return params
    while True:
        ct, specs = parse_type(p, ctx)
        name = p.ident() if p.peek()[0] == "id" else None
        default = None
        if p.opt("="):
            default = parse_cond(p, ctx)
        params.append((ct, name, default))
        if p.opt(")"):
            return params
        p.eat(",")


def parse_toplevel(p, unit, local):
    ctx = unit.ctx
    while not p.done() and not p.at("}"):
        if p.opt(";"):
            continue
        if p.opt("namespace"):
            anon = True
            while p.peek()[0] == "id":
                p.next()
                anon = False
                p.opt("::")
            p.eat("{")
            parse_toplevel(p, unit, local or anon)
            p.eat("}")
            continue
        if p.opt("using"):
            if p.at("namespace"):
                p.fail("using-directive")
            name = p.ident()
            p.eat("=")
            ct, specs = parse_type(p, ctx)
            p.eat(";")
            ctx.aliases[name] = ct
            continue
        if p.opt("typedef"):
            ct, specs = parse_type(p, ctx)
            name = p.ident()
            p.eat(";")
            ctx.aliases[name] = ct
            continue
        if p.opt("static_assert"):
            e = skip_static_assert(p, ctx)
            if e is not None:
                unit.sasserts.append(e)
            continue
        tparams = set()
        if p.opt("template"):
            p.eat("<")
            while not p.opt(">"):
                if p.opt("typename") or p.opt("class"):
                    tparams.add(p.ident())
                    if p.at("="):
                        p.fail("default template argument")
                    p.opt(",")
                else:
                    p.fail("unsupported template parameter")
        while p.at("[["):
            skip_attribute(p)
        if p.peek()[1] in ("class", "struct", "enum", "union", "extern", "template", "friend", "operator"):
            p.fail("unsupported declaration `%s`" % p.peek()[1])
        ctx.tparams = tparams
        ct, specs = parse_type(p, ctx)
        while p.at("[["):
            skip_attribute(p)
        name = p.ident()
        if name == "operator":
            p.fail("operator definition")
        if p.at("(") and (p.peek(1)[1] == ")" or type_start(p, ctx, 1)):
            p.eat("(")
            params = parse_params(p, ctx)
            while True:
                if p.opt("noexcept"):
                    if p.opt("("):
                        parse_args(p, ctx, ")")
                elif p.at("[["):
                    skip_attribute(p)
                elif p.opt("const") or p.opt("override") or p.opt("final"):
                    pass
                else:
                    break
            if p.opt("->"):
                ct, _ = parse_type(p, ctx)
            if p.opt(";"):
                unit.decls.setdefault(name, []).append((ct, params))
            elif p.opt("{"):
                body = parse_block(p, ctx)
                unit.funcs.setdefault(name, []).append(
                    Func(name, ct, params, body, local or "static" in specs, unit.what))
            else:
                p.fail("unsupported function declaration")
        else:
            if tparams:
                p.fail("variable template")
            ct = parse_array_suffix(p, ctx, ct)
            init = parse_initialiser(p, ctx, ct)
            if p.at(","):
                p.fail("several declarators in one declaration")
            p.eat(";")
            unit.globals.append((ct, name, init, bool({"const", "constexpr"} & specs)))
        ctx.tparams = set()


def parse_unit(path, what):
    text = strip_pp(strip_comments(open(path, encoding="utf-8").read()), what)
    unit = Unit(what)
    p = P(lex(text), what)
    parse_toplevel(p, unit, False)
    if not p.done():
        p.fail("unbalanced `}`")
    return unit


# ----------------------------------------------------------------------------- abstract interpreter
#
# One interpreter executes the statement subset for all four kinds of anchored functions.  Integers that do
# not depend on the converted value are computed concretely with the C++ rules (types, promotion, wrap);
# everything else is a symbolic value of a *domain* (one per kind of function), which decides what an
# operation on it means and raises TranslateError for anything it has no exact meaning for.

class BreakEx(Exception):
    pass


class ContinueEx(Exception):
    pass


class ReturnEx(Exception):
    def __init__(self, value):
        self.value = value


class NeedDecision(Exception):
    """a value-dependent condition was reached that the current decision script does not cover"""

    def __init__(self, info):
        self.info = info


class Cell:
    __slots__ = ("ct", "val", "const")

    def __init__(self, ct, val, const=False):
        self.ct, self.val, self.const = ct, val, const


def conc(bits, signed, n):
    return ("c", bits, signed, n)


def is_conc(v):
    return isinstance(v, tuple) and v and v[0] == "c"


def wrap_mod(bits, signed, n):
    """conversion to an integer type (modular)"""
    if bits == 1:
        return 1 if n != 0 else 0
    n %= 1 << bits
    if signed and n >= 1 << (bits - 1):
        n -= 1 << bits
    return n


def promote(v):
    _, bits, signed, n = v
    return v if bits >= 32 else conc(32, True, n)


def common_type(a, b):
    a, b = promote(a), promote(b)
    if a[1] == b[1]:
        return a[1], a[2] and b[2]
    big = a if a[1] > b[1] else b
    return big[1], big[2]


class Domain:
    what = "?"

    def fail(self, msg):
        raise TranslateError("%s: %s" % (self.what, msg))

    def binop(self, it, op, a, b):
        self.fail("unsupported operation `%s` on %s, %s" % (op, show(a), show(b)))

    def unop(self, it, op, a):
        self.fail("unsupported operation `%s` on %s" % (op, show(a)))

    def convert(self, it, v, ct, explicit):
        self.fail("unsupported conversion of %s to `%s`" % (show(v), show_type(ct)))

    def truth(self, it, v):
        self.fail("control flow depends on %s" % show(v))

    def store(self, it, ptr, v):
        self.fail("unsupported store of %s through %s" % (show(v), show(ptr)))

    def elem_ptr(self, it, base, idx):
        return it.binop("+", base, idx)

    def call(self, it, name, args):
        return NotImplemented

    def method(self, it, obj, name, args):
        self.fail("unsupported member call `.%s()` on %s" % (name, show(obj)))

    def construct(self, it, ct, args):
        self.fail("unsupported construction of `%s`" % show_type(ct))

    def on_assign(self, it, cell, v):
        return v


def show(v):
    if is_conc(v):
        return "the constant %d" % v[3]
    if isinstance(v, tuple) and v:
        return "<%s>" % v[0]
    return repr(v)


def show_type(ct):
    if ct[0] == "[]":
        return show_type(ct[3]) + "[]"
    return ct[0] + "*" * ct[1] + ("&" if ct[2] else "")


class Interp:
    MAX_STEPS = 200000

    def __init__(self, unit, dom, what):
        self.unit, self.dom, self.what = unit, dom, what
        dom.what = what
        self.globals = {}
        self.frames = [[{}]]
        self.steps = 0
        self.depth = 0
        for ct, name, init, is_const in unit.globals:
            if not is_const:
                self.globals[name] = Cell(ct, ("mutable-global",), False)
                continue
            self.globals[name] = self.make_cell(ct, init, True, name)
        for e in unit.sasserts:
            self.static_assert(e)

    # ---- constant tables, sizeof, static_assert
    def make_array(self, ct, init, is_const, name):
        """`const T name[ N] = { … }` / `const std::array< T, N> name = {{ … }}`: a table of constants.  Elements
        are evaluated and converted to T now; missing ones are value-initialised as in C++"""
        _, _, _, elem, size_e, is_std = ct
        if not is_const:
            self.fail("array `%s` is not const / constexpr" % name)
        if init is None or init[0] != "list":
            self.fail("array `%s`: initialiser is not a brace list" % name)
        items = init[1]
        if is_std and len(items) == 1 and items[0][0] == "list":
            items = items[0][1]
        if any(x[0] == "list" for x in items):
            self.fail("array `%s`: nested initialiser list" % name)
        if not (is_int_type(elem) or elem[1] > 0):
            self.fail("array `%s` of `%s`" % (name, show_type(elem)))
        vals = []
        for x in items:
            v = self.eval(x)
            if is_conc(v):
                if not is_int_type(elem):
                    if v[3] != 0:
                        self.fail("array `%s`: integer stored in a pointer element" % name)
                    v = ("null",)
                else:
                    v = self.convert(v, elem)
            elif v[0] == "strlit" and elem[:2] == ("char", 1):
                pass
            elif v[0] == "null" and elem[1] > 0:
                pass
            else:
                self.fail("array `%s`: element %s is not a constant" % (name, show(v)))
            vals.append(v)
        if size_e is not None:
            n = self.eval(size_e)
            if not is_conc(n) or n[3] <= 0:
                self.fail("array `%s`: size is not a positive constant" % name)
            if len(vals) > n[3]:
                self.fail("array `%s`: more initialisers than elements" % name)
            zero = ("null",) if elem[1] > 0 else self.convert(conc(32, True, 0), elem)
            vals += [zero] * (n[3] - len(vals))
        if not vals:
            self.fail("array `%s` without elements" % name)
        return Cell(ct, ("arr", elem, tuple(vals)), True)

    def size_of_type(self, ct, val=None):
        if ct[0] == "[]":
            if val is None or val[0] != "arr":
                self.fail("sizeof of an array type")
            return len(val[2]) * self.size_of_type(ct[3])
        if ct[1] > 0:
            return 8
        if ct[2] is False and is_int_type(ct):
            return max(1, INT_INFO[ct[0]][0] // 8)
        if ct[2] and is_int_type((ct[0], 0, False)):
            return max(1, INT_INFO[ct[0]][0] // 8)
        self.fail("sizeof( %s)" % show_type(ct))

    def size_of_expr(self, e):
        """sizeof of an (unevaluated) expression: a variable or an element of a constant table"""
        if e[0] == "id":
            cell = self.lookup(e[1])
            if cell.ct[0] == "auto":
                self.fail("sizeof of an `auto` variable")
            return self.size_of_type(cell.ct, cell.val)
        if (e[0] == "idx" and e[1][0] == "id") or (e[0] == "un" and e[1] == "*" and e[2][0] == "id"):
            cell = self.lookup(e[1][1] if e[0] == "idx" else e[2][1])
            if cell.ct[0] == "[]":
                return self.size_of_type(cell.ct[3])
        self.fail("sizeof of this expression")

    def static_assert(self, e):
        """evaluated where the condition is a constant the interpreter can compute: a false one means that the code
        does not compile.  It has no run-time meaning, so one that cannot be evaluated here is left to the compiler"""
        frames, steps = self.frames, self.steps
        try:
            v = self.eval(e)
        except TranslateError:
            self.frames = frames
            return
        finally:
            self.steps = steps
        if is_conc(v) and v[3] == 0:
            self.fail("a static_assert does not hold: the code does not compile")

    # ---- helpers
    def fail(self, msg):
        raise TranslateError("%s: %s" % (self.what, msg))

    def lookup(self, name):
        for scope in reversed(self.frames[-1]):
            if name in scope:
                return scope[name]
        if name in self.globals:
            return self.globals[name]
        self.fail("unknown identifier `%s`" % name)

    def declare(self, name, cell):
        scope = self.frames[-1][-1]
        if name in scope:
            self.fail("`%s` declared twice" % name)
        scope[name] = cell

    def tick(self):
        self.steps += 1
        if self.steps > self.MAX_STEPS:
            self.fail("does not terminate within %d steps" % self.MAX_STEPS)

    def convert(self, v, ct, explicit=False):
        if ct[0] == "auto" and not (ct[1] > 0 and is_conc(v)):
            return v                 # `auto` / `auto*` (the compiler rejects `auto*` for a non-pointer)
        if is_conc(v):
            if is_int_type(ct):
                bits, signed = INT_INFO[ct[0]]
                return conc(bits, signed, wrap_mod(bits, signed, v[3]))
            self.fail("constant converted to `%s`" % show_type(ct))
        return self.dom.convert(self, v, ct, explicit)

    def make_cell(self, ct, init, is_const, name):
        if ct[0] == "[]":
            return self.make_array(ct, init, is_const, name)
        if init is not None and init[0] == "list":
            if any(x[0] == "list" for x in init[1]):
                self.fail("`%s`: nested initialiser list" % name)
            init = ("ctor", init[1])
        if init is None:
            if is_const:
                self.fail("constant `%s` without initialiser" % name)
            return Cell(ct, ("uninitialised",), False)
        if init[0] == "expr":
            v = self.eval(init[1])
        else:
            args = [self.eval(a) for a in init[1]]
            if is_int_type(ct) or ct[1] > 0 or ct[0] == "auto":
                if len(args) != 1:
                    self.fail("`%s` initialised with %d values" % (name, len(args)))
                v = args[0]
            else:
                v = self.dom.construct(self, ct, args)
        v = self.convert(v, ct)
        if ct[0] == "auto" and is_conc(v):
            ct = (next(k for k, x in INT_INFO.items() if x == (v[1], v[2])), ct[1], ct[2])
        cell = Cell(ct, None, is_const)
        cell.val = self.dom.on_assign(self, cell, v)
        return cell

    def truth(self, v):
        if is_conc(v):
            return v[3] != 0
        return self.dom.truth(self, v)

    def table_elem(self, a, i):
        """element of a constant table: only for an index that is known here (a constant, a loop counter)"""
        if not is_conc(i):
            self.fail("constant table indexed with %s, which is not known" % show(i))
        if not 0 <= i[3] < len(a[2]):
            self.fail("constant table of %d elements read at index %d" % (len(a[2]), i[3]))
        return a[2][i[3]]

    # ---- concrete arithmetic
    def carith(self, op, a, b):
        if op in ("&&", "||"):
            r = (a[3] != 0 and b[3] != 0) if op == "&&" else (a[3] != 0 or b[3] != 0)
            return conc(32, True, int(r))
        bits, signed = common_type(a, b)
        x, y = wrap_mod(bits, signed, a[3]), wrap_mod(bits, signed, b[3])
        if op in ("<", "<=", ">", ">=", "==", "!="):
            r = {"<": x < y, "<=": x <= y, ">": x > y, ">=": x >= y, "==": x == y, "!=": x != y}[op]
            return conc(32, True, int(r))
        if op == "+":
            r = x + y
        elif op == "-":
            r = x - y
        elif op == "*":
            r = x * y
        elif op in ("/", "%"):
            if y == 0:
                self.fail("division by zero in a constant expression")
            q = abs(x) // abs(y)
            if (x < 0) != (y < 0):
                q = -q
            r = q if op == "/" else x - q * y
        elif op in ("&", "|", "^"):
            if x < 0 or y < 0:
                self.fail("bit operation on a negative constant")
            r = {"&": x & y, "|": x | y, "^": x ^ y}[op]
        else:
            self.fail("unsupported operator `%s`" % op)
        if signed and not -(1 << (bits - 1)) <= r < (1 << (bits - 1)):
            self.fail("signed overflow in a constant expression")
        return conc(bits, signed, wrap_mod(bits, signed, r))

    def binop(self, op, a, b):
        if is_conc(a) and is_conc(b):
            return self.carith(op, a, b)
        return self.dom.binop(self, op, a, b)

    # ---- expressions
    def lvalue(self, e):
        t = e[0]
        if t == "id":
            return ("var", self.lookup(e[1]))
        if t == "un" and e[1] == "*":
            return ("mem", self.eval(e[2]))
        if t == "idx":
            base = self.eval(e[1])
            if base[0] == "arr":
                self.fail("store into a constant table")
            return ("mem", self.dom.elem_ptr(self, base, self.eval(e[2])))
        self.fail("unsupported assignment target")

    def read(self, cell):
        if cell.val[0] in ("mutable-global", "uninitialised", "dead"):
            self.fail("read of a %s variable" % cell.val[0])
        return cell.val

    def assign(self, cell, v):
        if cell.const:
            self.fail("assignment to a constant")
        if cell.val is not None and cell.val[0] == "mutable-global":
            self.fail("assignment to a global variable")
        v = self.convert(v, cell.ct)
        cell.val = self.dom.on_assign(self, cell, v)
        return cell.val

    def eval(self, e):
        self.tick()
        t = e[0]
        if t == "num":
            return conc(e[2], e[3], e[1])
        if t == "chr":
            return conc(8, True, wrap_mod(8, True, e[1]))
        if t == "str":
            return ("strlit", e[1])
        if t == "null":
            return ("null",)
        if t == "id":
            return self.read(self.lookup(e[1]))
        if t == "un":
            op = e[1]
            if op == "&":
                x = e[2]
                if x[0] == "idx":
                    base = self.eval(x[1])
                    if base[0] == "arr":
                        self.fail("address of an element of a constant table")
                    return self.dom.elem_ptr(self, base, self.eval(x[2]))
                if x[0] == "un" and x[1] == "*":
                    return self.eval(x[2])
                self.fail("unsupported address-of")
            if op == "*":
                self.fail("read through a pointer")
            v = self.eval(e[2])
            if is_conc(v):
                if op == "!":
                    return conc(32, True, int(v[3] == 0))
                p = promote(v)
                if op == "+":
                    return p
                if op == "-":
                    if p[2] and p[3] == -(1 << (p[1] - 1)):
                        self.fail("signed overflow in a constant expression")
                    return conc(p[1], p[2], wrap_mod(p[1], p[2], -p[3]))
                self.fail("unsupported operator `%s`" % op)
            return self.dom.unop(self, op, v)
        if t in ("pre", "post"):
            kind, cell = self.lvalue(e[2])
            if kind != "var":
                self.fail("increment of something that is not a variable")
            old = self.read(cell)
            new = self.assign(cell, self.binop("+" if e[1] == "++" else "-", old, conc(32, True, 1)))
            return new if t == "pre" else old
        if t == "bin":
            op = e[1]
            if op in ("&&", "||"):
                a = self.truth(self.eval(e[2]))
                if (op == "&&") != a:
                    return conc(32, True, int(a))
                return conc(32, True, int(self.truth(self.eval(e[3]))))
            a = self.eval(e[2])
            b = self.eval(e[3])
            return self.binop(op, a, b)
        if t == "asg":
            op = e[1]
            rhs = self.eval(e[3])
            kind, target = self.lvalue(e[2])
            if kind == "var":
                if op != "=":
                    rhs = self.binop(op[:-1], self.read(target), rhs)
                return self.assign(target, rhs)
            if op != "=":
                self.fail("compound assignment through a pointer")
            self.dom.store(self, target, rhs)
            return rhs
        if t == "cond":
            return self.eval(e[2]) if self.truth(self.eval(e[1])) else self.eval(e[3])
        if t == "cast":
            return self.convert(self.eval(e[2]), e[1], True)
        if t == "construct":
            return self.dom.construct(self, e[1], [self.eval(a) for a in e[2]])
        if t == "idx":
            a = self.eval(e[1])
            i = self.eval(e[2])
            if a[0] == "strlit" and is_conc(i) and 0 <= i[3] < len(a[1]):
                return conc(8, True, wrap_mod(8, True, a[1][i[3]]))
            if a[0] == "arr":
                return self.table_elem(a, i)
            self.fail("read through a pointer")
        if t == "call":
            callee = e[1]
            if callee[0] == "mem":
                obj = self.eval(callee[1])
                if obj[0] == "arr":
                    if callee[2] == "size" and not e[2]:
                        return conc(64, False, len(obj[2]))
                    if callee[2] == "at" and len(e[2]) == 1:
                        return self.table_elem(obj, self.eval(e[2][0]))
                    self.fail("member `.%s()` of a constant table" % callee[2])
                return self.dom.method(self, obj, callee[2], [self.eval(a) for a in e[2]])
            if callee[0] != "id":
                self.fail("call through an expression")
            return self.call(callee[1], e[2])
        if t == "mem":
            self.fail("member access `.%s`" % e[2])
        if t == "sizeof_t":
            return conc(64, False, self.size_of_type(e[1]))
        if t == "sizeof_e":
            return conc(64, False, self.size_of_expr(e[1]))
        self.fail("unsupported expression `%s`" % t)

    def call(self, name, args):
        if name == "size" and len(args) == 1 and args[0][0] == "id" and not self.unit.defs("size"):
            cell = self.lookup(args[0][1])          # std::size( table)
            if cell.ct[0] == "[]":
                return conc(64, False, len(cell.val[2]))
        r = self.dom.call(self, name, args)
        if r is not NotImplemented:
            return r
        if name in ("min", "max") and len(args) == 2:
            a, b = self.eval(args[0]), self.eval(args[1])
            if is_conc(a) and is_conc(b) and (a[1], a[2]) == (b[1], b[2]):
                return (a if a[3] <= b[3] else b) if name == "min" else (a if a[3] >= b[3] else b)
            self.fail("std::%s on values that are not constants of one type" % name)
        cands = [f for f in self.unit.defs(name) if len(f.params) >= len(args)
                 and all(d is not None for _, _, d in f.params[len(args):])]
        if len(cands) != 1:
            self.fail("call of `%s`: %s" % (name, "ambiguous" if cands else "no definition in this file"))
        return self.inline(cands[0], args)

    def inline(self, fn, args):
        """executes the body of a function of the same file with the arguments bound (by value / by reference)"""
        if self.depth > 8:
            self.fail("recursion in `%s`" % fn.name)
        scope = {}
        for i, (ct, pname, default) in enumerate(fn.params):
            if i < len(args):
                if ct[2] and args[i][0] == "id":
                    cell = self.lookup(args[i][1])
                    if (cell.ct[0], cell.ct[1]) != (ct[0], ct[1]) and cell.ct[0] != "auto":
                        self.fail("reference parameter of `%s` bound to another type" % fn.name)
                else:
                    if ct[2]:
                        self.fail("reference parameter of `%s` bound to a temporary" % fn.name)
                    cell = Cell((ct[0], ct[1], False), None)
                    cell.val = self.dom.on_assign(self, cell, self.convert(self.eval(args[i]), cell.ct))
            else:
                self.frames.append([{}])
                try:
                    v = self.eval(default)
                finally:
                    self.frames.pop()
                cell = Cell((ct[0], ct[1], False), None)
                cell.val = self.dom.on_assign(self, cell, self.convert(v, cell.ct))
            if pname is not None:
                if pname in scope:
                    self.fail("duplicate parameter name")
                scope[pname] = cell
        self.frames.append([scope])
        self.depth += 1
        try:
            self.exec_list(fn.body)
            result = None
        except ReturnEx as r:
            result = r.value
        except (BreakEx, ContinueEx):
            self.fail("break/continue outside a loop")
        finally:
            self.depth -= 1
            self.frames.pop()
        if fn.ret == ("void", 0, False):
            if result is not None:
                self.fail("void function `%s` returns a value" % fn.name)
            return ("void",)
        if result is None:
            self.fail("a path of `%s` reaches the end of the function without `return`" % fn.name)
        return self.convert(result, fn.ret)

    # ---- statements
    def exec_list(self, stmts):
        for s in stmts:
            self.exec(s)

    def exec_scoped(self, stmts):
        self.frames[-1].append({})
        try:
            self.exec_list(stmts)
        finally:
            self.frames[-1].pop()

    def exec(self, s):
        self.tick()
        t = s[0]
        if t == "nop":
            return
        if t == "expr":
            self.eval(s[1])
        elif t == "sassert":
            self.static_assert(s[1])
        elif t == "decl":
            _, ct, name, init, is_const = s
            if ct[2]:
                self.fail("local reference `%s`" % name)
            self.declare(name, self.make_cell(ct, init, is_const, name))
        elif t == "block":
            self.exec_scoped(s[1])
        elif t == "if":
            if self.truth(self.eval(s[1])):
                self.exec_scoped([s[2]])
            elif s[3] is not None:
                self.exec_scoped([s[3]])
        elif t == "return":
            raise ReturnEx(None if s[1] is None else self.eval(s[1]))
        elif t == "break":
            raise BreakEx()
        elif t == "continue":
            raise ContinueEx()
        elif t == "switch":
            sel = self.eval(s[1])
            if not is_conc(sel):
                self.dom.truth(self, sel)
                self.fail("switch on a value that is not known")
            items = s[2]
            start = None
            seen = set()
            for i, it in enumerate(items):
                if it[0] == "case":
                    lab = self.eval(it[1])
                    if not is_conc(lab):
                        self.fail("case label is not a constant")
                    if lab[3] in seen:
                        self.fail("duplicate case label %d" % lab[3])
                    seen.add(lab[3])
                    if start is None and self.carith("==", sel, lab)[3]:
                        start = i
            if start is None:
                defaults = [i for i, it in enumerate(items) if it[0] == "default"]
                if len(defaults) > 1:
                    self.fail("two default labels")
                start = defaults[0] if defaults else None
            if start is not None:
                self.frames[-1].append({})
                try:
                    self.exec_list([it for it in items[start:] if it[0] not in ("case", "default")])
                except BreakEx:
                    pass
                finally:
                    self.frames[-1].pop()
        elif t == "rangefor":
            _, ct, name, cont, body = s
            tbl = self.eval(cont)
            if tbl[0] != "arr":
                self.fail("range-for over something that is not a constant table")
            if ct[1] > 0 and ct[0] != "auto":
                self.fail("range-for variable of pointer type")
            try:
                for v in tbl[2]:
                    self.tick()
                    self.frames[-1].append({})
                    try:
                        # by value or by (const) reference: the element is a constant either way
                        ect = (ct[0], ct[1], False)
                        cell = Cell(ect if ct[0] != "auto" else tbl[1], None, True)
                        cell.val = self.convert(v, ect)
                        self.declare(name, cell)
                        try:
                            self.exec_scoped([body])
                        except ContinueEx:
                            pass
                    finally:
                        self.frames[-1].pop()
            except BreakEx:
                pass
        elif t in ("while", "for", "dowhile"):
            self.frames[-1].append({})
            try:
                if t == "for":
                    _, init, cond, incs, body = s
                    if init is not None:
                        self.exec(init)
                elif t == "while":
                    cond, incs, body = s[1], [], s[2]
                else:
                    cond, incs, body = s[2], [], s[1]
                first = t == "dowhile"
                while True:
                    self.tick()
                    if not first and cond is not None and not self.truth(self.eval(cond)):
                        break
                    first = False
                    try:
                        self.exec_scoped([body])
                    except ContinueEx:
                        pass
                    for inc in incs:
                        self.eval(inc)
            except BreakEx:
                pass
            finally:
                self.frames[-1].pop()
        else:
            self.fail("unsupported statement `%s`" % t)


def bind_params(it, fn, values):
    """a fresh frame with the parameters of the analysed function bound to the given abstract values"""
    scope = {}
    for (ct, pname, default), v in zip(fn.params, values):
        if pname is not None:
            if pname in scope:
                it.fail("duplicate parameter name")
            scope[pname] = Cell((ct[0], ct[1], False), v)
    it.frames = [[scope]]


def run_function(it, fn, values):
    bind_params(it, fn, values)
    try:
        it.exec_list(fn.body)
    except ReturnEx as r:
        return r.value
    except (BreakEx, ContinueEx):
        it.fail("break/continue outside a loop")
    return None


def one_def(unit, name, what, pred=None):
    fs = [f for f in unit.defs(name) if pred is None or pred(f)]
    if len(fs) != 1:
        raise TranslateError("%s: %s" % (what, "function not found" if not fs else "function defined more than once"))
    return fs[0]


def uint_bits(ct):
    """N for the unsigned fixed-width types, None otherwise"""
    if is_int_type(ct) and not INT_INFO[ct[0]][1] and INT_INFO[ct[0]][0] >= 8:
        return INT_INFO[ct[0]][0]
    return None


# ----------------------------------------------------------------------------- intN_str_length: decision trees

class LenDomain(Domain):
    """the argument after its conversion to uintK_t is `sym d` (= argument / d); a comparison of it with a
    constant is a decision `argument >= thr`; decisions are taken from a script (path enumeration), decided
    ones (by the interval of the path) are not asked for"""

    def __init__(self, script, shared):
        self.script, self.used, self.shared = script, 0, shared
        self.lo, self.hi = 0, None

    def convert(self, it, v, ct, explicit):
        if v[0] == "tparam":
            k = uint_bits(ct)
            if k is None:
                self.fail("the argument is converted to `%s`, not to an unsigned fixed-width type" % show_type(ct))
            if self.shared.setdefault("cast", k) != k:
                self.fail("the argument is converted to types of different widths")
            self.hi = 1 << k if self.hi is None else self.hi
            return ("sym", 1)
        if v[0] == "sym":
            k = uint_bits(ct)
            if k is not None and k >= self.shared["cast"]:
                return v
        if v[0] == "cmp" and is_int_type(ct):
            return conc(32, True, int(self.truth(it, v)))
        return Domain.convert(self, it, v, ct, explicit)

    def binop(self, it, op, a, b):
        if a[0] == "cmp" or b[0] == "cmp":
            a = conc(32, True, int(self.truth(it, a))) if a[0] == "cmp" else a
            b = conc(32, True, int(self.truth(it, b))) if b[0] == "cmp" else b
            return it.binop(op, a, b)
        flip = {"<": ">", "<=": ">=", ">": "<", ">=": "<="}
        if is_conc(a) and b[0] == "sym" and op in flip:
            a, b, op = b, a, flip[op]
        if a[0] == "sym" and is_conc(b):
            k = b[3]
            if k < 0:
                self.fail("comparison/division of the value with a negative constant")
            d = a[1]
            if op == "/":
                if k == 0:
                    self.fail("division by zero")
                return ("sym", d * k)
            # (arg / d) OP k  as  arg >= thr, possibly negated
            if op == ">=":
                return ("cmp", k * d, False)
            if op == ">":
                return ("cmp", (k + 1) * d, False)
            if op == "<":
                return ("cmp", k * d, True)
            if op == "<=":
                return ("cmp", (k + 1) * d, True)
        return Domain.binop(self, it, op, a, b)

    def unop(self, it, op, a):
        if op == "!" and a[0] == "cmp":
            return ("cmp", a[1], not a[2])
        if op == "!" and a[0] == "sym":
            return ("cmp", a[1], True)
        return Domain.unop(self, it, op, a)

    def truth(self, it, v):
        if v[0] == "sym":
            v = ("cmp", v[1], False)
        if v[0] != "cmp":
            return Domain.truth(self, it, v)
        _, thr, neg = v
        if thr <= self.lo:
            ge = True
        elif thr >= self.hi:
            ge = False
        else:
            if self.used >= len(self.script):
                raise NeedDecision(thr)
            ge = self.script[self.used]
            self.used += 1
            if ge:
                self.lo = thr
            else:
                self.hi = thr
        return ge != neg


def parse_str_length(repo, n):
    rel = "src/celma/format/detail/int%d_str_length.hpp" % n
    what = "int%d_str_length.hpp" % n
    unit = parse_unit(os.path.join(repo, rel), what)
    fn = one_def(unit, "int%d_str_length" % n, what)
    if len(fn.params) != 1 or not fn.params[0][0][0].startswith("tparam:") or fn.params[0][0][1:] != (0, False):
        raise TranslateError("%s: unexpected parameters" % what)
    if fn.ret != ("uint8_t", 0, False):
        raise TranslateError("%s: does not return uint8_t" % what)
    shared = {}
    count = [0]

    def explore(prefix):
        count[0] += 1
        if count[0] > 2000 or len(prefix) > 200:
            raise TranslateError("%s: decision tree too large" % what)
        dom = LenDomain(prefix, shared)
        it = Interp(unit, dom, what)
        try:
            r = run_function(it, fn, [("tparam",)])
        except NeedDecision as nd:
            return ("node", nd.info, explore(prefix + [True]), explore(prefix + [False]))
        if r is None:
            raise TranslateError("%s: a path reaches the end of the function without `return`" % what)
        if not is_conc(r):
            r = it.convert(r, ("uint8_t", 0, False))
        return ("leaf", wrap_mod(8, False, r[3]))

    tree = explore([])
    if "cast" not in shared:
        raise TranslateError("%s: the argument is never converted to an unsigned type" % what)
    return {"tree": tree, "cast": shared["cast"]}


def tree_leaves(t):
    return [t[1]] if t[0] == "leaf" else tree_leaves(t[2]) + tree_leaves(t[3])


# ----------------------------------------------------------------------------- the four callers of a .cpp

LIT0 = ("lit", 0)


def e_bin(op, a, b):
    if a[0] == "lit" and b[0] == "lit" and op in ("add", "sub", "mul"):
        return ("lit", {"add": a[1] + b[1], "sub": a[1] - b[1], "mul": a[1] * b[1]}[op])
    if op == "add" and a == LIT0:
        return b
    if op in ("add", "sub") and b == LIT0:
        return a
    return (op, a, b)


class CallerDomain(Domain):
    """roles instead of names: the value parameter, its negation, the digit count (result of intN_str_length),
    integer expressions over it, the one expression truncated to uint8_t, the result string, pointers into the
    string / the caller's buffer with an offset expression"""

    def __init__(self, unit, is_buf, has_group_param):
        self.unit, self.is_buf = unit, is_buf
        self.c = {"neg": None, "len_fn": None, "len_abs": False, "glen": None, "str": None, "end": None, "nul": None,
                  "conv_abs": False, "sign": None, "ret": None, "converter": None}
        self.converted = False
        self.param_ct = None

    # -- values
    def lin(self, v):
        if is_conc(v):
            return ("lit", v[3])
        if v[0] == "lin":
            return v[1]
        return None

    def norm(self, v):
        """an `abs` value that has not been given a name yet is registered here"""
        if v[0] == "absval":
            spec = (v[1], v[2], v[3])
            if self.c["neg"] is not None and self.c["neg"] != spec:
                self.fail("two different negations of the value")
            if self.c["len_fn"] is not None and self.c["neg"] is None:
                self.fail("the value is negated after the length was taken")
            self.c["neg"] = spec
            return ("abs",)
        if v[0] == "lin8":
            if self.c["glen"] is not None:
                self.fail("a second expression is truncated to uint8_t")
            if "glen" in repr(v[1]):
                self.fail("grouped length defined by itself")
            self.c["glen"] = v[1]
            return ("lin", ("glen",))
        return v

    def on_assign(self, it, cell, v):
        return self.norm(v)

    def binop(self, it, op, a, b):
        la, lb = self.lin(a), self.lin(b)
        names = {"+": "add", "-": "sub", "*": "mul", "/": "div"}
        if la is not None and lb is not None and op in names:
            if op == "/" and (lb[0] != "lit" or lb[1] == 0):
                self.fail("division by something that is not a non-zero constant")
            return ("lin", e_bin(names[op], la, lb))
        for ptr, off, swapped in ((a, lb, False), (b, la, True)):
            if ptr[0] in ("sptr", "bptr", "cptr") and off is not None and (op == "+" or (op == "-" and not swapped)):
                return (ptr[0], e_bin("add" if op == "+" else "sub", ptr[1], off))
        return Domain.binop(self, it, op, a, b)

    def unop(self, it, op, a):
        if op == "-":
            if a[0] == "param":
                return ("neg", "inSigned", 0)
            if a[0] == "ucast":
                return ("neg", "inUnsigned", a[1])
            if self.lin(a) is not None:
                return ("lin", e_bin("sub", LIT0, self.lin(a)))
        return Domain.unop(self, it, op, a)

    def convert(self, it, v, ct, explicit):
        t = v[0]
        pbits, psigned = INT_INFO[self.param_ct[0]]
        if t == "param":
            if is_int_type(ct) and INT_INFO[ct[0]] == (pbits, psigned):
                return v
            k = uint_bits(ct)
            if k is not None:
                return ("ucast", k)
        elif t == "ucast":
            if uint_bits(ct) == v[1]:
                return v
        elif t == "neg":
            k = uint_bits(ct)
            if k is not None:
                return ("absval", v[1], v[2], k)
        elif t in ("absval", "abs"):
            k = uint_bits(ct)
            if t == "absval" and k == v[3]:
                return v
            if t == "abs" and self.c["neg"] is not None and k == self.c["neg"][2]:
                return v
        elif t == "lin":
            e = v[1]
            atom = e[0] in ("len", "glen") or (e[0] == "lit" and 0 <= e[1] <= 255)
            if is_int_type(ct):
                bits, signed = INT_INFO[ct[0]]
                if atom and bits >= 8 and not (bits == 8 and signed):
                    return v
                if (bits, signed) == (32, True):
                    return v
                if (bits, signed) == (8, False):
                    return ("lin8", e)
        elif t == "lin8":
            if ct == ("uint8_t", 0, False):
                return v
        elif t in ("sptr", "bptr"):
            if ct[0] == "char" and ct[1] == 1:
                return v
        elif t == "cptr":
            if ct[0] == "char" and ct[1] == 1:
                return ("sptr", v[1]) if explicit else v
        elif t == "strobj":
            if ct == ("string", 0, False):
                return v
        elif t == "grp":
            if ct == ("char", 0, False):
                return v
        return Domain.convert(self, it, v, ct, explicit)

    def elem_ptr(self, it, base, idx):
        if base[0] == "strobj":
            off = self.lin(idx)
            if off is None:
                self.fail("index into the result string is not an integer expression")
            return ("sptr", off)
        return it.binop("+", base, idx)

    def construct(self, it, ct, args):
        if ct != ("string", 0, False) or self.is_buf:
            self.fail("unexpected construction of `%s`" % show_type(ct))
        if len(args) != 2 or self.lin(args[0]) is None or not is_conc(args[1]) or args[1][1] != 8:
            self.fail("the result string is not built as string( size, character)")
        if self.c["str"] is not None:
            self.fail("two result strings")
        if self.c["len_fn"] is None:
            self.fail("result string before the length is known")
        self.c["str"] = (self.lin(args[0]), args[1][3] % 256)
        return ("strobj",)

    def method(self, it, obj, name, args):
        if obj[0] == "strobj" and not args:
            if name == "c_str":
                return ("cptr", LIT0)
            if name == "data":
                return ("sptr", LIT0)
            if name in ("size", "length"):
                return ("lin", self.c["str"][0])
        return Domain.method(self, it, obj, name, args)

    def store(self, it, ptr, v):
        if ptr[0] != "bptr" or not is_conc(v) or v[1] != 8:
            return Domain.store(self, it, ptr, v)
        key = "sign" if self.converted else "nul"
        if self.c[key] is not None:
            self.fail("more than one store %s the conversion call" % ("after" if self.converted else "before"))
        self.c[key] = (ptr[1], v[3] % 256)

    def call(self, it, name, args):
        m = re.fullmatch(r"int(8|16|32|64)_str_length", name)
        if m:
            if len(args) != 1 or self.c["len_fn"] is not None:
                self.fail("unexpected use of the length function")
            v = self.norm(it.eval(args[0]))
            if v[0] not in ("param", "abs"):
                self.fail("unexpected argument of the length function: %s" % show(v))
            self.c["len_fn"] = int(m.group(1))
            self.c["len_abs"] = v[0] == "abs"
            return ("lin", ("len",))
        cands = [f for f in self.unit.defs(name) if f.local and f.ret == ("void", 0, False) and f.params
                 and f.params[0][0] == ("char", 1, False) and len(f.params) == len(args)]
        if cands:
            if len(cands) != 1:
                self.fail("conversion function `%s` is overloaded" % name)
            fn = cands[0]
            if self.converted:
                self.fail("the conversion function is called twice")
            if len(args) not in (3, 4):
                self.fail("unexpected number of arguments of the conversion function")
            vals = [self.norm(it.eval(a)) for a in args]
            want = "bptr" if self.is_buf else "sptr"
            if vals[0][0] != want:
                self.fail("first argument of the conversion function is %s" % show(vals[0]))
            if vals[1][0] not in ("param", "abs"):
                self.fail("unexpected value argument of the conversion function: %s" % show(vals[1]))
            if vals[2] != ("lin", ("len",)):
                self.fail("third argument of the conversion function is not the digit count")
            if len(args) == 4 and vals[3] != ("grp",):
                self.fail("fourth argument of the conversion function is not the group character")
            self.c["end"] = vals[0][1]
            self.c["conv_abs"] = vals[1][0] == "abs"
            self.c["converter"] = fn
            self.converted = True
            return ("void",)
        return NotImplemented


def parse_caller(unit, what, fname, is_buf):
    fwhat = "%s %s" % (what, fname)
    fn = one_def(unit, fname, fwhat, lambda f: (bool(f.params) and f.params[0][0] == ("char", 1, False)) == is_buf)
    want_ret = ("int", 0, False) if is_buf else ("string", 0, False)
    if fn.ret != want_ret:
        raise TranslateError("%s: unexpected return type" % fwhat)
    ps = fn.params[1:] if is_buf else fn.params
    if not ps or not is_int_type(ps[0][0]) or INT_INFO[ps[0][0][0]][0] not in WIDTHS or ps[0][0][0] in ("int", "unsigned", "size_t"):
        raise TranslateError("%s: unexpected value parameter" % fwhat)
    if len(ps) > 2 or (len(ps) == 2 and ps[1][0] != ("char", 0, False)):
        raise TranslateError("%s: unexpected parameters" % fwhat)
    dom = CallerDomain(unit, is_buf, len(ps) == 2)
    dom.param_ct = ps[0][0]
    it = Interp(unit, dom, fwhat)
    values = ([("bptr", LIT0)] if is_buf else []) + [("param",)] + ([("grp",)] if len(ps) == 2 else [])
    r = run_function(it, fn, values)
    c = dom.c
    if r is None:
        raise TranslateError("%s: no return statement" % fwhat)
    if not dom.converted:
        raise TranslateError("%s: return before the conversion function is called" % fwhat)
    if is_buf:
        e = dom.lin(r)
        if e is None:
            raise TranslateError("%s: the return value is not an integer expression" % fwhat)
        c["ret"] = e
    else:
        if r != ("strobj",):
            raise TranslateError("%s: does not return the result string" % fwhat)
        c["ret"] = LIT0
    if c["len_fn"] is None:
        raise TranslateError("%s: the length function is not called" % fwhat)
    c["pbits"], c["psigned"] = INT_INFO[ps[0][0][0]]
    return c


# ----------------------------------------------------------------------------- the conversion function

class ConvertDomain(Domain):
    """executed once per digit count k: `result_len` is the constant k, every integer that does not depend on
    the value is computed, `buffer` is the position relative to its start value, `value` is the sequence of
    its divisors; what remains is the trace of stores and divisions"""

    def __init__(self, conv_bits):
        self.bits = conv_bits
        self.trace = []
        self.divs = ()
        self.pos = 0
        self.last_store = None

    def binop(self, it, op, a, b):
        if a[0] == "buf" and is_conc(b) and op in ("+", "-"):
            return ("buf", a[1] + (b[3] if op == "+" else -b[3]))
        if b[0] == "buf" and is_conc(a) and op == "+":
            return ("buf", b[1] + a[3])
        if a[0] == "val" and is_conc(b) and op in ("/", "%"):
            if b[3] < 0:
                self.fail("division of the value by a negative constant")
            return ("val", a[1] + (b[3],)) if op == "/" else ("valmod", a[1], b[3])
        if op == "+":
            for x, y in ((a, b), (b, a)):
                if is_conc(x) and y[0] in ("val", "valmod"):
                    return ("digit", x[3], y[2] if y[0] == "valmod" else None, y[1])
        if a[0] in ("val", "valmod") or b[0] in ("val", "valmod"):
            self.fail("unsupported operation `%s` on the value (control flow and arithmetic must not depend on it)" % op)
        return Domain.binop(self, it, op, a, b)

    def convert(self, it, v, ct, explicit):
        t = v[0]
        if t == "buf" and ct[0] == "char" and ct[1] == 1:
            return v
        if t == "val":
            k = uint_bits(ct)
            if k is not None and k >= self.bits:
                return v
        if t == "valmod" and is_int_type(ct) and INT_INFO[ct[0]][0] >= 8 and v[2] <= 128:
            return v
        if t == "digit" and is_int_type(ct) and INT_INFO[ct[0]][0] >= 8:
            return v
        if t == "grp" and ct == ("char", 0, False):
            return v
        return Domain.convert(self, it, v, ct, explicit)

    def truth(self, it, v):
        if v[0] in ("val", "valmod", "digit"):
            self.fail("control flow depends on the value being converted")
        return Domain.truth(self, it, v)

    def on_assign(self, it, cell, v):
        if v[0] == "val":
            d = v[1]
            if d[:len(self.divs)] != self.divs:
                self.fail("the value is not divided step by step")
            for x in d[len(self.divs):]:
                self.trace.append(["div", x])
            self.divs = d
        return v

    def store(self, it, ptr, v):
        if ptr[0] != "buf":
            return Domain.store(self, it, ptr, v)
        if v[0] == "digit":
            if v[3] != self.divs:
                self.fail("a digit is taken from a stale copy of the value")
            op = ["emit", v[1], v[2], False]
        elif v[0] == "grp":
            op = ["group", False]
        else:
            return Domain.store(self, it, ptr, v)
        pos = -ptr[1]
        if pos == self.pos + 1 and self.last_store is not None:
            self.last_store[-1] = True        # the pointer was decremented after the previous store
            self.pos = pos
        elif pos != self.pos:
            self.fail("stores are not at consecutive descending positions starting at buffer_end")
        self.trace.append(op)
        self.last_store = op


def convert_trace(unit, fn, what, conv_bits, k, group_param):
    dom = ConvertDomain(conv_bits)
    it = Interp(unit, dom, "%s %s() with %d digits" % (what, fn.name, k))
    lb, ls = INT_INFO[fn.params[2][0][0]]
    values = [("buf", 0), ("val", ()), conc(lb, ls, k)] + ([("grp",)] if group_param else [])
    r = run_function(it, fn, values)
    if r is not None:
        it.fail("returns a value")
    return tuple(tuple(op) for op in dom.trace)


def parse_convert(unit, fn, what, leaves):
    ps = fn.params
    if len(ps) not in (3, 4) or ps[0][0] != ("char", 1, False):
        raise TranslateError("%s: %s() has unexpected parameters" % (what, fn.name))
    bits = uint_bits(ps[1][0])
    if bits is None or ps[1][0][0] == "size_t":
        raise TranslateError("%s: %s() does not take an unsigned fixed-width value" % (what, fn.name))
    lt = ps[2][0]
    if not is_int_type(lt) or INT_INFO[lt[0]][0] < 8 or INT_INFO[lt[0]] == (8, True):
        raise TranslateError("%s: %s() has an unexpected digit count parameter" % (what, fn.name))
    has_group = len(ps) == 4
    if has_group and ps[3][0] != ("char", 0, False):
        raise TranslateError("%s: %s() has an unexpected 4th parameter" % (what, fn.name))
    domain = sorted(set(leaves))
    if any(not 0 <= k <= 255 for k in domain):
        raise TranslateError("%s: the length function returns a value outside uint8_t" % what)
    traces = {k: convert_trace(unit, fn, what, bits, k, has_group) for k in range(256)}
    outside = [traces[k] for k in range(256) if k not in domain]
    exact = len(set(outside)) == 1
    default = outside[0] if exact else None
    explicit = [k for k in reversed(domain) if traces[k] != default]
    seq = [(k, traces[k]) for k in explicit] + ([(None, default)] if exact else [])
    rows = []
    for i, (label, tr) in enumerate(seq):
        nxt = seq[i + 1][1] if i + 1 < len(seq) else ()
        if len(tr) >= len(nxt) and tr[len(tr) - len(nxt):] == nxt:
            rows.append({"label": label, "ops": list(tr[:len(tr) - len(nxt)]), "fall": True})
        else:
            rows.append({"label": label, "ops": list(tr), "fall": False})
    return {"bits": bits, "has_group": has_group, "nd_init": 0, "rows": rows, "exact_outside": exact, "name": fn.name}


def merged_unit(repo, rel_hpp, rel_cpp):
    """the detail header and its .cpp as one unit: a function may live in either of them (a name defined in
    both is an error where it is looked up)"""
    a = parse_unit(os.path.join(repo, rel_hpp), os.path.basename(rel_hpp))
    b = parse_unit(os.path.join(repo, rel_cpp), os.path.basename(rel_cpp))
    u = Unit(os.path.basename(rel_cpp))
    for x in (a, b):
        for name, fs in x.funcs.items():
            u.funcs.setdefault(name, []).extend(fs)
        for name, ds in x.decls.items():
            u.decls.setdefault(name, []).extend(ds)
        for g in x.globals:
            if any(g[1] == h[1] for h in u.globals):
                raise TranslateError("%s: `%s` is defined in the header and in the .cpp" % (u.what, g[1]))
            u.globals.append(g)
        u.ctx.aliases.update(x.ctx.aliases)
    return u


def parse_cpp(repo, n, grouped, trees):
    rel = "src/library/format/detail/%sint%d_to_string.cpp" % ("grouped_" if grouped else "", n)
    rel_hpp = "src/celma/format/detail/%sint%d_to_string.hpp" % ("grouped_" if grouped else "", n)
    what = os.path.basename(rel)
    unit = merged_unit(repo, rel_hpp, rel)
    uname = ("groupedUint%dtoString" if grouped else "uint%dtoString") % n
    nname = ("groupedInt%dnegToString" if grouped else "int%dnegToString") % n
    callers = {
        "ustr": parse_caller(unit, what, uname, False),
        "nstr": parse_caller(unit, what, nname, False),
        "ubuf": parse_caller(unit, what, uname, True),
        "nbuf": parse_caller(unit, what, nname, True),
    }
    lens = set(c["len_fn"] for c in callers.values())
    if len(lens) != 1:
        raise TranslateError("%s: the callers use different length functions %r" % (what, lens))
    convs = set(id(c["converter"]) for c in callers.values())
    if len(convs) != 1:
        raise TranslateError("%s: the callers use different conversion functions" % what)
    len_fn = lens.pop()
    if len_fn not in trees:
        raise TranslateError("%s: unknown length function" % what)
    conv = parse_convert(unit, callers["ustr"]["converter"], what, tree_leaves(trees[len_fn]["tree"]))
    # the literal reading (statements as written, counter left to the Lean interpreter); only when the function
    # the callers call is the one the literal reader finds, and it takes the same parameters
    lit, why = int2str_literal.read_literal(os.path.join(repo, rel), what)
    if lit is not None and conv["name"] != "convert":
        lit, why = None, "the conversion function is not called convert()"
    conv["literal"], conv["literal_why"] = lit, why
    return {"rel": rel, "conv": conv, "callers": callers, "len_fn": len_fn, "uname": uname, "nname": nname, "unit": unit}


# ----------------------------------------------------------------------------- dispatch headers

COND = {"<": "lt0", "<=": "le0", "==": "eq0", "!=": "ne0", ">=": "ge0", ">": "gt0"}
COND_FLIP = {"<": ">", "<=": ">=", ">": "<", ">=": "<=", "==": "==", "!=": "!="}
COND_NOT = {"lt0": "ge0", "ge0": "lt0", "le0": "gt0", "gt0": "le0", "eq0": "ne0", "ne0": "eq0"}
COND_HOLDS = {"lt0": {"neg"}, "le0": {"neg", "zero"}, "eq0": {"zero"}, "ne0": {"neg", "pos"}, "ge0": {"zero", "pos"},
              "gt0": {"pos"}}


class DispatchDomain(Domain):
    def __init__(self, script, is_buf, bits, uname, nname, grouped):
        self.script, self.used = script, 0
        self.is_buf, self.bits, self.uname, self.nname, self.grouped = is_buf, bits, uname, nname, grouped
        self.feasible = {"neg", "zero", "pos"}
        self.bytes = {}

    def binop(self, it, op, a, b):
        if is_conc(a) and b[0] == "param" and op in COND_FLIP:
            a, b, op = b, a, COND_FLIP[op]
        if a[0] == "param" and is_conc(b) and op in COND:
            if b[3] != 0:
                self.fail("comparison against something other than 0")
            return ("dc", COND[op])
        if a[0] == "bptr" and is_conc(b) and op == "+":
            return ("bptr", a[1] + b[3])
        return Domain.binop(self, it, op, a, b)

    def unop(self, it, op, a):
        if op == "!" and a[0] == "param":
            return ("dc", "eq0")
        if op == "!" and a[0] == "dc":
            return ("dc", COND_NOT[a[1]])
        return Domain.unop(self, it, op, a)

    def truth(self, it, v):
        if v[0] == "param":
            v = ("dc", "ne0")
        if v[0] != "dc":
            return Domain.truth(self, it, v)
        holds = COND_HOLDS[v[1]]
        if self.feasible <= holds:
            return True
        if not (self.feasible & holds):
            return False
        if self.used >= len(self.script):
            raise NeedDecision(v[1])
        d = self.script[self.used]
        self.used += 1
        self.feasible = (self.feasible & holds) if d else (self.feasible - holds)
        return d

    def convert(self, it, v, ct, explicit):
        t = v[0]
        if t == "param":
            if is_int_type(ct) and INT_INFO[ct[0]] == (self.bits, True):
                return v
            if uint_bits(ct) == self.bits:
                return ("uparam",)
        if t == "uparam" and uint_bits(ct) == self.bits:
            return v
        if t == "tgt" and ct in (("string", 0, False), ("int", 0, False)):
            return v
        if t == "strlit" and ct == ("string", 0, False):
            return ("strval", v[1])
        if t == "strval" and ct == ("string", 0, False):
            return v
        if t == "bptr" and ct == ("char", 1, False):
            return v
        if t == "grp" and ct == ("char", 0, False):
            return v
        return Domain.convert(self, it, v, ct, explicit)

    def construct(self, it, ct, args):
        if ct == ("string", 0, False):
            if len(args) == 1 and args[0][0] == "strlit":
                return ("strval", args[0][1])
            if len(args) == 2 and is_conc(args[0]) and is_conc(args[1]) and args[1][1] == 8 and 0 <= args[0][3] <= 64:
                return ("strval", (args[1][3] % 256,) * args[0][3])
        return Domain.construct(self, it, ct, args)

    def store(self, it, ptr, v):
        if ptr[0] == "bptr" and is_conc(v) and v[1] == 8:
            self.bytes[ptr[1]] = v[3] % 256
            return
        return Domain.store(self, it, ptr, v)

    def call(self, it, name, args):
        if name in (self.uname, self.nname):
            vals = [it.eval(a) for a in args]
            want = ([("bptr", 0)] if self.is_buf else []) + [None] + ([("grp",)] if self.grouped else [])
            if len(vals) != len(want):
                self.fail("call of `%s` with an unexpected number of arguments" % name)
            for i, (v, w) in enumerate(zip(vals, want)):
                if w is None:
                    if v != ("param",) and not (name == self.uname and v == ("uparam",)):
                        self.fail("call of `%s` with %s as the value" % (name, show(v)))
                elif v != w:
                    self.fail("unexpected argument %d in the call of `%s`" % (i + 1, name))
            return ("tgt", "neg" if name == self.nname else "unsigned")
        if name == "strcpy" and self.is_buf and len(args) == 2:
            dst, src = it.eval(args[0]), it.eval(args[1])
            if dst != ("bptr", 0) or src[0] != "strlit":
                self.fail("strcpy with unexpected arguments")
            for i, b in enumerate(tuple(src[1]) + (0,)):
                self.bytes[i] = b
            return ("bptr", 0)
        return NotImplemented

    def result(self, r):
        if r is None:
            self.fail("a path reaches the end of the function without `return`")
        if r[0] == "tgt":
            if self.bytes:
                self.fail("stores into the buffer before the call")
            return (r[1],)
        if not self.is_buf and r[0] in ("strval", "strlit"):
            return ("lit", list(r[1]), len(r[1]))
        if self.is_buf and is_conc(r) and self.bytes:
            n = len(self.bytes)
            if sorted(self.bytes) != list(range(n)) or self.bytes[n - 1] != 0 or 0 in [self.bytes[i] for i in range(n - 1)]:
                self.fail("the literal text written into the buffer is not one NUL-terminated string")
            return ("lit", [self.bytes[i] for i in range(n - 1)], r[3])
        self.fail("unexpected return value %s" % show(r))


def dispatch_branches(unit, fn, what, is_buf, bits, uname, nname, grouped):
    count = [0]

    def explore(prefix):
        count[0] += 1
        if count[0] > 64:
            raise TranslateError("%s: too many branches" % what)
        dom = DispatchDomain(prefix, is_buf, bits, uname, nname, grouped)
        it = Interp(unit, dom, what)
        values = ([("bptr", 0)] if is_buf else []) + [("param",)] + ([("grp",)] if grouped else [])
        try:
            r = run_function(it, fn, values)
        except NeedDecision as nd:
            yes = explore(prefix + [True])
            if len(yes) != 1:
                raise TranslateError("%s: nested conditions in the branch of `value %s`" % (what, nd.info))
            return [(nd.info, yes[0][1])] + explore(prefix + [False])
        return [("always", dom.result(r))]

    return explore([])


def parse_hpp(repo, n, grouped, uname, nname, unit):
    rel = "src/celma/format/detail/%sint%d_to_string.hpp" % ("grouped_" if grouped else "", n)
    what = os.path.basename(rel)
    sname = ("groupedInt%dtoString" if grouped else "int%dtoString") % n
    out = {"rel": rel, "sname": sname}
    for key, is_buf in (("str", False), ("buf", True)):
        fwhat = "%s %s(%s)" % (what, sname, key)
        fn = one_def(unit, sname, fwhat, lambda f: (bool(f.params) and f.params[0][0] == ("char", 1, False)) == is_buf)
        if fn.ret != (("int", 0, False) if is_buf else ("string", 0, False)):
            raise TranslateError("%s: unexpected return type" % fwhat)
        ps = fn.params[1:] if is_buf else fn.params
        if not ps or not is_int_type(ps[0][0]) or ps[0][0][0] in ("int", "unsigned", "size_t", "char", "bool"):
            raise TranslateError("%s: unexpected value parameter" % fwhat)
        bits, signed = INT_INFO[ps[0][0][0]]
        if not signed:
            raise TranslateError("%s: takes an unsigned value" % fwhat)
        if len(ps) != (2 if grouped else 1) or (grouped and ps[1][0] != ("char", 0, False)):
            raise TranslateError("%s: unexpected parameters" % fwhat)
        out.setdefault("bits", bits)
        if out["bits"] != bits:
            raise TranslateError("%s: overloads of %s differ in the value type" % (what, sname))
        out[key] = dispatch_branches(unit, fn, fwhat, is_buf, bits, uname, nname, grouped)
    # the unsigned / negative functions must be declared with the types the .cpp defines (the compiler checks that)
    return out


# ----------------------------------------------------------------------------- overload tables

def parse_api(repo, grouped, names):
    rel = "src/celma/format/%sint2string.hpp" % ("grouped_" if grouped else "")
    what = os.path.basename(rel)
    raw = open(os.path.join(repo, rel), encoding="utf-8").read()
    src = strip_comments(raw)
    flat = re.sub(r"\\\n", " ", src)
    flat1 = re.sub(r"\s+", " ", flat)
    fn = "grouped_int2string" if grouped else "int2string"
    garg = r" , char group_char = '\\'' " if grouped else " "
    gpass = r" , group_char " if grouped else " "
    need = [
        r"#define TEMPLATE_ENABLE_IF\( b, s, r\) template< typename T> std::enable_if_t< std::is_integral< T>::value "
        r"&& \(sizeof\( T\) == b\) && std::is_signed< T>::value == s, r>",
        r"#define FUNCTION_ENABLED\( b, s, f\) TEMPLATE_ENABLE_IF\( b, s, std::string\) %s\( T value%s\) "
        r"\{ return detail::f\( value%s\); \}" % (fn, garg.rstrip() if grouped else "", gpass.rstrip() if grouped else ""),
        r"#define BUFFER_FUNCTION_ENABLED\( b, s, f\) TEMPLATE_ENABLE_IF\( b, s, int\) %s\( char\* buffer, T value%s\) "
        r"\{ return detail::f\( buffer, value%s\); \}" % (fn, garg.rstrip() if grouped else "", gpass.rstrip() if grouped else ""),
        r"#define SIGNED_FUNCTIONS\( b, f\) FUNCTION_ENABLED\( b, true, f\) BUFFER_FUNCTION_ENABLED\( b, true, f\)",
        r"#define UNSIGNED_FUNCTIONS\( b, f\) FUNCTION_ENABLED\( b, false, f\) BUFFER_FUNCTION_ENABLED\( b, false, f\)",
    ]
    squeeze = lambda s: re.sub(r"\s+", "", s)
    sq = squeeze(flat1)
    for rx in need:
        if not re.search(squeeze(rx), sq):
            raise TranslateError("%s: macro definition not as expected: %s" % (what, rx[:60]))
    entries = []
    for m in re.finditer(r"^\s*(SIGNED|UNSIGNED)_FUNCTIONS\(\s*(\d+)\s*,\s*(\w+)\s*\)", flat, re.M):
        f = m.group(3)
        if f not in names:
            raise TranslateError("%s: `%s` is not one of the detail functions" % (what, f))
        fbits, fsigned = names[f]
        entries.append({"bytes": int(m.group(2)), "signed": m.group(1) == "SIGNED", "fbits": fbits, "fsigned": fsigned,
                        "fn": f})
    if not entries:
        raise TranslateError("%s: no SIGNED_FUNCTIONS/UNSIGNED_FUNCTIONS lines" % what)
    default_group = None
    if grouped:
        m = re.search(r"char group_char = ('(?:\\.|[^'\\])')", flat1)
        default_group = char_value(m.group(1))
    return {"rel": rel, "entries": entries, "default_group": default_group}


# ----------------------------------------------------------------------------- Lean output

def lean_tree(t, ind=2):
    if t[0] == "leaf":
        return "leaf %d" % t[1]
    pad = " " * ind
    return "node %d\n%s(%s)\n%s(%s)" % (t[1], pad, lean_tree(t[2], ind + 2), pad, lean_tree(t[3], ind + 2))


def lean_expr(e):
    if e[0] == "lit":
        return "(lit %d)" % e[1] if e[1] >= 0 else "(lit (%d))" % e[1]
    if e[0] in ("len", "glen"):
        return e[0]
    return "(%s %s %s)" % (e[0], lean_expr(e[1]), lean_expr(e[2]))


def lean_opt(x, f):
    return "none" if x is None else "(some %s)" % f(x)


def lean_op(o):
    if o[0] == "emit":
        return "emit %d %s %s" % (o[1], "none" if o[2] is None else "(some %d)" % o[2], "true" if o[3] else "false")
    if o[0] == "div":
        return "div %d" % o[1]
    if o[0] == "inc":
        return "inc"
    if o[0] == "group":
        return "group %s" % ("true" if o[1] else "false")
    return "check %d %d" % (o[1], o[2])


def lean_bool(b):
    return "true" if b else "false"


def lean_caller(c):
    neg = "none"
    if c["neg"] is not None:
        neg = "some ⟨.%s, %d, %d⟩" % c["neg"]
    pair = lambda x: "(%s, %d)" % (lean_expr(x[0]), x[1])
    return ("{ paramBits := %d, paramSigned := %s, neg := %s, lenArgAbs := %s,\n      glen := %s, strSize := %s,\n"
            "      endOff := %s, nulAt := %s, convArgAbs := %s,\n      signAt := %s, ret := %s }") % (
        c["pbits"], lean_bool(c["psigned"]), neg, lean_bool(c["len_abs"]), lean_opt(c["glen"], lean_expr),
        lean_opt(c["str"], pair), lean_expr(c["end"]), lean_opt(c["nul"], pair), lean_bool(c["conv_abs"]),
        lean_opt(c["sign"], pair), lean_expr(c["ret"]))


def lean_target(t):
    if t[0] == "lit":
        return ".lit [%s] %d" % (", ".join(map(str, t[1])), t[2])
    return "." + t[0]


def lean_branches(bs):
    return "[" + ", ".join("(.%s, %s)" % (c, lean_target(t)) for c, t in bs) + "]"


def generate(repo):
    trees = {n: parse_str_length(repo, n) for n in WIDTHS}
    files, hdrs, names = {}, {}, {False: {}, True: {}}
    for grouped in (False, True):
        for n in WIDTHS:
            f = parse_cpp(repo, n, grouped, trees)
            h = parse_hpp(repo, n, grouped, f["uname"], f["nname"], f["unit"])
            files[(grouped, n)] = f
            hdrs[(grouped, n)] = h
            names[grouped][h["sname"]] = (n, True)
            names[grouped][f["uname"]] = (n, False)
    apis = {g: parse_api(repo, g, names[g]) for g in (False, True)}

    L = []
    w = L.append
    w("import CelmaVerif.Model.Int2Str")
    w("/-")
    w("  GENERATED by translate/int2str.py from the C++ sources — do not edit.")
    w("  Data: decision trees of intN_str_length, the statements of every case of the convert() switches,")
    w("  the expressions of the caller functions, the zero/negative dispatch, the overload tables.")
    w("  The proof obligations of these tables are in Generated/Int2StrOk.lean (kept apart so that the")
    w("  model driver still builds and runs the regenerated tables when an obligation fails).")
    w("-/")
    w("namespace CelmaVerif.Int2Str.Gen")
    w("open CelmaVerif.Int2Str CelmaVerif.Int2Str.Tree CelmaVerif.Int2Str.Op CelmaVerif.Int2Str.Expr")
    w("")
    for n in WIDTHS:
        w("/-- `int%d_str_length()` (src/celma/format/detail/int%d_str_length.hpp) -/" % (n, n))
        w("def lenTree%d : Tree :=\n  %s" % (n, lean_tree(trees[n]["tree"], 4)))
        w("")
    obligations = []
    O = ["import CelmaVerif.Generated.Int2Str",
         "/-",
         "  GENERATED by translate/int2str.py — do not edit.",
         "  The proof obligations of the regenerated tables of Generated/Int2Str.lean: the decidable",
         "  well-formedness checks of Model/Int2Str.lean, each discharged by `decide` over the finite table",
         "  (no value is enumerated).  A wrong constant, a dropped or reordered statement, a wrong size or",
         "  offset expression in the C++ makes one of them false and `lake build` fail.",
         "-/",
         "namespace CelmaVerif.Int2Str.Gen",
         "open CelmaVerif.Int2Str",
         ""]
    for grouped in (False, True):
        for n in WIDTHS:
            f = files[(grouped, n)]
            h = hdrs[(grouped, n)]
            nm = ("grouped%d" if grouped else "plain%d") % n
            w("/-- %s -/" % f["rel"])
            w("def %s : FileSpec where" % nm)
            w("  bits := %d" % n)
            w("  grouped := %s" % lean_bool(grouped))
            w("  tree := lenTree%d" % f["len_fn"])
            w("  lenCast := %d" % trees[f["len_fn"]]["cast"])
            w("  convBits := %d" % f["conv"]["bits"])
            w("  ndInit := %d" % f["conv"]["nd_init"])
            if not f["conv"]["exact_outside"]:
                w("  -- rows: one per digit count the length function can return (the only arguments `%s()` is called with)" % f["conv"]["name"])
            w("  rows := [")
            rows = f["conv"]["rows"]
            for i, r in enumerate(rows):
                w("    ⟨%s, [%s], %s⟩%s" % ("none" if r["label"] is None else "some %d" % r["label"],
                                             ", ".join(lean_op(o) for o in r["ops"]), lean_bool(r["fall"]),
                                             "," if i + 1 < len(rows) else ""))
            w("  ]")
            for key in ("ustr", "nstr", "ubuf", "nbuf"):
                w("  %s :=\n    %s" % (key, lean_caller(f["callers"][key])))
            w("")
            w("/-- %s -/" % h["rel"])
            w("def %sDispatch : Dispatch where" % nm)
            w("  paramBits := %d" % h["bits"])
            w("  str := %s" % lean_branches(h["str"]))
            w("  buf := %s" % lean_branches(h["buf"]))
            w("")
            lit = f["conv"]["literal"]
            if lit is None:
                w("/-- the `convert()` switch of %s could not be read literally (%s): the trace rows stand for it -/" % (
                    f["rel"], f["conv"]["literal_why"].replace("-/", "- /")))
                w("def %sLiteral : Option (Nat × List Row) := none" % nm)
            else:
                w("/-- the `convert()` switch of %s as written: `uint8_t num_digits = %d;` and the statements of every" % (
                    f["rel"], lit["nd_init"]))
                w("    `case` / `default` (counter statements included, executed by the Lean interpreter) -/")
                w("def %sLiteral : Option (Nat × List Row) := some (%d, [" % (nm, lit["nd_init"]))
                lrows = lit["rows"]
                for i, r in enumerate(lrows):
                    w("    ⟨%s, [%s], %s⟩%s" % ("none" if r["label"] is None else "some %d" % r["label"],
                                                 ", ".join(lean_op(o) for o in r["ops"]), lean_bool(r["fall"]),
                                                 "," if i + 1 < len(lrows) else ""))
                w("  ])")
            w("")
            for suffix, stmt, doc in (  # obligations go to the second file
                    ("tree_ok", "%s.treeOk = true" % nm, "the decision tree returns the digit count on [0, 2^%d)" % n),
                    ("rows_ok", "%s.rowsOk = true" % nm, "every reachable case writes its digits%s back to front" % (
                        " and group characters" if grouped else "")),
                    ("unsigned_ok", "%s.unsignedOk = true" % nm, "sizes, offsets, NUL position and return value of the unsigned callers"),
                    ("neg_callers_ok", "%s.negCallersOk = true" % nm, "the same for the negative callers, with the sign"),
                    ("negation_ok", "%s.negationOk = true" % nm, "abs_value is computed without signed overflow"),
                    ("dispatch_ok", "dispatchOk %s %sDispatch = true" % (nm, nm), "negative / zero / positive reach the right function")):
                O.append("/-- %s (%s) -/" % (doc, f["rel"] if suffix != "dispatch_ok" else h["rel"]))
                O.append("theorem %s_%s : %s := by decide" % (nm, suffix, stmt))
                obligations.append("%s_%s" % (nm, suffix))
            O.append("/-- the switch as written (case selection, fall-through and the digit counter executed by the Lean "
                     "interpreter) writes its digits%s back to front for every reachable digit count; %s (%s) -/" % (
                         " and group characters" if grouped else "",
                         "read literally" if f["conv"]["literal"] is not None else "NOT available for this tree, stated for the trace rows",
                         f["rel"]))
            O.append("theorem %s_literal_rows_ok : (%s.withLiteral %sLiteral).rowsOk = true := by decide" % (nm, nm, nm))
            obligations.append("%s_literal_rows_ok" % nm)
            O.append("")
    for grouped in (False, True):
        a = apis[grouped]
        nm = "apiGrouped" if grouped else "apiPlain"
        w("/-- %s -/" % a["rel"])
        w("def %s : List ApiEntry := [" % nm)
        es = a["entries"]
        for i, e in enumerate(es):
            w("  ⟨%d, %s, %d, %s⟩%s   -- %s" % (e["bytes"], lean_bool(e["signed"]), e["fbits"], lean_bool(e["fsigned"]),
                                               "," if i + 1 < len(es) else " ", e["fn"]))
        w("]")
        O.append("/-- every (size, signedness) is routed to the function of that width and signedness (%s) -/" % a["rel"])
        O.append("theorem %s_ok : apiOk %s = true := by decide" % (nm, nm))
        obligations.append("%s_ok" % nm)
        w("")
    w("/-- default group character of `grouped_int2string()` -/")
    w("def defaultGroup : Byte := %d" % apis[True]["default_group"])
    w("")
    w("def plainFile : Nat → Option (FileSpec × Dispatch)")
    for n in WIDTHS:
        w("  | %d => some (plain%d, plain%dDispatch)" % (n, n, n))
    w("  | _ => none")
    w("")
    w("def groupedFile : Nat → Option (FileSpec × Dispatch)")
    for n in WIDTHS:
        w("  | %d => some (grouped%d, grouped%dDispatch)" % (n, n, n))
    w("  | _ => none")
    w("")
    w("/-- the library as found in the sources -/")
    w("def lib : Lib where")
    w("  file := fun grouped bits => if grouped then groupedFile bits else plainFile bits")
    w("  api := fun grouped => if grouped then apiGrouped else apiPlain")
    w("")
    w("def plainFileLiteral : Nat → Option (FileSpec × Dispatch)")
    for n in WIDTHS:
        w("  | %d => some (plain%d.withLiteral plain%dLiteral, plain%dDispatch)" % (n, n, n, n))
    w("  | _ => none")
    w("")
    w("def groupedFileLiteral : Nat → Option (FileSpec × Dispatch)")
    for n in WIDTHS:
        w("  | %d => some (grouped%d.withLiteral grouped%dLiteral, grouped%dDispatch)" % (n, n, n, n))
    w("  | _ => none")
    w("")
    w("/-- the same library with the `convert()` switches taken as written wherever they could be read literally -/")
    w("def libLiteral : Lib where")
    w("  file := fun grouped bits => if grouped then groupedFileLiteral bits else plainFileLiteral bits")
    w("  api := fun grouped => if grouped then apiGrouped else apiPlain")
    w("")
    w("end CelmaVerif.Int2Str.Gen")
    O.append("end CelmaVerif.Int2Str.Gen")
    text = ("\n".join(L) + "\n", "\n".join(O) + "\n")
    report = {
        "files_read": 4 + 8 + 8 + 2,
        "trees": {str(n): {"leaves": count_leaves(trees[n]["tree"]), "cast_bits": trees[n]["cast"]} for n in WIDTHS},
        "switch_rows": {("grouped" if g else "plain") + str(n): len(files[(g, n)]["conv"]["rows"]) for g in (False, True) for n in WIDTHS},
        "negation": {("grouped" if g else "plain") + str(n): "/".join(
            (files[(g, n)]["callers"][k]["neg"] or ("none",))[0] for k in ("nstr", "nbuf")) for g in (False, True) for n in WIDTHS},
        "obligations": len(obligations),
        "literal_switch": {("grouped" if g else "plain") + str(n): (
            "read as written" if files[(g, n)]["conv"]["literal"] is not None
            else "not available: " + files[(g, n)]["conv"]["literal_why"]) for g in (False, True) for n in WIDTHS},
    }
    return text, report


def count_leaves(t):
    return 1 if t[0] == "leaf" else count_leaves(t[2]) + count_leaves(t[3])


def translate(repo_root, lean_root):
    """entry point used by tools/comp_int2str.py; rewrites Generated/Int2Str.lean only when it changed"""
    texts, report = generate(repo_root)
    report["changed"] = []
    for name, text in zip(("Int2Str.lean", "Int2StrOk.lean"), texts):
        out = os.path.join(lean_root, "CelmaVerif", "Generated", name)
        os.makedirs(os.path.dirname(out), exist_ok=True)
        old = open(out, encoding="utf-8").read() if os.path.exists(out) else None
        if old != text:
            report["changed"].append(name)
            tmp = out + ".tmp%d" % os.getpid()
            with open(tmp, "w", encoding="utf-8") as f:
                f.write(text)
            os.replace(tmp, out)
    return report


if __name__ == "__main__":
    repo = sys.argv[1] if len(sys.argv) > 1 else os.environ.get("CELMA_REPO", "/repo")
    lean = sys.argv[2] if len(sys.argv) > 2 else os.path.join(os.path.dirname(os.path.dirname(os.path.abspath(__file__))), "lean")
    if len(sys.argv) > 3 and sys.argv[3] == "--stdout":
        sys.stdout.write("".join(generate(repo)[0]))
    else:
        print(translate(repo, lean))
