// Scratch experiment: what does celma::common::FixedString<L> do when an argument aliases the target?
//
// build:
//   g++ -std=c++17 -g -O1 -fsanitize=address,undefined -fno-sanitize=vptr -fno-sanitize-recover=all \
//       -I/repo/src alias.cpp -o alias
// run:
//   ./alias                      full table (L = 8 and 16, start contents "abc", "abcdef", FULL)
//   ./alias table <L> <start>    table for one capacity / start content (any start text, also "")
//   ./alias list                 list the experiment ids
//   ./alias one <L> <start> <id> <pos>     ONE experiment in this process (full ASan report on stderr)
//
// Every experiment of the table runs in its own child process (fork + exec of this binary with
// `one ...`).  Pass 1 runs with plain ASan/UBSan.  If pass 1 dies with memcpy-param-overlap the
// experiment is run a second time with an ASan suppression for the memcpy interceptor's overlap
// report (interceptor_name:memcpy), so that the real (glibc) memcpy is executed and the resulting
// content can be shown ("nochk" column; all other ASan checks stay active in that pass).
#include "celma/common/fixed_string.hpp"

#include <cstdint>
#include <cstdio>
#include <cstdlib>
#include <cstring>
#include <fcntl.h>
#include <fstream>
#include <new>
#include <sstream>
#include <string>
#include <sys/stat.h>
#include <sys/wait.h>
#include <type_traits>
#include <unistd.h>
#include <vector>

using celma::common::FixedString;

static const size_t GUARD = 256;
static const char* DIR = "/tmp/fixedstring_alias";

// ---------------------------------------------------------------- helpers
static std::string tos(bool b) { return b ? "true" : "false"; }
static std::string tos(size_t v) { return v == std::string::npos ? "npos" : std::to_string(v); }
static std::string sgn(int v) { return v < 0 ? "<0" : v > 0 ? ">0" : "0"; }

static std::string esc(const unsigned char* p, size_t n)
{
   std::string o;
   char b[8];
   for (size_t i = 0; i < n; ++i) {
      if (p[i] >= 0x20 && p[i] < 0x7f && p[i] != '\\' && p[i] != '"') o += (char) p[i];
      else { snprintf(b, sizeof b, "\\x%02x", p[i]); o += b; }
   }
   return o;
}

template <class S> struct is_std : std::is_same<S, std::string> {};

// "if it compiles" probes -------------------------------------------------
template <class S, class = void> struct can_app_it : std::false_type {};
template <class S>
struct can_app_it<S, std::void_t<decltype(std::declval<S&>().append(std::declval<S&>().begin(),
                                                                     std::declval<S&>().end()))>> : std::true_type {};
template <class S> void do_app_it(S& s, S& a, std::string& r)
{
   if constexpr (can_app_it<S>::value) s.append(a.begin(), a.end());
   else { (void) s; (void) a; r = "DOES-NOT-COMPILE"; }
}

template <class S, class = void> struct can_rep_it : std::false_type {};
template <class S>
struct can_rep_it<S, std::void_t<decltype(std::declval<S&>().replace(
                        std::declval<S&>().begin(), std::declval<S&>().end(), std::declval<S&>().begin(),
                        std::declval<S&>().end()))>> : std::true_type {};
template <class S> void do_rep_it(S& s, S& a, std::string& r)
{
   if constexpr (can_rep_it<S>::value) s.replace(s.begin(), s.end(), a.begin(), a.end());
   else { (void) s; (void) a; r = "DOES-NOT-COMPILE"; }
}

// replace( const_iterator at index 1, cend, begin, end)
template <class S> void do_rep_cit1(S& s, S& a)
{
   if constexpr (is_std<S>::value) s.replace(s.cbegin() + 1, s.cend(), a.begin(), a.end());
   else s.replace(typename S::const_iterator(&s, 1), s.cend(), a.begin(), a.end());
}

template <class S> void do_sprintf(S& s, S& a, const char* fmt)
{
   if constexpr (is_std<S>::value) {
      char buf[128];
      snprintf(buf, sizeof buf, fmt, a.c_str());
      s = buf;
   } else
      s.sprintf(fmt, a.c_str());
}

// ---------------------------------------------------------------- experiments
// X( id, printed call, uses pos, code for FixedString, code for std::string)
// `s` is the target, `a` is the same object reached through a volatile pointer (so the compiler
// cannot see the aliasing), `pos` the position, `r` the (optional) return value text.
#define X2(id, name, up, CODE) X(id, name, up, CODE, CODE)
#define EXPS                                                                                              \
   /* 1 append */                                                                                         \
   X2(app_s, "s.append(s)", 0, s.append(a))                                                               \
   X2(pe_s, "s += s", 0, s += a)                                                                          \
   X2(app_s12, "s.append(s,1,2)", 0, s.append(a, 1, 2))                                                   \
   X2(app_c, "s.append(s.c_str())", 0, s.append(a.c_str()))                                               \
   X2(pe_c, "s += s.c_str()", 0, s += a.c_str())                                                          \
   X2(app_c1, "s.append(s.c_str()+1)", 0, s.append(a.c_str() + 1))                                        \
   X2(app_c_2, "s.append(s.c_str(),2)", 0, s.append(a.c_str(), 2))                                        \
   X2(app_it, "s.append(s.begin(),s.end())", 0, do_app_it(s, a, r))                                       \
   X2(app_cit, "s.append(s.cbegin(),s.cend())", 0, s.append(a.cbegin(), a.cend()))                        \
   /* 2 insert */                                                                                         \
   X2(ins_s, "s.insert(pos,s)", 1, s.insert(pos, a))                                                      \
   X2(ins_c, "s.insert(pos,s.c_str())", 1, s.insert(pos, a.c_str()))                                      \
   X2(ins_c_2, "s.insert(pos,s.c_str(),2)", 1, s.insert(pos, a.c_str(), 2))                               \
   X2(ins_s12, "s.insert(pos,s,1,2)", 1, s.insert(pos, a, 1, 2))                                          \
   X2(ins_c1, "s.insert(pos,s.c_str()+1)", 1, s.insert(pos, a.c_str() + 1))                               \
   /* 3 replace */                                                                                        \
   X2(rep1_s, "s.replace(pos,1,s)", 1, s.replace(pos, 1, a))                                              \
   X2(rep2_s, "s.replace(pos,2,s)", 1, s.replace(pos, 2, a))                                              \
   X2(rep0_s, "s.replace(pos,0,s)", 1, s.replace(pos, 0, a))                                              \
   X2(rep1_c, "s.replace(pos,1,s.c_str())", 1, s.replace(pos, 1, a.c_str()))                              \
   X2(rep1_s12, "s.replace(pos,1,s,1,2)", 1, s.replace(pos, 1, a, 1, 2))                                  \
   X2(rep1_c1_2, "s.replace(pos,1,s.c_str()+1,2)", 1, s.replace(pos, 1, a.c_str() + 1, 2))                \
   X2(rep_it, "s.replace(s.begin(),s.end(),s.begin(),s.end())", 0, do_rep_it(s, a, r))                    \
   X2(rep_cit, "s.replace(s.cbegin(),s.cend(),s.begin(),s.end())", 0,                                     \
      s.replace(s.cbegin(), s.cend(), a.begin(), a.end()))                                                \
   X2(rep_cit1, "s.replace(const_it@1,s.cend(),s.begin(),s.end())", 0, do_rep_cit1(s, a))                 \
   /* 4 assign */                                                                                         \
   X2(asg_s, "s.assign(s)", 0, s.assign(a))                                                               \
   X2(eq_s, "s = s", 0, s = a)                                                                            \
   X2(asg_c, "s.assign(s.c_str())", 0, s.assign(a.c_str()))                                               \
   X2(eq_c, "s = s.c_str()", 0, s = a.c_str())                                                            \
   X2(asg_c1, "s.assign(s.c_str()+1)", 0, s.assign(a.c_str() + 1))                                        \
   X2(eq_c1, "s = s.c_str()+1", 0, s = a.c_str() + 1)                                                     \
   X2(swap_s, "s.swap(s)", 0, s.swap(a))                                                                  \
   /* 5 observers */                                                                                      \
   X2(o_cmp, "s.compare(s)", 0, r = sgn(s.compare(a)))                                                    \
   X2(o_eq, "s == s", 0, r = tos(s == a))                                                                 \
   X2(o_ne, "s != s", 0, r = tos(s != a))                                                                 \
   X(o_sw, "s.starts_with(s)", 0, r = tos(s.starts_with(a)), r = tos(s.compare(0, a.size(), a) == 0))     \
   X(o_ew, "s.ends_with(s)", 0, r = tos(s.ends_with(a)),                                                  \
     r = tos(s.size() >= a.size() && s.compare(s.size() - a.size(), a.size(), a) == 0))                   \
   X(o_ct, "s.contains(s)", 0, r = tos(s.contains(a)), r = tos(s.find(a) != std::string::npos))           \
   X2(o_find, "s.find(s)", 0, r = tos(s.find(a)))                                                         \
   X2(o_rfind, "s.rfind(s)", 0, r = tos(s.rfind(a)))                                                      \
   X2(o_ffo, "s.find_first_of(s)", 0, r = tos(s.find_first_of(a)))                                        \
   X2(o_cmp12, "s.compare(1,2,s,1,2)", 0, r = sgn(s.compare(1, 2, a, 1, 2)))                              \
   X2(o_find_c1, "s.find(s.c_str()+1)", 0, r = tos(s.find(a.c_str() + 1)))                                \
   /* 6 sprintf */                                                                                        \
   X2(spf, "s.sprintf(\"%s\",s.c_str())", 0, do_sprintf(s, a, "%s"))                                      \
   X2(spfx, "s.sprintf(\"x%s\",s.c_str())", 0, do_sprintf(s, a, "x%s"))                                    \
   /* 7 extras (not asked for): source starts BEHIND the insert/replace position */                       \
   X2(x_ins2_c1, "s.insert(2,s.c_str()+1)", 0, s.insert(2, a.c_str() + 1))                                \
   X2(x_ins1_c2, "s.insert(1,s.c_str()+2)", 0, s.insert(1, a.c_str() + 2))                                \
   X2(x_ins1_s21, "s.insert(1,s,2,1)", 0, s.insert(1, a, 2, 1))                                           \
   X2(x_rep02_s11, "s.replace(0,2,s,1,1)", 0, s.replace(0, 2, a, 1, 1))                                   \
   X2(x_rep11_s22, "s.replace(1,1,s,2,2)", 0, s.replace(1, 1, a, 2, 2))                                   \
   X2(x_rep11_s21, "s.replace(1,1,s,2,1)", 0, s.replace(1, 1, a, 2, 1))

enum ExpId {
#define X(id, name, up, FSC, STC) k_##id,
   EXPS
#undef X
      k_COUNT
};

struct Desc { const char* id; const char* name; int usepos; };
static const Desc DESC[] = {
#define X(id, name, up, FSC, STC) {#id, name, up},
   EXPS
#undef X
};

template <class S> std::string run_exp(int id, S& s, S& a, size_t pos)
{
   std::string r;
   (void) pos;
   try {
      switch (id) {
#define X(id, name, up, FSC, STC)                      \
   case k_##id: {                                      \
      if constexpr (is_std<S>::value) { STC; }         \
      else { FSC; }                                    \
   } break;
         EXPS
#undef X
         default: r = "??"; break;
      }
   } catch (const std::exception& e) {
      r = std::string("THROWS:") + e.what();
   }
   return r;
}

// what a real std::string does for the same self-aliasing call
static void run_std(int id, const std::string& start, size_t pos, std::string& content, std::string& ret)
{
   std::string x(start);
   std::string* volatile vp = &x;
   ret = run_exp<std::string>(id, x, *vp, pos);
   content = x;
}

// ---------------------------------------------------------------- the child: one experiment
template <size_t L> int run_one(const std::string& start, int id, size_t pos)
{
   using FS = FixedString<L>;
   const size_t total = GUARD + sizeof(FS) + GUARD;
   unsigned char* arena = static_cast<unsigned char*>(malloc(total));
   memset(arena, 0xA5, total);
   FS* p = new (arena + GUARD) FS(start.c_str());
   FS* volatile vp = p;
   FS& s = *p;
   FS& a = *vp;

   printf("START\t%s\t%zu\tsizeof=%zu\n", esc((const unsigned char*) s.c_str(), s.length()).c_str(),
          (size_t) s.length(), sizeof(FS));
   fflush(stdout);

   std::string r = run_exp<FS>(id, s, a, pos);

   // guards
   long lo_bad = -1, hi_bad = -1;
   size_t nbad = 0;
   for (size_t i = 0; i < GUARD; ++i)
      if (arena[i] != 0xA5) { ++nbad; if (lo_bad < 0) lo_bad = (long) i - (long) GUARD; }
   for (size_t i = 0; i < GUARD; ++i)
      if (arena[GUARD + sizeof(FS) + i] != 0xA5) { ++nbad; if (hi_bad < 0) hi_bad = (long) i; }
   // bounded strlen inside the arena
   const unsigned char* cs = reinterpret_cast<const unsigned char*>(s.c_str());
   long sl = -1;
   for (const unsigned char* q = cs; q < arena + total; ++q)
      if (*q == 0) { sl = q - cs; break; }
   const size_t show = (sl >= 0) ? (size_t) sl : (size_t) (arena + GUARD + sizeof(FS) - cs);
   std::string g = "ok";
   if (nbad) {
      char b[96];
      snprintf(b, sizeof b, "BAD(%zu bytes;first lo=%ld hi=%ld)", nbad, lo_bad, hi_bad);
      g = b;
   }
   printf("RES\t%s\t%zu\t%ld\t%s\t%s\n", esc(cs, show).c_str(), (size_t) s.length(), sl, g.c_str(),
          r.empty() ? "-" : r.c_str());
   printf("RAW\t");
   for (size_t i = 0; i < sizeof(FS); ++i) printf("%02x ", arena[GUARD + i]);
   printf("\n");
   fflush(stdout);
   free(arena);
   return 0;
}

static int find_id(const std::string& n)
{
   for (int i = 0; i < k_COUNT; ++i)
      if (n == DESC[i].id) return i;
   return -1;
}

// ---------------------------------------------------------------- the driver
static std::string slurp(const std::string& f)
{
   std::ifstream in(f);
   std::stringstream ss;
   ss << in.rdbuf();
   return ss.str();
}

struct ChildRes {
   bool have_res = false;
   std::string content, len, slen, guards, ret, verdict;
};

static std::string verdict_of(const std::string& err, int status)
{
   size_t p = err.find("ERROR: AddressSanitizer: ");
   if (p != std::string::npos) {
      p += strlen("ERROR: AddressSanitizer: ");
      size_t e = err.find_first_of(" :\n", p);
      return "ASan:" + err.substr(p, e - p);
   }
   p = err.find("runtime error: ");
   if (p != std::string::npos) {
      size_t e = err.find('\n', p);
      return "UBSan:" + err.substr(p + 15, e - p - 15);
   }
   p = err.find("terminate called");
   if (p != std::string::npos) {
      size_t w = err.find("what():", p);
      if (w != std::string::npos) {
         size_t e = err.find('\n', w);
         return "terminate:" + err.substr(w + 8, e - w - 8);
      }
      return "terminate";
   }
   if (WIFSIGNALED(status)) return "signal " + std::to_string(WTERMSIG(status));
   if (WIFEXITED(status) && WEXITSTATUS(status) != 0) return "exit " + std::to_string(WEXITSTATUS(status));
   return "clean";
}

static ChildRes spawn(const std::string& exe, size_t L, const std::string& start, int id, size_t pos,
                      bool suppress_overlap, const std::string& logbase)
{
   const std::string outf = std::string(DIR) + "/last_stdout.txt";
   const std::string errf = std::string(DIR) + "/last_stderr.txt";
   pid_t pid = fork();
   if (pid == 0) {
      int fo = open(outf.c_str(), O_WRONLY | O_CREAT | O_TRUNC, 0644);
      int fe = open(errf.c_str(), O_WRONLY | O_CREAT | O_TRUNC, 0644);
      dup2(fo, 1);
      dup2(fe, 2);
      std::string opt = "detect_leaks=0:color=never";
      if (suppress_overlap) opt += std::string(":suppressions=") + DIR + "/asan_overlap.supp";
      setenv("ASAN_OPTIONS", opt.c_str(), 1);
      std::string sl = std::to_string(L), sp = std::to_string(pos);
      execl(exe.c_str(), exe.c_str(), "one", sl.c_str(), start.c_str(), DESC[id].id, sp.c_str(), (char*) nullptr);
      _exit(127);
   }
   int status = 0;
   waitpid(pid, &status, 0);
   ChildRes cr;
   const std::string out = slurp(outf), err = slurp(errf);
   cr.verdict = verdict_of(err, status);
   std::istringstream is(out);
   std::string line;
   while (std::getline(is, line)) {
      if (line.compare(0, 4, "RES\t") == 0) {
         std::vector<std::string> f;
         std::stringstream ls(line);
         std::string tok;
         while (std::getline(ls, tok, '\t')) f.push_back(tok);
         if (f.size() >= 6) {
            cr.have_res = true;
            cr.content = f[1]; cr.len = f[2]; cr.slen = f[3]; cr.guards = f[4]; cr.ret = f[5];
         }
      }
   }
   if (cr.verdict != "clean" && !logbase.empty()) {
      std::ofstream lf(logbase + (suppress_overlap ? ".nochk.err" : ".err"));
      lf << err;
   }
   return cr;
}

static std::vector<std::string> g_dev;

static void table(const std::string& exe, size_t L, const std::string& start)
{
   for (int id = 0; id < k_COUNT; ++id) {
      std::vector<size_t> poss;
      if (DESC[id].usepos) poss = {0, 1, start.size()};
      else poss = {0};
      // pos values may coincide for short starts
      for (size_t pi = 0; pi < poss.size(); ++pi) {
         bool dup = false;
         for (size_t pj = 0; pj < pi; ++pj) dup = dup || (poss[pj] == poss[pi]);
         if (dup) continue;
         const size_t pos = poss[pi];
         std::string sc, sr;
         run_std(id, start, pos, sc, sr);
         const bool cut = sc.size() > L;
         std::string sc_cut = sc.substr(0, L);
         if (sr.empty()) sr = "-";

         char lb[256];
         snprintf(lb, sizeof lb, "%s/logs/L%zu_%s_%s_p%zu", DIR, L, start.empty() ? "EMPTY" : start.c_str(),
                  DESC[id].id, pos);
         ChildRes c1 = spawn(exe, L, start, id, pos, false, lb);
         ChildRes c2;
         bool second = false;
         if (c1.verdict == "ASan:memcpy-param-overlap") {
            c2 = spawn(exe, L, start, id, pos, true, lb);
            second = true;
         }
         const ChildRes& eff = second ? c2 : c1;

         std::ostringstream o;
         o << "L=" << L << " | " << DESC[id].name;
         if (DESC[id].usepos) o << " pos=" << pos;
         o << " | \"" << start << "\" | FS: ";
         if (c1.have_res) o << "\"" << c1.content << "\" len=" << c1.len << (c1.ret != "-" ? " ret=" + c1.ret : "");
         else o << "(aborted)";
         o << " | std: \"" << sc_cut << "\"" << (cut ? "(cut)" : "") << (sr != "-" ? " ret=" + sr : "");
         o << " | guards " << (c1.have_res ? c1.guards : "n/a");
         o << " | strlen==len " << (c1.have_res ? (c1.slen == c1.len ? "yes" : "NO(strlen=" + c1.slen + ")") : "n/a");
         o << " | " << c1.verdict;
         if (second) {
            o << " | nochk: ";
            if (c2.have_res)
               o << "\"" << c2.content << "\" len=" << c2.len << " guards " << c2.guards << " strlen==len "
                 << (c2.slen == c2.len ? "yes" : "NO(strlen=" + c2.slen + ")");
            else o << "(aborted)";
            o << " " << c2.verdict;
         }
         bool dev = false;
         std::string why;
         if (c1.verdict != "clean") { dev = true; why += " SAN"; }
         if (eff.have_res) {
            const bool observer = (sr != "-") && (std::string(DESC[id].id).compare(0, 2, "o_") == 0);
            if (eff.ret == "DOES-NOT-COMPILE") { dev = true; why += " NOCOMPILE"; }
            else if (observer) { if (eff.ret != sr) { dev = true; why += " RET"; } }
            if (eff.ret != "DOES-NOT-COMPILE" && eff.content != esc((const unsigned char*) sc_cut.data(), sc_cut.size())) {
               dev = true; why += " CONTENT";
            }
            if (eff.guards != "ok") { dev = true; why += " GUARD"; }
            if (eff.slen != eff.len) { dev = true; why += " WF"; }
         } else { dev = true; why += " NORESULT"; }
         if (dev) o << " | DIFF:" << why;
         puts(o.str().c_str());
         fflush(stdout);
         if (dev) g_dev.push_back(o.str());
      }
   }
}

int main(int argc, char** argv)
{
   std::string mode = argc > 1 ? argv[1] : "all";
   if (mode == "list") {
      for (int i = 0; i < k_COUNT; ++i) printf("%-10s %s%s\n", DESC[i].id, DESC[i].name, DESC[i].usepos ? "   (uses pos)" : "");
      return 0;
   }
   if (mode == "iter") {
      // observable iterator edge cases (no wild dereference is executed here)
      using FS = FixedString<8>;
      FS s("abc"), e;
      const FS& cs = s;
#define SHOW(expr) printf("%-58s = %s\n", #expr, tos(expr).c_str())
      SHOW(e.begin() == e.end());
      SHOW(e.begin() == s.end());   // end iterators of DIFFERENT objects compare equal
      { auto it = s.begin(); --it; SHOW(it == s.end()); }
      { auto it = s.end(); --it; SHOW(it == s.end()); SHOW(it > s.begin()); SHOW((size_t)(s.end() - it)); /* = length - mIndex */ }
      { auto it = s.end(); ++it; SHOW(it == s.end()); }
      { auto it = s.begin(); it += 2; SHOW((size_t)(it - s.begin())); it += 1; SHOW(it == s.end()); }
      { auto it = s.begin(); ++it; it += (size_t) -1; SHOW((size_t)(it - s.begin())); /* += SIZE_MAX wraps = -1 */ }
      { auto it = s.begin(); it -= 1; SHOW(it == s.end()); }
      SHOW((size_t)(s.begin() - s.end()));
      SHOW((size_t)(s.end() - s.begin()));
      { auto a = s.begin(); auto b = s.begin(); ++b; ++b; SHOW((size_t)(a - b)); /* unsigned wrap */ }
      SHOW(s.begin() < s.end());
      SHOW(s.end() <= s.end());
      SHOW(s.begin() < e.begin());
      { auto it = cs.begin(); SHOW((size_t) it[2]); SHOW((size_t) it[3]); /* [] unchecked: terminator */ }
      // reverse
      SHOW(e.rbegin() == e.rend());
      { auto it = s.rbegin(); SHOW((size_t) *it); --it; SHOW(it == s.rend()); }
      { auto it = s.rend(); --it; SHOW(it == s.rend()); }
      { auto it = s.rend(); ++it; SHOW(it == s.rend()); SHOW((size_t)(s.rend() - it)); /* = mIndex + 1 */ }
      SHOW(s.rbegin() < s.rend());
      SHOW(s.rend() < s.rbegin());
      SHOW((size_t)(s.rend() - s.rbegin()));
      SHOW((size_t)(s.rbegin() - s.rend()));
      { auto it = s.rbegin(); try { (void) it[3]; printf("rbegin()[3] no throw\n"); } catch (const std::exception& x) { printf("rbegin()[3] throws %s\n", x.what()); } }
      { auto it = s.end(); try { (void) *it; } catch (const std::exception& x) { printf("*end() throws %s\n", x.what()); } }
      { FS::iterator it; try { (void) *it; } catch (const std::exception& x) { printf("*iterator() throws %s\n", x.what()); } }
      return 0;
   }
   if (mode == "one") {
      if (argc < 6) { fprintf(stderr, "usage: alias one <L> <start> <id> <pos>\n"); return 2; }
      const size_t L = strtoul(argv[2], nullptr, 10);
      const std::string start = argv[3];
      const int id = find_id(argv[4]);
      const size_t pos = strtoul(argv[5], nullptr, 10);
      if (id < 0) { fprintf(stderr, "unknown experiment id %s (see: alias list)\n", argv[4]); return 2; }
      printf("EXP\t%s\tL=%zu\tpos=%zu\n", DESC[id].name, L, pos);
      std::string sc, sr;
      run_std(id, start, pos, sc, sr);
      printf("STD\t%s\t%zu\t%s\n", sc.c_str(), sc.size(), sr.empty() ? "-" : sr.c_str());
      fflush(stdout);
      if (L == 8) return run_one<8>(start, id, pos);
      if (L == 16) return run_one<16>(start, id, pos);
      fprintf(stderr, "only L = 8 or 16 are instantiated\n");
      return 2;
   }
   // driver modes
   char exe[4096];
   ssize_t n = readlink("/proc/self/exe", exe, sizeof exe - 1);
   if (n <= 0) { perror("readlink"); return 2; }
   exe[n] = 0;
   mkdir((std::string(DIR) + "/logs").c_str(), 0755);
   {
      std::ofstream sf(std::string(DIR) + "/asan_overlap.supp");
      sf << "interceptor_name:memcpy\n";
   }
   if (mode == "table") {
      if (argc < 4) { fprintf(stderr, "usage: alias table <L> <start>\n"); return 2; }
      table(exe, strtoul(argv[2], nullptr, 10), argv[3]);
   } else {
      const char* st8[] = {"abc", "abcdef", "abcdefgh"};
      const char* st16[] = {"abc", "abcdef", "abcdefghijklmnop"};
      for (const char* s : st8) table(exe, 8, s);
      for (const char* s : st16) table(exe, 16, s);
   }
   printf("\n==== %zu lines where FixedString differs from std::string (cut at L) or a sanitizer complains ====\n",
          g_dev.size());
   for (const auto& l : g_dev) puts(l.c_str());
   return 0;
}
