import CelmaVerif.Base.Res
import CelmaVerif.Base.Proto
import CelmaVerif.Model.Buffers
