import CelmaVerif.Base.Proto
import CelmaVerif.Model.Concurrency
/- line-protocol driver for the concurrency component (C20).
   `model-concurrency` reads operations on stdin; `model-concurrency --enum singleton <n> <limit>` and
   `--enum managed <nobs> <loads> <limit>` print the model's maximal stutter-free schedules (used by the
   plugin's exhaustive generators). -/
open CelmaVerif CelmaVerif.Concurrency CelmaVerif.Proto

def joinStr (l : List String) : String := if l.isEmpty then "-" else String.intercalate "," l

def cfg : Cfg := Cfg.current

/-! singleton -/

/-- the printed trace entry of one schedule entry: the model's event (`sevent`, the events the
    happens-before relation `HBefore` is defined over) by its name; a stutter entry is `blocked`
    (waiting for the held mutex) or `-` (finished / not existing) -/
def sEvent (n : Nat) (s : SState) (t : Nat) : String :=
  match sevent n s t with
  | some e => e.kind.name
  | none => if t < n && s.pc t != .done then "blocked" else "-"

def sIds (n : Nat) (s : SState) : List String :=
  (List.range n).map fun i =>
    if s.pc i == .done then (match s.ret i with | some k => toString k | none => "null") else "-"

def singletonLine (n : Nat) (sched : List Nat) : String :=
  let (s, trace, conf) := sched.foldl
    (fun (acc : SState × List String × Bool) t =>
      let (s, tr, c) := acc
      let s' := sstep cfg n s t
      (s', s!"{t}:{sEvent n s t}" :: tr, c || sConflictPair n s'))
    (SState.init, [], sConflictPair n SState.init)
  s!"ok trace={joinStr trace.reverse} built={s.built} ids={joinStr (sIds n s)} conflict={if conf then 1 else 0}"

/-! managed thread -/

def pEvent (s : MState) : String :=
  match s.ppc with
  | .begin => "begin"
  | .atInit => "init"
  | .atStart => "start"
  | .live => if s.cpc == .done then "live" else "blocked"
  | .joined => "-"

def cEvent (s : MState) : String :=
  match s.cpc with
  | .idle => "-" | .storeT => "store_true" | .fBegin => "f_begin" | .inF => "in_f"
  | .fEnd => "f_end" | .storeF => "store_false" | .done => "-"

def mEvent (nobs : Nat) (s : MState) (t : Nat) : String :=
  match t with
  | 0 => pEvent s
  | 1 => cEvent s
  | t + 2 => if t < nobs && s.isLive then "load" else "-"

/-- one hook-granular step: the parent has no sync point between the flag's construction and the
    start of the thread when the flag comes first, so `atStart` is passed in the same release -/
def mMacro (nobs : Nat) (s : MState) (t : Nat) : MState :=
  let s' := mstep cfg nobs s t
  if t == 0 && s'.ppc == .atStart then mstep cfg nobs s' 0 else s'

def sampleStr (x : Sample) : String :=
  let v := match x.val with | some true => "1" | some false => "0" | none => "u"
  s!"{x.obs}:{x.win.name}:{if x.joined then 1 else 0}:{v}"

def managedLine (nobs : Nat) (sched : List Nat) : String :=
  let (s, trace) := sched.foldl
    (fun (acc : MState × List String) t =>
      let (s, tr) := acc
      (mMacro nobs s t, s!"{t}:{mEvent nobs s t}" :: tr))
    (MState.init, [])
  s!"ok trace={joinStr trace.reverse} samples={joinStr (s.samples.map sampleStr)}"

/-- The per-thread *call signature* field `sig=<s0>,<s1>,...` of a schedule / soak / probe line: which
    instantiation of the member template `Singleton<T>::instance< Args...>()` thread `i` uses for its first
    access (entry `i mod length`; 0 `instance()`, 1 `instance( 32)`, 2 `instance( lvalue)`).  The model has ONE
    class-wide mutex and one cell whatever the signature (`sstep` has no such parameter), so the field is only
    validated here and then ignored: the model's answer for the schedule without the field is the expectation
    (seeded/C20-4 makes the mutex a function-local static, i.e. one per instantiation). -/
def sigOk (tok : String) : Bool :=
  if !tok.startsWith "sig=" then false else
  let s := (tok.drop 4).toString
  if s.isEmpty || s == "-" || !s.toList.all (fun c => c.isDigit || c == ',') then false else
  match natList s with
  | some l => !l.isEmpty && l.length ≤ 64 && l.all (· ≤ 2)
  | none => false

def step (_ : Unit) (line : String) : Unit × String :=
  match tokens line with
  | ["case", _] => ((), "ok")
  | ["conc", "singleton", n, sched] =>
    match n.toNat?, natList sched with
    | some n, some sc => if n ≤ 64 then ((), singletonLine n sc) else ((), "bad-op")
    | _, _ => ((), "bad-op")
  | ["conc", "singleton", n, sched, sig] =>
    -- mixed call signatures: the model ignores the field (one class-wide mutex)
    match n.toNat?, natList sched with
    | some n, some sc => if n ≤ 64 && sigOk sig then ((), singletonLine n sc) else ((), "bad-op")
    | _, _ => ((), "bad-op")
  | ["conc", "probe-lock", sig] => if sigOk sig then ((), "ok excluded") else ((), "bad-op")
  | ["conc", "soak", "singleton", n, r, sig] =>
    match n.toNat?, r.toNat? with
    | some n, some r =>
      if n < 1 || n > 64 || r < 1 || r > 100000 || !sigOk sig then ((), "bad-op")
      else ((), s!"ok soak singleton threads={n} rounds={r} built=1 same=1")
    | _, _ => ((), "bad-op")
  | ["conc", "managed", n, sched] =>
    match n.toNat?, natList sched with
    | some n, some sc => if n ≤ 62 then ((), managedLine n sc) else ((), "bad-op")
    | _, _ => ((), "bad-op")
  | ["conc", "probe-lock"] => ((), "ok excluded")
  | ["conc", "soak", what, n, r] =>
    match n.toNat?, r.toNat? with
    | some n, some r =>
      if n < 1 || n > 64 || r < 1 || r > 100000 then ((), "bad-op")
      else if what == "singleton" then ((), s!"ok soak singleton threads={n} rounds={r} built=1 same=1")
      else if what == "managed" then ((), s!"ok soak managed threads={n} rounds={r} active=1 inactive=1")
      else ((), "bad-op")
    | _, _ => ((), "bad-op")
  | _ => ((), "bad-op")

/-! enumeration of the model's schedules -/

partial def enumS (n : Nat) (limit : Nat) (s : SState) (pre : List Nat) (count : IO.Ref Nat) : IO Unit := do
  if (← count.get) ≥ limit then return
  let en := (List.range n).filter fun t => s.pc t != .done && !s.blocked t
  if en.isEmpty then
    count.modify (· + 1)
    IO.println (joinStr (pre.reverse.map toString))
  else
    for t in en do
      enumS n limit (sstep cfg n s t) (t :: pre) count

partial def enumM (nobs loads : Nat) (limit : Nat) (s : MState) (pre : List Nat) (count : IO.Ref Nat) : IO Unit := do
  if (← count.get) ≥ limit then return
  let p := if pEvent s != "-" && pEvent s != "blocked" then [0] else []
  let c := if cEvent s != "-" then [1] else []
  let o := (List.range nobs).filterMap fun i =>
    if s.isLive && (s.samples.filter (·.obs == i + 2)).length < loads then some (i + 2) else none
  let en := p ++ c ++ o
  if en.isEmpty then
    count.modify (· + 1)
    IO.println (joinStr (pre.reverse.map toString))
  else
    for t in en do
      enumM nobs loads limit (mMacro nobs s t) (t :: pre) count

def main (args : List String) : IO Unit := do
  match args with
  | ["--enum", "singleton", n, limit] =>
    let c ← IO.mkRef 0
    enumS n.toNat! limit.toNat! SState.init [] c
  | ["--enum", "managed", nobs, loads, limit] =>
    let c ← IO.mkRef 0
    enumM nobs.toNat! loads.toNat! limit.toNat! MState.init [] c
  | _ => run () step
