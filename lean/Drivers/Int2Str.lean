import CelmaVerif.Base.Proto
import CelmaVerif.Model.Int2Str
import CelmaVerif.Generated.Int2Str
/- line-protocol driver for the int2str component (C13): executes the tables that
   translate/int2str.py regenerated from the C++ sources (Generated/Int2Str.lean) -/
open CelmaVerif CelmaVerif.Int2Str CelmaVerif.Proto

def parseType (s : String) : Option (Nat × Bool) :=
  match s with
  | "u8" => some (8, false) | "i8" => some (8, true)
  | "u16" => some (16, false) | "i16" => some (16, true)
  | "u32" => some (32, false) | "i32" => some (32, true)
  | "u64" => some (64, false) | "i64" => some (64, true)
  | _ => none

/-- `-` plain, `d` grouped with the default character, a byte code = grouped with that character -/
def parseGroup (s : String) : Option (Bool × Byte) :=
  if s == "-" then some (false, 0)
  else if s == "d" then some (true, Gen.defaultGroup)
  else match s.toNat? with
    | some n => if n < 256 then some (true, n) else none
    | none => none

def inType (bits : Nat) (signed : Bool) (v : Int) : Bool :=
  if signed then decide (-(two (bits - 1)) ≤ v ∧ v < two (bits - 1)) else decide (0 ≤ v ∧ v < two bits)

def showText (bs : List Byte) : String :=
  if !bs.isEmpty && bs.all (fun b => 33 ≤ b && b ≤ 126) then String.ofList (bs.map Char.ofNat)
  else "hex:" ++ hexEncode bs

def resLine (r : Res α) (f : α → String) : String :=
  match r with
  | .ok a => f a
  | .throw e => s!"throw {e.name}"
  | .oob w => s!"oob {w}"

def arenaFill (cap : Nat) : List Byte := (List.range cap).map fun i => ((32 + i) * 7 % 256) ^^^ 0xA5

structure Conv where
  text : List Byte
  n : Int

def convStr (grouped : Bool) (bits : Nat) (signed : Bool) (g : Byte) (v : Int) : Res Conv :=
  match Gen.lib.str grouped bits signed g v with
  | .ok t => .ok ⟨t, t.length⟩
  | .throw e => .throw e
  | .oob w => .oob w

/-- buffer variant on a buffer of `|reference text| + 1 + extra` bytes; `note` reports what the
    harness checks with its guard bytes -/
def convBuf (grouped : Bool) (bits : Nat) (signed : Bool) (g : Byte) (v : Int) (extra : Nat) : Res (Conv × String) :=
  let cap := (specText grouped g v).length + 1 + extra
  let init := arenaFill cap
  match Gen.lib.buf grouped bits signed g v init with
  | .ok (m, r) =>
    let rn := r.toNat
    let note :=
      if r < 0 || rn ≥ m.length then "ret-out-of-range"
      else if m.getD rn 1 ≠ 0 then "nonul"
      else if m.drop (rn + 1) ≠ init.drop (rn + 1) then "tail=dirty"
      else "tail=ok"
    .ok (⟨m.take rn, r⟩, note)
  | .throw e => .throw e
  | .oob w => .oob w

def fnvPrime : UInt64 := 1099511628211
def fnvInit : UInt64 := 14695981039346656037

def fnvConv (h : UInt64) (c : Conv) : UInt64 :=
  let h := c.text.foldl (fun h b => (h ^^^ UInt64.ofNat b) * fnvPrime) h
  (h ^^^ UInt64.ofNat ((0x80 + c.n.toNat) % 256)) * fnvPrime

def hex16 (h : UInt64) : String :=
  String.ofList ((List.range 16).map fun i => hexDigit (h.toNat / 16 ^ (15 - i) % 16))

def one (buf : Bool) (grouped : Bool) (bits : Nat) (signed : Bool) (g : Byte) (v : Int) : Res Conv :=
  if buf then
    match convBuf grouped bits signed g v 0 with
    | .ok (c, note) => if note == "tail=ok" then .ok c else .oob note
    | .throw e => .throw e
    | .oob w => .oob w
  else convStr grouped bits signed g v

partial def sweepLoop (buf grouped : Bool) (bits : Nat) (signed : Bool) (g : Byte) (v hi : Int) (n : Nat) (h : UInt64) : String :=
  if v > hi then s!"ok n={n} fnv={hex16 h}"
  else
    match one buf grouped bits signed g v with
    | .ok c => sweepLoop buf grouped bits signed g (v + 1) hi (n + 1) (fnvConv h c)
    | .throw e => s!"throw {e.name} value={v}"
    | .oob w => s!"oob {w} value={v}"

def smNext (s : UInt64) : UInt64 × UInt64 :=
  let s := s + 0x9E3779B97F4A7C15
  let z := s
  let z := (z ^^^ (z >>> 30)) * 0xBF58476D1CE4E5B9
  let z := (z ^^^ (z >>> 27)) * 0x94D049BB133111EB
  (s, z ^^^ (z >>> 31))

def randValue (bits : Nat) (signed : Bool) (r1 r2 : UInt64) : Int :=
  let k := r1.toNat % (bits + 1)
  let m := r2.toNat % 2 ^ k
  if !signed then (m : Int)
  else
    let u := if (r1.toNat / 2 ^ 32) % 2 = 1 then (2 ^ bits - m) % 2 ^ bits else m
    if u < 2 ^ (bits - 1) then (u : Int) else (u : Int) - (2 ^ bits : Nat)

partial def rsweepLoop (buf grouped : Bool) (bits : Nat) (signed : Bool) (g : Byte) (s : UInt64) (left n : Nat) (h : UInt64) : String :=
  if left = 0 then s!"ok n={n} fnv={hex16 h}"
  else
    let (s, r1) := smNext s
    let (s, r2) := smNext s
    let v := randValue bits signed r1 r2
    match one buf grouped bits signed g v with
    | .ok c => rsweepLoop buf grouped bits signed g s (left - 1) (n + 1) (fnvConv h c)
    | .throw e => s!"throw {e.name} value={v}"
    | .oob w => s!"oob {w} value={v}"

def variant (s : String) : Option Bool :=
  if s == "str" then some false else if s == "buf" then some true else none

def step (_ : Unit) (line : String) : Unit × String :=
  ((), match tokens line with
  | ["case", _] => "ok"
  | ["i2s", "str", ty, val, g] =>
    match parseType ty, val.toInt?, parseGroup g with
    | some (bits, signed), some v, some (grouped, gb) =>
      if !inType bits signed v then "bad-op" else
      resLine (convStr grouped bits signed gb v) fun c => s!"ok {showText c.text} len={c.n}"
    | _, _, _ => "bad-op"
  | ["i2s", "buf", ty, val, g, extra] =>
    match parseType ty, val.toInt?, parseGroup g, extra.toNat? with
    | some (bits, signed), some v, some (grouped, gb), some ex =>
      if !inType bits signed v then "bad-op" else
      resLine (convBuf grouped bits signed gb v ex) fun (c, note) => s!"ok {showText c.text} ret={c.n} {note}"
    | _, _, _, _ => "bad-op"
  | ["i2s", "sweep", var, ty, lo, hi, g] =>
    match variant var, parseType ty, lo.toInt?, hi.toInt?, parseGroup g with
    | some buf, some (bits, signed), some lo, some hi, some (grouped, gb) =>
      if !inType bits signed lo || !inType bits signed hi then "bad-op" else
      sweepLoop buf grouped bits signed gb lo hi 0 fnvInit
    | _, _, _, _, _ => "bad-op"
  | ["i2s", "rsweep", var, ty, seed, count, g] =>
    match variant var, parseType ty, seed.toNat?, count.toNat?, parseGroup g with
    | some buf, some (bits, signed), some seed, some count, some (grouped, gb) =>
      rsweepLoop buf grouped bits signed gb (UInt64.ofNat seed) count 0 fnvInit
    | _, _, _, _, _ => "bad-op"
  -- implementation-only oracle sweeps (every value against an independent reference): the model's
  -- answer is what the theorems state for all values, "no mismatch"
  | ["i2s", "xsweep", ty, g] =>
    match parseType ty, parseGroup g with
    | some (bits, _), some _ => if bits ≤ 32 then s!"ok n={2 ^ bits} mismatches=0" else "bad-op"
    | _, _ => "bad-op"
  | ["i2s", "xrsweep", ty, seed, count, g] =>
    match parseType ty, seed.toNat?, count.toNat?, parseGroup g with
    | some _, some _, some count, some _ => s!"ok n={count} mismatches=0"
    | _, _, _, _ => "bad-op"
  | _ => "bad-op")

def main : IO Unit := run () step
