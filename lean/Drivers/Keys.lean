import CelmaVerif.Base.Proto
import CelmaVerif.Model.Keys
import CelmaVerif.Model.KeysCmdline
import CelmaVerif.Model.KeysSub
/- line-protocol driver for the keys component (C05)
   `table` = the plain arguments (`Handler::mArguments`), `sub` = the sub-group arguments of the same
   handler (`Handler::mSubGroupArgs`); the payload of an entry is the GLOBAL definition index (plain and
   sub-group arguments counted together). -/
open CelmaVerif CelmaVerif.Keys CelmaVerif.Proto

structure St where
  table : List (Key × Nat) := []
  sub : List (Key × Nat) := []

def toChars (bs : List Nat) : List Char := bs.map Char.ofNat
def ofChars (cs : List Char) : List Nat := cs.map Char.toNat
def b01 (b : Bool) : String := if b then "1" else "0"

def resLine {α : Type} (r : Res α) (f : α → String) : String :=
  match r with
  | .ok a => f a
  | .throw e => s!"throw {e.name}"
  | .oob w => s!"oob {w}"

def findLine (r : Res (Option (Nat × Nat))) : String :=
  resLine r fun
    | some (_, payload) => s!"ok {payload}"
    | none => "ok none"

def step (s : St) (line : String) : St × String :=
  match tokens line with
  | ["case", _] => ({}, "ok")
  | ["keys", "add", hx] =>
    match hexDecode hx with
    | some bs =>
      let idx := s.table.length + s.sub.length
      -- `ArgumentKey( spec)`, then `mArguments.addArgument( obj, key, &mSubGroupArgs)`; with no sub-group
      -- argument defined this is `addArgumentSpec s.table spec idx`
      match (do let k ← Key.parse (toChars bs); addArgumentChecked s.table s.sub k idx) with
      | .ok t => ({ s with table := t }, s!"ok idx={idx}")
      | .throw e => (s, s!"throw {e.name}")
      | .oob w => (s, s!"oob {w}")
    | none => (s, "bad-op")
  | ["keys", "addsub", hx] =>
    match hexDecode hx with
    | some bs =>
      let idx := s.table.length + s.sub.length
      -- `ArgumentKey( spec)`, then `mSubGroupArgs.addArgument( obj, key, &mArguments)`
      match (do let k ← Key.parse (toChars bs); addArgumentChecked s.sub s.table k idx) with
      | .ok t => ({ s with sub := t }, s!"ok idx={idx}")
      | .throw e => (s, s!"throw {e.name}")
      | .oob w => (s, s!"oob {w}")
    | none => (s, "bad-op")
  | ["keys", "find", abbr, hx] =>
    match hexDecode hx, abbr == "0" || abbr == "1" with
    | some bs, true =>
      (s, findLine (do let k ← Key.parse (toChars bs); findArg (abbr == "1") s.table k))
    | _, _ => (s, "bad-op")
  | ["keys", "findc", abbr, hx] =>
    match hexDecode hx, abbr == "0" || abbr == "1" with
    | some [b], true => (s, findLine (findArg (abbr == "1") s.table (Key.ofChar (Char.ofNat b))))
    | _, _ => (s, "bad-op")
  | ["keys", "word", abbr, hx] =>
    match hexDecode hx, abbr == "0" || abbr == "1" with
    | some bs, true =>
      match classifyWord (toChars bs) with
      | none => (s, "bad-op")        -- not one of the two plain key words: outside this model
      | some _ => (s, findLine (cmdLookupT (abbr == "1") s.table s.sub (toChars bs)))
    | _, _ => (s, "bad-op")
  | ["keys", "parse", hx] =>
    match hexDecode hx with
    | some bs =>
      (s, resLine (Key.parse (toChars bs)) fun k =>
        let sh := match k.short with | some c => [c.toNat] | none => []
        s!"ok short={hexOut sh} long={hexOut (ofChars k.long)} str={hexOut (ofChars k.toString)}")
    | none => (s, "bad-op")
  | ["keys", "cmp", ha, hb] =>
    match hexDecode ha, hexDecode hb with
    | some a, some b =>
      (s, resLine (do let ka ← Key.parse (toChars a); let kb ← Key.parse (toChars b); pure (ka, kb)) fun (ka, kb) =>
        s!"ok eq={b01 (ka.eq kb)} mismatch={b01 (ka.mismatch kb)} sw={b01 (ka.startsWith kb)} lt={b01 (ka.lt kb)}")
    | _, _ => (s, "bad-op")
  | _ => (s, "bad-op")

def main : IO Unit := run ({} : St) step
