import CelmaVerif.Base.Proto
import CelmaVerif.Model.Log
/- line-protocol driver for the log routing / filter component (C14); see harness/log_filters.cpp
   for the operations -/
open CelmaVerif CelmaVerif.Log CelmaVerif.Proto CelmaVerif.Generated.LogDefs

def bytesToChars (bs : List Nat) : List Char := bs.map Char.ofNat

/-- per destination the number of messages added by the operation -/
def deliveries (before after : World) : String :=
  let per (e e' : LogEntry) : List String :=
    (e.log.dests.zip e'.log.dests).map fun (d, d') =>
      s!" {e.name}/{d.name}={d'.received.length - d.received.length}"
  "ok" ++ String.join ((before.logs.zip after.logs).map fun (e, e') => String.join (per e e'))

def stateLine (w : World) : String :=
  let dest (d : Dest) : String := s!"{d.name}:{d.received.length}"
  let entry (e : LogEntry) : String := s!" {e.name}:{e.id}[{String.intercalate "," (e.log.dests.map dest)}]"
  "ok" ++ String.join (w.logs.map entry)

def parseTarget (s : String) : Target :=
  match s.splitOn "/" with
  | [l] => .log l
  | l :: rest => .dest l (String.intercalate "/" rest)
  | [] => .log s

def parseLevel (s : String) : Option Nat :=
  match s.toNat? with
  | some n => if n ≤ 6 then some n else none
  | none => none

def parseIds (s : String) : Option Nat :=
  match s.toNat? with
  | some n => if n < 4294967296 then some n else none
  | none => none

def sendResult (w : World) : Res (World × Option Exc) → World × String
  | .ok (w', none) => (w', deliveries w w')
  | .ok (w', some e) => (w', s!"throw {e.name}")
  | .throw e => (w, s!"throw {e.name}")
  | .oob s => (w, s!"oob {s}")

def retLine : Res (Ret Bool) → String
  | .ok (.val b) => s!"ok discard={b}"
  | .ok (.threw e) => s!"throw {e.name}"
  | .throw e => s!"throw {e.name}"
  | .oob s => s!"oob {s}"

/-- all 49 messages in the order level-major; per destination one digit per message -/
def sweep (w : World) (ids : Nat) : World × String :=
  let msgs : List Msg := (List.range 7).flatMap fun lv => (List.range 7).map fun cl => ⟨lv, cl⟩
  let ndest := (w.logs.map fun e => e.log.dests.length).sum
  let init : Res (World × List (List Nat)) := .ok (w, List.replicate ndest [])
  let r := msgs.foldl (fun acc m =>
    match acc with
    | .ok (w, cols) =>
      match w.logIds ids m with
      | .ok w' =>
        let counts := (w.logs.zip w'.logs).flatMap fun (e, e') =>
          (e.log.dests.zip e'.log.dests).map fun (d, d') => d'.received.length - d.received.length
        .ok (w', (cols.zip counts).map fun (c, n) => (if n > 9 then 9 else n) :: c)
      | .throw e => .throw e
      | .oob s => .oob s
    | other => other) init
  match r with
  | .ok (w', cols) =>
    let names := w.logs.flatMap fun e => e.log.dests.map fun d => s!"{e.name}/{d.name}"
    let col (c : List Nat) : String := String.ofList (c.reverse.map fun n => Char.ofNat (48 + n))
    (w', "ok" ++ String.join ((names.zip cols).map fun (n, c) => s!" {n}={col c}"))
  | .throw e => (w, s!"throw {e.name}")
  | .oob s => (w, s!"oob {s}")

def presweep (w : World) (ids : Nat) : String :=
  let ch (lv : Nat) : Except String Char :=
    match w.discardById ids lv with
    | .ok (.val true) => .ok 't'
    | .ok (.val false) => .ok 'f'
    | .ok (.threw _) => .ok 'E'
    | .throw _ => .ok 'E'
    | .oob s => .error s
  match (List.range 7).mapM ch with
  | .ok cs => "ok " ++ String.ofList cs
  | .error s => s!"oob {s}"

def step (w : World) (line : String) : World × String :=
  match tokens line with
  | ["case", _] => (World.init, "ok")
  | ["log", "new", name] =>
    match w.findCreateLog name with
    | (w', .val id) => (w', s!"ok id={id}")
    | (w', .threw e) => (w', s!"throw {e.name}")
  | ["dest", "add", l, d] =>
    match w.addDest l d with
    | some w' => (w', "ok")
    | none => (w, "ok nolog")
  | ["dest", "remove", l, d] =>
    match w.removeDest l d with
    | some w' => (w', "ok")
    | none => (w, "ok nolog")
  | ["filter", tgt, kind, arg] =>
    let spec : Option FilterSpec :=
      match kind with
      | "max" => (parseLevel arg).map .max
      | "min" => (parseLevel arg).map .min
      | "level" => (parseLevel arg).map .level
      | "classes" => (hexDecode arg).map fun bs => .classes (bytesToChars bs)
      | _ => none
    match spec with
    | none => (w, "bad-op")
    | some s =>
      match w.setFilter (parseTarget tgt) s with
      | .ok (w', .done) => (w', "ok")
      | .ok (w', .nolog) => (w', "ok nolog")
      | .ok (w', .threw e) => (w', s!"throw {e.name}")
      | .throw e => (w, s!"throw {e.name}")
      | .oob t => (w, s!"oob {t}")
  | ["policy", p] =>
    match p with
    | "ignore" => (w.setPolicy .ignore, "ok")
    | "replace" => (w.setPolicy .replace, "ok")
    | "exception" => (w.setPolicy .exception, "ok")
    | _ => (w, "bad-op")
  | ["send", ids, lv, cl] =>
    match parseIds ids, parseLevel lv, parseLevel cl with
    | some ids, some lv, some cl =>
      sendResult w (match w.logIds ids ⟨lv, cl⟩ with
        | .ok w' => .ok (w', none) | .throw e => .throw e | .oob s => .oob s)
    | _, _, _ => (w, "bad-op")
  | ["sendname", name, lv, cl] =>
    match parseLevel lv, parseLevel cl with
    | some lv, some cl =>
      sendResult w (match w.logName name ⟨lv, cl⟩ with
        | .ok w' => .ok (w', none) | .throw e => .throw e | .oob s => .oob s)
    | _, _ => (w, "bad-op")
  | ["macro", ids, lv, cl] =>
    match parseIds ids, parseLevel lv, parseLevel cl with
    | some ids, some lv, some cl => sendResult w (w.macroSend ids ⟨lv, cl⟩)
    | _, _, _ => (w, "bad-op")
  | ["macroname", name, lv, cl] =>
    match parseLevel lv, parseLevel cl with
    | some lv, some cl => sendResult w (w.macroSendName name ⟨lv, cl⟩)
    | _, _ => (w, "bad-op")
  | ["precheck", ids, lv] =>
    match parseIds ids, parseLevel lv with
    | some ids, some lv => (w, retLine (w.discardById ids lv))
    | _, _ => (w, "bad-op")
  | ["precheckname", name, lv] =>
    match parseLevel lv with
    | some lv => (w, retLine (w.discardByName name lv))
    | none => (w, "bad-op")
  | ["sweep", ids] =>
    match parseIds ids with
    | some ids => sweep w ids
    | none => (w, "bad-op")
  | ["presweep", ids] =>
    match parseIds ids with
    | some ids => (w, presweep w ids)
    | none => (w, "bad-op")
  | ["parse", hx] =>
    match hexDecode hx with
    | some bs => (w, s!"ok class={text2logClass (cstr (bytesToChars bs))}")
    | none => (w, "bad-op")
  | ["state"] => (w, stateLine w)
  | _ => (w, "bad-op")

def main : IO Unit := run World.init step
