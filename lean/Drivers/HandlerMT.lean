import CelmaVerif.Base.Proto
import CelmaVerif.Model.Interleave
/-
  line-protocol driver for the handlermt component (C09).

  The per-thread expectation of a `run` line is the result of the thread's job *run alone* in
  the interleaving model (`Job.aloneResult`, the quantity `C09_jobs_noninterference_partial` proves to
  be the result under every complete schedule).  The model covers "simple" threads only: arguments
  of kind vec_str / list_str / vec_int (decimal tokens) / str / int / flag without checks,
  constraints, formats or cardinalities, used as `-k value` / `--long value` / `-f`.  For every
  other thread (also: `help` threads, the `group` thread, whose handlers belong to the process-wide
  `Groups` object, and `file` threads, which read an argument file / environment variable of their own) the driver prints `t<k>=?` and the harness' own sequential run is the only oracle.
-/
open CelmaVerif CelmaVerif.Proto CelmaVerif.Interleave

structure ArgD where
  short : Option Char
  long : Option String
  name : String
  kind : String
  sep : Char
  plain : Bool          -- no checks / constraints / ... : covered by the model
deriving Inhabited

structure ThreadD where
  args : List ArgD := []
  argv : List String := []
  hasHc : Bool := false
  help : Bool := false
  group : Bool := false     -- group thread (handlers owned by the process-wide Groups object): outside the fragment
  file : Bool := false      -- thread with an argument file / environment variable of its own: outside the fragment
deriving Inhabited

structure St where
  threads : List (Nat × ThreadD) := []

def St.get (s : St) (t : Nat) : ThreadD :=
  match s.threads.find? (·.1 == t) with
  | some (_, d) => d
  | none => {}

def St.set (s : St) (t : Nat) (d : ThreadD) : St :=
  { threads := (t, d) :: s.threads.filter (·.1 != t) }

def parseKey (spec : String) : Option (Option Char × Option String × String) :=
  match spec.splitOn "," with
  | [a] =>
    if a.length == 1 then some (a.toList.head?, none, a)
    else if a.length > 1 then some (none, some a, a) else none
  | [a, b] =>
    if a.length == 1 && b.length > 1 then some (a.toList.head?, some b, a)
    else if b.length == 1 && a.length > 1 then some (b.toList.head?, some a, a)
    else none
  | _ => none

def kinds : List String := ["int", "str", "flag", "vec_int", "vec_str", "set_int", "list_str"]
def knownExtras : List String := ["check", "mand", "multi", "unique", "sort", "clear", "card", "constr", "fmt"]

/-- parse an `arg` line; `none` = bad-op -/
def parseArg (toks : List String) : Option ArgD := do
  let key ← kv toks "key"
  let kind ← kv toks "kind"
  if !kinds.contains kind then none
  let (sh, lg, name) ← parseKey key
  let mut sep := ','
  let mut plain := true
  for t in toks.drop 1 do
    match t.splitOn "=" with
    | k :: rest =>
      if rest.isEmpty then none
      let v := "=".intercalate rest
      if k == "t" || k == "key" || k == "kind" then pure ()
      else if k == "sep" then
        match v.toList with
        | [c] => sep := c
        | _ => none
      else if knownExtras.contains k then plain := false
      else none
    | [] => none
  pure { short := sh, long := lg, name := name, kind := kind, sep := sep, plain := plain }

def isList (k : String) : Bool := k == "vec_str" || k == "list_str" || k == "vec_int"

def allDigits (s : List Char) : Bool := !s.isEmpty && s.length ≤ 9 && s.all Char.isDigit

/-- which argument does a command line word name? -/
def findArg (args : List ArgD) (w : String) : Option Nat :=
  if w.startsWith "--" then
    let l := (w.drop 2).toString
    args.findIdx? (fun a => a.long == some l)
  else if w.startsWith "-" && w.length == 2 then
    let c := w.toList.getD 1 ' '
    args.findIdx? (fun a => a.short == some c)
  else none

/-- command line → uses (argument index, value); `none` when outside the modelled shape -/
def parseArgv (args : List ArgD) : List String → Option (List (Nat × Option String))
  | [] => some []
  | w :: rest =>
    match findArg args w with
    | none => none
    | some k =>
      match args[k]? with
      | none => none
      | some a =>
        if a.kind == "flag" then (parseArgv args rest).map ((k, none) :: ·)
        else match rest with
          | v :: rest' =>
            if v.startsWith "-" || v.isEmpty then none
            else (parseArgv args rest').map ((k, some v) :: ·)
          | [] => none

def natCanon (s : List Char) : String := toString (String.ofList s).toNat!

/-- expectation for one thread, `?` when the model does not cover it -/
def expectThread (t : Nat) (d : ThreadD) : String := Id.run do
  if d.hasHc || d.args.any (fun a => !a.plain || a.kind == "set_int") then return "?"
  -- keys must be unambiguous for the exact lookup modelled here
  let shorts := d.args.filterMap (·.short)
  let longs := d.args.filterMap (·.long)
  if shorts.eraseDups.length != shorts.length || longs.eraseDups.length != longs.length then return "?"
  -- long keys that are prefixes of each other would bring abbreviation matching into play
  if longs.any (fun a => longs.any (fun b => a != b && b.startsWith a)) then return "?"
  match parseArgv d.args d.argv with
  | none => return "?"
  | some uses =>
    -- scalar arguments at most once
    let scalarUses := uses.filterMap (fun (k, _) => match d.args[k]? with
      | some a => if isList a.kind then none else some k
      | none => none)
    if scalarUses.eraseDups.length != scalarUses.length then return "?"
    -- numeric values must be plain decimal
    for (k, v) in uses do
      match d.args[k]?, v with
      | some a, some v =>
        if a.kind == "int" && !allDigits v.toList then return "?"
        if a.kind == "vec_int" && !(splitDrop a.sep v.toList).all allDigits then return "?"
      | _, _ => pure ()
    -- the list-valued part goes through the interleaving model's thread program
    let job : Job := { seps := d.args.map (·.sep),
                       uses := uses.filterMap (fun (k, v) => match d.args[k]?, v with
                         | some a, some v => if isList a.kind then some (k, v.toList) else none
                         | _, _ => none) }
    -- thread index 0 in a one-job workload: the result of a run alone does not depend on it
    let _ := t
    let lists := job.aloneResult [job] 0
    let mut parts : List String := []
    let mut idx := 0
    for a in d.args do
      let mine := uses.filter (·.1 == idx)
      let txt :=
        if isList a.kind then
          let vals := lists.getD idx []
          if vals.isEmpty then "-"
          else "|".intercalate (vals.map fun v => if a.kind == "vec_int" then natCanon v else String.ofList v)
        else if a.kind == "flag" then (if mine.isEmpty then "0" else "1")
        else if a.kind == "int" then
          match mine with
          | (_, some v) :: _ => natCanon v.toList
          | _ => "0"
        else
          match mine with
          | (_, some v) :: _ => v
          | _ => "-"
      parts := parts ++ [a.name ++ "=" ++ txt]
      idx := idx + 1
    return "ok:" ++ "/".intercalate parts

def step (s : St) (line : String) : St × String :=
  let toks := tokens line
  match toks with
  | ["case", _] => ({}, "ok")
  | "arg" :: _ =>
    match (kv toks "t").bind String.toNat?, parseArg toks with
    | some t, some a =>
      if t > 63 then (s, "bad-op") else
      let d := s.get t
      (s.set t { d with args := d.args ++ [a] }, "ok")
    | _, _ => (s, "bad-op")
  | "hc" :: _ =>
    match (kv toks "t").bind String.toNat?, kv toks "kind", kv toks "spec" with
    | some t, some k, some sp =>
      if t > 63 || sp.isEmpty || !(["all_of", "any_of", "one_of"].contains k) then (s, "bad-op") else
      let d := s.get t
      (s.set t { d with hasHc := true }, "ok")
    | _, _, _ => (s, "bad-op")
  | ["help", tt] =>
    -- usage threads (Handler::usage -> Singleton<Groups>): outside the driver's fragment
    match (kv [tt] "t").bind String.toNat? with
    | some t =>
      if t > 63 then (s, "bad-op") else
      let d := s.get t
      (s.set t { d with hasHc := true, help := true }, "ok")
    | none => (s, "bad-op")
  | "file" :: tt :: rest =>
    -- `file t=<k> mode=<argfile|progarg|env> [hold=0|1]`: the thread reads (part of) its arguments from a file / an
    -- environment variable of its own (Handler::readArgumentFile / checkReadEnvVarArgs): outside the driver's fragment
    match (kv [tt] "t").bind String.toNat? with
    | some t =>
      let keysOk := toks.length ≥ 3 && toks.length ≤ 4 && rest.all fun w =>
        ["t", "mode", "hold"].contains ((w.splitOn "=").headD "")
      let m := (kv toks "mode").getD ""
      let h := (kv toks "hold").getD "0"
      if t > 63 || !keysOk || !(["argfile", "progarg", "env"].contains m) || (h != "0" && h != "1") then (s, "bad-op") else
      let d := s.get t
      (s.set t { d with hasHc := true, file := true }, "ok")
    | none => (s, "bad-op")
  | "fline" :: tt :: nn :: _ :: _ =>
    -- `fline t=<k> n=<1..2000> <word>...`: one line of the thread's file, written n times
    match (kv [tt] "t").bind String.toNat?, kv [nn] "n" with
    | some t, some c =>
      if t > 63 || c.isEmpty || c.length > 4 || !c.toList.all Char.isDigit then (s, "bad-op") else
      match c.toNat? with
      | some x => if x < 1 || x > 2000 then (s, "bad-op") else (s, "ok")
      | none => (s, "bad-op")
    | _, _ => (s, "bad-op")
  | ["bracket", _, _] =>
    -- `bracket t=<k> at=<n>`: where the thread calls addBracketHandler; no effect on a command line without brackets
    match (kv toks "t").bind String.toNat?, kv toks "at" with
    | some t, some a =>
      if t > 63 || a.isEmpty || a.length > 3 || !a.toList.all Char.isDigit then (s, "bad-op") else (s, "ok")
    | _, _ => (s, "bad-op")
  | "group" :: _ =>
    -- `group t=<k> handlers=<1..8> loops=<1..99> [brackets=<0..handlers-1>] [remove=each|all]`
    let num (key : String) (lo hi : Nat) : Option (Option Nat) :=   -- none = malformed, some none = absent
      match kv toks key with
      | none => some none
      | some v =>
        if v.isEmpty then some none
        else if v.length > 2 || !v.toList.all Char.isDigit then none
        else match v.toNat? with
          | some x => if x < lo || x > hi then none else some (some x)
          | none => none
    let keysOk := (toks.drop 1).all fun w =>
      ["t", "handlers", "loops", "brackets", "remove"].contains ((w.splitOn "=").headD "")
    match (kv toks "t").bind String.toNat?, num "handlers" 1 8, num "loops" 1 99 with
    | some t, some (some hn), some (some _) =>
      let rm := (kv toks "remove").getD "each"
      if t > 63 || !keysOk || (rm != "each" && rm != "all") then (s, "bad-op") else
      match num "brackets" 0 (hn - 1) with
      | none => (s, "bad-op")
      | some _ =>
        let d := s.get t
        (s.set t { d with hasHc := true, group := true }, "ok")
    | _, _, _ => (s, "bad-op")
  | "argv" :: tt :: words =>
    match (kv [tt] "t").bind String.toNat? with
    | some t =>
      if t > 63 then (s, "bad-op") else
      let d := s.get t
      (s.set t { d with argv := words }, "ok")
    | none => (s, "bad-op")
  | "run" :: _ =>
    match (kv toks "n").bind String.toNat? with
    | some n =>
      if n < 1 || n > 64 || s.threads.any (·.1 ≥ n) then (s, "bad-op")
      else if s.threads.any (fun p => p.2.group && p.2.help) || (s.threads.filter (·.2.group)).length > 1 then (s, "bad-op")
      else if s.threads.any (·.2.file) && s.threads.any (fun p => p.2.group || p.2.help) then (s, "bad-op")
      else
      let parts := (List.range n).map fun t => s!"t{t}={expectThread t (s.get t)}"
      (s, s!"ok threads={n} " ++ " ".intercalate parts)
    | none => (s, "bad-op")
  | _ => (s, "bad-op")

def main : IO Unit := run ({} : St) step
