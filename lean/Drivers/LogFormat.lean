import CelmaVerif.Base.Proto
import CelmaVerif.Model.LogFormat
/- line-protocol driver for the log formatting component (C16) -/
open CelmaVerif CelmaVerif.LogFormat CelmaVerif.Proto

structure St where
  cr : Option Creator := none       -- the creator and, in `fields`, the definition it writes into
  sc : Scopes := {}
  msg : Option Msg := none
  tf : List (Text × Text) := []     -- strftime table of the current message: format → result
  gids : List Nat := []             -- the ids `Logging::addAttribute` returned to the application, in call order

def typIndex : FieldType → Nat
  | .constant => 0 | .date => 1 | .time => 2 | .time_ms => 3 | .time_us => 4 | .dateTime => 5
  | .pid => 6 | .threadId => 7 | .lineNbr => 8 | .functionName => 9 | .fileName => 10
  | .msgLevel => 11 | .msgClass => 12 | .errorNbr => 13 | .text => 14 | .attribute => 15

def fieldKind : String → Option FieldType
  | "constant" => some .constant | "date" => some .date | "time" => some .time
  | "time_ms" => some .time_ms | "time_us" => some .time_us | "date_time" => some .dateTime
  | "pid" => some .pid | "thread_id" => some .threadId | "line" => some .lineNbr
  | "func" => some .functionName | "file" => some .fileName | "level" => some .msgLevel
  | "class" => some .msgClass | "errnr" => some .errorNbr | "text" => some .text
  | "attribute" => some .attribute
  | _ => none

def dump (fs : List Field) : String :=
  let one (f : Field) : String :=
    s!"{typIndex f.typ}/{hexOut f.const}/{f.width}/{if f.left then "L" else "R"}"
  s!"ok n={fs.length} fields={if fs.isEmpty then "-" else String.intercalate "," (fs.map one)}"

/-- "null" = nullptr, otherwise hex -/
def sepArg (s : String) : Option (Option Text) :=
  if s == "null" then some none else (hexDecode s).map some

/-- "n:v,n:v" -/
def pairList (s : String) : Option (List (Text × Text)) :=
  if s == "-" || s == "" then some []
  else ((s.splitOn ",").filter (fun p => p ≠ "" ∧ p ≠ "-")).mapM fun p =>
    match p.splitOn ":" with
    | [a, b] => match hexDecode a, hexDecode b with
      | some x, some y => some (x, y)
      | _, _ => none
    | _ => none

/-- "n:v,n:v;n:v": containers separated by ';', innermost first -/
def chainArg (s : String) : Option (List Attrs) :=
  if s == "-" || s == "" then some [] else (s.splitOn ";").mapM pairList

def kvInt (t : List String) (k : String) : Option Int :=
  match kv t k with
  | some v => v.toInt?
  | none => some 0

def kvNat (t : List String) (k : String) : Option Nat :=
  match kv t k with
  | some v => v.toNat?
  | none => some 0

def kvHex (t : List String) (k : String) : Option Text :=
  match kv t k with
  | some v => hexDecode v
  | none => some []

def env (s : St) : Env :=
  { strftime := fun f _ => match s.tf.find? (fun p => p.1 = f) with | some p => p.2 | none => []
    glob := s.sc.glob }

/-- effective strftime formats used by a definition -/
def timeFormats (fs : List Field) : List Text :=
  fs.filterMap fun f =>
    let d : Option Text := match f.typ with
      | .date => some (bytes "%F") | .time => some (bytes "%T") | .dateTime => some (bytes "%F %T")
      | _ => none
    d.map fun d => if f.const = [] then d else f.const

def volatileField (f : Field) : Bool :=
  match f.typ with
  | .date | .time | .dateTime | .time_ms | .time_us | .pid | .threadId => true
  | _ => false

def render (s : St) (m : Msg) (fs : List Field) : String :=
  "ok " ++ hexOut (format (env s) m {} fs).out

def evStep (s : St) (e : Ev) : St × String :=
  match s.sc.step e with
  | some sc => ({ s with sc := sc }, "ok")
  | none => (s, "bad-op")

def defStep (s : St) (c : Creator) (t : Tok) : St × String := ({ s with cr := some (c.step t) }, "ok")

def slogParts (s : St) (m : Msg) (spec : String) : Option Text :=
  if spec == "-" || spec == "" then some []
  else (spec.splitOn ",").foldlM (fun acc p =>
    let body := (p.drop 2).toString
    if p.startsWith "t:" then (hexDecode body).map (acc ++ ·)
    else if p.startsWith "a:" then (hexDecode body).map fun n => acc ++ attrValue (env s) m n
    else none) []

def step (s : St) (line : String) : St × String :=
  let t := tokens line
  match t with
  | ["case", _] => ({}, "ok")
  | ["def", "begin"] => ({ s with cr := some (Creator.new [] none) }, "ok")
  | ["def", "begin", sep] =>
    match sepArg sep with
    | some sp => ({ s with cr := some (Creator.new [] sp) }, "ok")
    | none => (s, "bad-op")
  | ["def", "creator"] =>
    match s.cr with
    | some c => ({ s with cr := some (Creator.new c.fields none) }, "ok")
    | none => (s, "bad-op")
  | ["def", "creator", sep] =>
    match s.cr, sepArg sep with
    | some c, some sp => ({ s with cr := some (Creator.new c.fields sp) }, "ok")
    | _, _ => (s, "bad-op")
  | ["def", "end"] =>
    match s.cr with
    | some c => (s, dump c.fields)
    | none => (s, "bad-op")
  | ["def", "width", w] =>
    match s.cr, w.toInt? with
    | some c, some w => defStep s c (.width w)
    | _, _ => (s, "bad-op")
  | ["def", "left"] =>
    match s.cr with
    | some c => defStep s c .left
    | none => (s, "bad-op")
  | ["def", "sep", sep] =>
    match s.cr, sepArg sep with
    | some c, some sp => defStep s c (.sep sp)
    | _, _ => (s, "bad-op")
  | ["def", "datefmt", f] =>
    match s.cr, hexDecode f with
    | some c, some f => defStep s c (.fmt f)
    | _, _ => (s, "bad-op")
  | ["def", "field", k] =>
    match s.cr, fieldKind k with
    | some c, some k => defStep s c (.field k)
    | _, _ => (s, "bad-op")
  | ["def", "const", x] =>
    match s.cr, hexDecode x with
    | some c, some x => defStep s c (.const x)
    | _, _ => (s, "bad-op")
  | ["def", "attr", x] =>
    match s.cr, hexDecode x with
    | some c, some x => defStep s c (.attr x)
    | _, _ => (s, "bad-op")
  | ["attr", "global", n, v] =>
    match hexDecode n, hexDecode v with
    | some n, some v => evStep { s with gids := s.gids ++ [s.sc.next] } (.global n v)
    | _, _ => (s, "bad-op")
  | ["attr", "removeentry", j] =>          -- removeAttributeEntry( id returned by the j-th addAttribute call )
    match j.toNat?.bind (s.gids[·]?) with
    | some k => evStep s (.removeId k)
    | none => (s, "bad-op")
  | ["attr", "removeunknown"] =>           -- removeAttributeEntry( an id that was never handed out )
    evStep s (.removeId (s.sc.next + 1000))
  | ["attr", "remove", n] =>
    match hexDecode n with
    | some n => evStep s (.remove n)
    | none => (s, "bad-op")
  | ["attr", "get", n] =>
    match hexDecode n with
    | some n => (s, "ok " ++ hexOut (s.sc.glob.get n))
    | none => (s, "bad-op")
  | ["scope", "push", n, v] =>
    match hexDecode n, hexDecode v with
    | some n, some v => evStep s (.push n v)
    | _, _ => (s, "bad-op")
  | ["scope", "pop"] => evStep s .pop
  | ["scope", "copydrop", i] =>            -- a copy of live scope object number i is made and destroyed
    match i.toNat?.bind (s.sc.live[·]?) with
    | some k => evStep s (.removeId k)
    | none => (s, "bad-op")
  | ["scope", "drop", i] =>
    match i.toNat? with
    | some i => evStep s (.drop i)
    | none => (s, "bad-op")
  | "msg" :: _ =>
    match kvNat t "level", kvNat t "class", kvInt t "errnr", kvInt t "line", kvHex t "file",
          kvInt t "pid", kvNat t "tid", kvInt t "time", kvNat t "us", kvHex t "text",
          chainArg ((kv t "attrs").getD "-"), pairList ((kv t "tf").getD "-") with
    | some level, some cls, some errnr, some ln, some file, some pid, some tid, some time, some us,
      some text, some chain, some tf =>
      let func := bytes ((kv t "func").getD "f")
      let m : Msg := { level := level, cls := cls, errNbr := errnr, line := ln, file := baseName file,
                       func := func, pid := pid, tid := tid, time := time, usec := us, text := text,
                       attrs := chain }
      ({ s with msg := some m, tf := tf }, s!"ok file={hexOut m.file} func={hexOut m.func}")
    | _, _, _, _, _, _, _, _, _, _, _, _ => ({ s with msg := none }, "bad-op")
  | ["format"] | ["format", "dest"] =>
    match s.cr, s.msg with
    | some c, some m =>
      if (timeFormats c.fields).all (fun f => s.tf.any (fun p => p.1 = f)) then (s, render s m c.fields)
      else (s, "bad-op no strftime table entry")
    | _, _ => (s, "bad-op")
  | "slog" :: _ =>
    match s.cr, kvNat t "level", kvNat t "class", kvInt t "errnr", kvInt t "line", kvHex t "file",
          chainArg ((kv t "attrs").getD "-") with
    | some c, some level, some cls, some errnr, some ln, some file, some chain =>
      if c.fields.any volatileField then (s, "bad-op")
      else
        let m0 : Msg := { level := if 1 ≤ level ∧ level ≤ 6 then level else 0,     -- StreamLog << LogLevel
                          cls := if cls ≤ 6 then cls else 0,                        -- StreamLog << LogClass
                          errNbr := errnr, line := ln, file := baseName file,
                          func := bytes ((kv t "func").getD "f"), attrs := chain }
        match slogParts s m0 ((kv t "parts").getD "-") with
        | some text =>
          -- ~StreamLog: an empty text is not delivered at all
          if text = [] then (s, "ok -") else (s, render s { m0 with text := text } c.fields)
        | none => (s, "bad-op")
    | _, _, _, _, _, _, _ => (s, "bad-op")
  | _ => (s, "bad-op")

def main : IO Unit := run ({} : St) step
