import CelmaVerif.Base.Proto
import CelmaVerif.Model.LogFiles
/- line-protocol driver for the rolling log files component (C15) -/
open CelmaVerif CelmaVerif.LogFiles CelmaVerif.Proto

structure St where
  w : Option World := none

/-- every file with a generation number below 100, oldest first (the harness lists the directory) -/
def listing (fs : Fs) : String :=
  let files := (List.range 100).reverse.filterMap fs.get
  let parts := files.map (fun f => hexOut (fileContent f))
  s!"n={files.length}" ++ (if parts.isEmpty then "" else " " ++ String.intercalate "|" parts)

def outcome (w : World) : Res Unit → String
  | .ok _ => "ok " ++ listing w.fs
  | .throw e => s!"throw {e.name} " ++ listing w.fs
  | .oob x => s!"oob {x}"

def step (s : St) (line : String) : St × String :=
  match tokens line with
  | ["case", _] => ({}, "ok")
  | ["start", kind, limit, gens] =>
    match s.w, (if kind == "counted" then some Kind.counted else if kind == "maxsize" then some Kind.maxsize else none),
          limit.toNat?, gens.toNat? with
    | none, some k, some l, some g =>
      let (w, r) := start ⟨k, l, g⟩ emptyFs
      ({ w := some w }, outcome w r)
    | _, _, _, _ => (s, "bad-op")
  | ["write", hx] =>
    match s.w, hexDecode hx with
    | some w, some m =>
      match w.pol with
      | none => (s, "bad-op")
      | some _ =>
        let (w', r) := w.step (.write m)
        ({ w := some w' }, outcome w' r)
    | _, _ => (s, "bad-op")
  | ["restart"] =>
    match s.w with
    | some w =>
      let (w', r) := w.step .restart
      ({ w := some w' }, outcome w' r)
    | none => (s, "bad-op")
  | _ => (s, "bad-op")

def main : IO Unit := Proto.run ({} : St) step
