import CelmaVerif.Base.Proto
import CelmaVerif.Model.ProgArgs.Handler
import CelmaVerif.Model.ProgArgs.Groups
import CelmaVerif.Model.ProgArgs.GroupsCross
import CelmaVerif.Model.ProgArgs.SubGroups
/- line-protocol driver for the argument handler model (C01–C04, C07 sources, C08) -/
open CelmaVerif CelmaVerif.Proto CelmaVerif.Keys CelmaVerif.ProgArgs

/-- the `pa sub begin` … `pa sub end` block being read: the options of the sub-group ARGUMENT and the
    sub handler's configuration (built exactly like the main one) -/
structure SubB where
  keySpec    : String
  mandatory  : Bool := false
  card       : Card := .unlimited       -- a TypedArgSubGroup has no cardinality unless one is installed
  deprecated : Bool := false
  cons       : List (CType × String) := []
  cfg        : Cfg := { args := [] }
  inits      : List DVal := []

structure St where
  building : Cfg := { args := [] }
  inits    : List DVal := []
  subs     : List SubDef := []          -- sub-group arguments of the main handler, definition order
  subInits : List (List DVal) := []
  cur      : Option SubB := none        -- open `pa sub` block
  bErr     : Option Exc := none        -- first set-up error of the configuration being built
  cfg      : Option (TCfg × TInits) := none
  prog     : Word := "prog".toList

def word (hx : String) : Option Word := (hexDecode hx).map (·.map Char.ofNat)
def wordOut (w : Word) : String := hexOut (w.map Char.toNat)

def splitOnChar (c : Char) (s : String) : List String := s.splitOn (String.singleton c)

def parseKeys (spec : String) : Res (List Key) :=
  ((splitOnChar ';' spec).filter (· ≠ "")).mapM (fun t => Key.parse t.toList)

def parseInt (s : String) : Option Int := s.toInt?

def parseCheckPlain (toks : List String) : Option Check :=
  match toks with
  | ["lower", v] => (parseInt v).map .lower
  | ["upper", v] => (parseInt v).map .upper
  | ["range", a, b] => do let a ← parseInt a; let b ← parseInt b; pure (.range a b)
  | ["values", l] => some (.values (((splitOnChar ',' l).filter (· ≠ "")).map String.toList) false)
  | ["values", l, "ic"] => some (.values (((splitOnChar ',' l).filter (· ≠ "")).map String.toList) true)
  | ["minlen", n] => n.toNat?.map .minLength
  | ["maxlen", n] => n.toNat?.map .maxLength
  | _ => none

/-- one `check=` option; the outer `none` = malformed (bad-op), an inner `throw` = the definition is
    refused at set-up (`std::regex`'s constructor throws std::regex_error, a std::runtime_error, for
    an invalid pattern; a pattern outside the modelled subset is refused the same way) -/
def parseCheck (s : String) : Option (Res Check) :=
  match splitOnChar ':' s with
  | ["pattern", hx] =>
    (word hx).map (fun p => match Regex.parse p with
      | some r => .ok (.pattern r)
      | none => .throw .runtime_error)
  | toks => (parseCheckPlain toks).map .ok

def parseCard (s : String) : Option Card :=
  match splitOnChar ':' s with
  | ["none"] => some .unlimited
  | ["max", n] => (parseInt n).map .max
  | ["exact", n] => (parseInt n).map .exact
  | ["range", a, b] => do let a ← parseInt a; let b ← parseInt b; pure (.range a b)
  | _ => none

def kindOf : String → Option Kind
  | "flag" => some .flag | "int" => some .int | "str" => some .str
  | "level" => some .level | "vec" => some .vecInt | _ => none

def defaultVMode : Kind → VMode
  | .flag => .none | .level => .optional | _ => .required

def defaultCard : Kind → Card
  | .flag => .max 1 | .int => .max 1 | .str => .max 1 | _ => .unlimited

def parseInit (k : Kind) (s : String) : Option DVal :=
  match k with
  | .flag => some (.flag (s == "1"))
  | .int => (parseInt s).map .int
  | .str => (word s).map .str
  | .level => (parseInt s).map .level
  | .vecInt => if s == "-" || s == "" then some (.vec []) else ((splitOnChar ',' s).mapM parseInt).map .vec

/-- one `pa arg …` line; `none` = malformed line (bad-op) -/
def parseArg (toks : List String) : Option (Res ArgDef × Option String) := do
  let kind ← (kv toks "kind").bind kindOf
  let keySpec ← kv toks "key"
  let mut checks : List (Res Check) := []
  let mut cons : List (CType × String) := []
  for t in toks do
    if t.startsWith "check=" then
      let c ← parseCheck (t.drop 6).toString
      checks := checks ++ [c]
    else if t.startsWith "req=" then cons := cons ++ [(.required, (t.drop 4).toString)]
    else if t.startsWith "excl=" then cons := cons ++ [(.excluded, (t.drop 5).toString)]
  let vmode ← match kv toks "vmode" with
    | some "required" => some VMode.required
    | some "optional" => some VMode.optional
    | some _ => none
    | none => some (defaultVMode kind)
  let card ← match kv toks "card" with
    | some c => parseCard c
    | none => some (defaultCard kind)
  let sep ← match kv toks "sep" with
    | some hx => (word hx).bind (·.head?)
    | none => some ','
  let flagInit := (kv toks "init") == some "1"
  -- fmt=upper|lower: addFormat( uppercase() / lowercase()); in the protocol for string and int arguments only
  let fmt ← match kv toks "fmt" with
    | some "upper" => if kind = .str || kind = .int then some Fmt.upper else none
    | some "lower" => if kind = .str || kind = .int then some Fmt.lower else none
    | some _ => none
    | none => some Fmt.none
  let r : Res ArgDef := do
    let key ← Key.parse keySpec.toList
    let checks ← checks.mapM id
    let cs ← cons.mapM (fun (ct, spec) => do let ks ← parseKeys spec; pure (ct, ks))
    pure { key := key, kind := kind, vmode := vmode, card := card, mandatory := toks.contains "mandatory",
           checks := checks, constraints := cs, multi := toks.contains "multi", sep := sep,
           flagValue := !flagInit, deprecated := toks.contains "deprecated", mixIncSet := toks.contains "mix",
           fmt := fmt }
  pure (r, kv toks "init")

def showPairs (ps : List (ArgDef × ArgSt)) : String :=
  let items := ps.zipIdx.map fun ((d, s), i) =>
    let v := match d.kind, s.dest with
      | .flag, .flag b => s!"f={if b then 1 else 0}"
      | .int, .int v => s!"i={v}"
      | .str, .str w => s!"s={wordOut w}"
      | .level, .level n => s!"l={n}"
      | .vecInt, .vec l => "v=[" ++ String.intercalate "," (l.map toString) ++ "]"
      | _, _ => "?"
    s!" {i}:{v}"
  String.join items

def showDests (cfg : Cfg) (h : HState) : String := showPairs (cfg.args.zip h.args)

def showGroupDests (cfg : Cfg) (am order : List Nat) (ms : List (Cfg × HState)) : String :=
  showPairs (groupDests cfg am order ms)

/-- per sub-group argument `j` (definition order): ` | s<j>=<called>` and the sub handler's destinations -/
def showSubs (subs : List SubDef) (sa : List ArgSt) (sh : List HState) : String :=
  String.join (subs.zipIdx.map fun (d, j) =>
    s!" | s{j}={if (sa.getD j default).hasValueSet then 1 else 0}" ++ showDests d.sub (sh.getD j default))

def showT (cfg : TCfg) (t : TState) : String :=
  showDests cfg.main t.main ++ showSubs cfg.subs t.subArgs t.subs

/-- the same text from the members of a group: sub-group argument `j` lives in member `sm[j]`, at the position
    `memberSubIdx sm m` gives it there -/
def showGroupT (cfg : TCfg) (am sm order : List Nat) (ms : List (TCfg × TState)) : String :=
  showGroupDests cfg.main am order (plainMembers ms) ++
  String.join (cfg.subs.zipIdx.map fun (d, j) =>
    let m := sm.getD j 0
    let loc := ((memberSubIdx sm m).idxOf? j).getD 0
    match (order.idxOf? m).bind (fun pos => ms[pos]?) with
    | none => s!" | s{j}=?"
    | some (_, t) =>
      s!" | s{j}={if (t.subArgs.getD loc default).hasValueSet then 1 else 0}" ++ showDests d.sub (t.subs.getD loc default))

def resLine {α : Type} (r : Res α) (f : α → String) : String :=
  match r with
  | .ok a => "ok" ++ f a
  | .throw e => s!"throw {e.name}"
  | .oob w => s!"oob {w}"

def showElem (e : Elem) : String :=
  match e.ty with
  | .singleCharArg => s!" C@{e.argIndex}.{e.charPos}:{wordOut [e.ch]}"
  | .control => s!" X@{e.argIndex}.{e.charPos}:{wordOut [e.ch]}"
  | .stringArg => s!" S@{e.argIndex}:{wordOut e.str}"
  | .value => s!" V@{e.argIndex}:{wordOut e.val}"
  | .invalid => s!" I@{e.argIndex}"

/-- the element stream of `for (ai = begin(); ai != end(); ++ai)` -/
def tokenStream (argv : List Word) : String :=
  let rec go (fuel : Nat) (it : It) (acc : String) : String :=
    match fuel with
    | 0 => "oob fuel" ++ acc
    | fuel + 1 =>
      if it.atEnd then
        -- one more `++` on the end iterator, as `Handler::iterateArguments()` does after a sub-group
        -- argument that was the last word: it must stay the end iterator
        match it.step with
        | .ok it' => "ok" ++ acc ++ (if it'.atEnd then " E" else " E!")
        | .throw e => s!"throw {e.name} after{acc} E"
        | .oob w => s!"oob {w} after{acc} E"
      else
        let acc := acc ++ showElem it.cur
        match it.step with
        | .ok it' => go fuel it' acc
        | .throw e => s!"throw {e.name} after{acc}"
        | .oob w => s!"oob {w} after{acc}"
  match It.begin argv with
  | .ok it => go (totalChars argv) it ""
  | .throw e => s!"throw {e.name} after"
  | .oob w => s!"oob {w}"

/-- for every element of `for (ai = begin(); ai != end(); ++ai)`: `ai.argsAsString( true)` and
    `ai.argsAsString( false)` (the latter reads through `isSingleArg()`) -/
def restStream (argv : List Word) : String :=
  let showR (r : Res Word) : String :=
    match r with
    | .ok w => wordOut w
    | .throw e => "!" ++ e.name
    | .oob w => "oob:" ++ w
  let rec go (fuel : Nat) (it : It) (acc : String) : String :=
    match fuel with
    | 0 => "oob fuel" ++ acc
    | fuel + 1 =>
      if it.atEnd then "ok" ++ acc
      else
        let acc := acc ++ s!" T={showR (it.argsAsString true)} F={showR (it.argsAsString false)}"
        match it.step with
        | .ok it' => go fuel it' acc
        | .throw e => s!"throw {e.name} after{acc}"
        | .oob w => s!"oob {w} after{acc}"
  match It.begin argv with
  | .ok it => go (totalChars argv) it ""
  | .throw e => s!"throw {e.name} after"
  | .oob w => s!"oob {w}"

/-- resolve the keys of a handler constraint as `Handler::validArguments` does (simplified: every
    token must designate a defined argument, no argument twice); for a value constraint
    (`validValueArguments`) also: every argument has the destination type of the first one
    ("arguments listed for constraint have different types"), a disjoint constraint stores at most
    two handlers ("can handle only two arguments"), and at least two arguments are listed — each
    refusal is a std::invalid_argument -/
def resolveGlob (cfg : Cfg) (gk : GKind) (spec : String) : Res (List Key) := do
  let toks := (splitOnChar ';' spec).filter (· ≠ "")
  if toks.isEmpty then .throw .invalid_argument else pure ()
  let isValue := gk == .differ || gk == .disjoint
  let mut out : List Key := []
  let mut firstKind : Option Kind := none
  for t in toks do
    let k ← Key.parse t.toList
    match ← findArg cfg.abbr cfg.table k with
    | none => .throw .invalid_argument
    | some (_, d) =>
      if isValue then
        match firstKind with
        | some fk => if fk != d.kind then .throw .invalid_argument else pure ()
        | none => firstKind := some d.kind
      if out.contains d.key then .throw .invalid_argument
      if gk == .disjoint && out.length == 2 then .throw .invalid_argument
      out := out ++ [d.key]
  if isValue && out.length < 2 then .throw .invalid_argument else pure ()
  pure out

def splitBar (s : String) : List String := splitOnChar '|' s

def step (s : St) (line : String) : St × String :=
  let toks := tokens line
  match toks with
  | ["case", _] => ({}, "ok")
  | "pa" :: "cfg" :: "begin" :: rest =>
    ({ s with building := { args := [], abbr := (kv rest "abbr").getD "1" == "1" }, inits := [], subs := [],
              subInits := [], cur := none, bErr := none }, "ok")
  | "pa" :: "sub" :: "begin" :: rest =>
    -- pa sub begin key=<spec> [mandatory] [card=…] [abbr=0|1] [deprecated] [req=<k1;k2>] [excl=<k1;k2>]
    if s.cur.isSome then (s, "bad-op") else
    match kv rest "key", (match kv rest "card" with | some c => parseCard c | none => some Card.unlimited) with
    | some keySpec, some card =>
      let cons := rest.filterMap (fun t =>
        if t.startsWith "req=" then some (CType.required, (t.drop 4).toString)
        else if t.startsWith "excl=" then some (CType.excluded, (t.drop 5).toString)
        else none)
      ({ s with cur := some { keySpec := keySpec, mandatory := rest.contains "mandatory", card := card,
                              deprecated := rest.contains "deprecated", cons := cons,
                              cfg := { args := [], abbr := (kv rest "abbr").getD "1" == "1" } } }, "ok")
    | _, _ => (s, "bad-op")
  | ["pa", "sub", "end"] =>
    match s.cur with
    | none => (s, "bad-op")
    | some b =>
      -- `main.addArgument( key, sub, desc)`: the key is parsed, the OTHER container (plain arguments) is asked
      -- first, then the own table; then the settings of the sub-group argument
      let tc : TCfg := { main := s.building, subs := s.subs }
      let r : Res SubDef := do
        let key ← Key.parse b.keySpec.toList
        let _ ← addArgumentChecked (tc.subTable.map (fun e => (e.1, ()))) s.building.table key ()
        let cs ← b.cons.mapM (fun (ct, spec) => do let ks ← parseKeys spec; pure (ct, ks))
        pure { key := key, mandatory := b.mandatory, card := b.card, constraints := cs, deprecated := b.deprecated,
               sub := b.cfg }
      match r with
      | .ok d => ({ s with cur := none, subs := s.subs ++ [d], subInits := s.subInits ++ [b.inits] }, "ok")
      | .throw e => ({ s with cur := none, bErr := s.bErr <|> some e }, "ok")
      | .oob _ => ({ s with cur := none, bErr := s.bErr <|> some .other }, "ok")
  | "pa" :: "arg" :: rest =>
    match parseArg rest with
    | none => (s, "bad-op")
    | some (r, init) =>
      match r with
      | .ok d =>
        let iv := match init with
          | some i => (parseInit d.kind i).getD (defaultDest d.kind)
          | none => defaultDest d.kind
        match s.cur with
        | some b =>
          -- an argument of the sub handler: its own table only (a sub handler of depth 2 has no sub-group arguments)
          match addArgument b.cfg.table d.key d with
          | .ok _ => ({ s with cur := some { b with cfg := { b.cfg with args := b.cfg.args ++ [d] }, inits := b.inits ++ [iv] } }, "ok")
          | .throw e => ({ s with bErr := s.bErr <|> some e }, "ok")
          | .oob _ => ({ s with bErr := s.bErr <|> some .other }, "ok")
        | none =>
          -- mArguments.addArgument( obj, key, &mSubGroupArgs): the sub-group arguments are asked first, then the
          -- own table (duplicate / mismatching keys are refused)
          let tc : TCfg := { main := s.building, subs := s.subs }
          match addArgumentChecked s.building.table tc.subTable d.key d with
          | .ok _ => ({ s with building := { s.building with args := s.building.args ++ [d] }, inits := s.inits ++ [iv] }, "ok")
          | .throw e => ({ s with bErr := s.bErr <|> some e }, "ok")
          | .oob _ => ({ s with bErr := s.bErr <|> some .other }, "ok")
      | .throw e => ({ s with bErr := s.bErr <|> some e }, "ok")
      | .oob _ => ({ s with bErr := s.bErr <|> some .other }, "ok")
  | ["pa", "glob", kind, spec] =>
    let gk := match kind with
      | "allof" => some GKind.allOf | "anyof" => some GKind.anyOf | "oneof" => some GKind.oneOf
      | "differ" => some GKind.differ | "disjoint" => some GKind.disjoint | _ => none
    match gk with
    | none => (s, "bad-op")
    | some gk =>
      if s.bErr.isSome then (s, "ok") else
      match s.cur with
      | some b =>
        match resolveGlob b.cfg gk spec with
        | .ok ks => ({ s with cur := some { b with cfg := { b.cfg with globals := b.cfg.globals ++ [{ kind := gk, keys := ks }] } } }, "ok")
        | .throw e => ({ s with bErr := some e }, "ok")
        | .oob _ => ({ s with bErr := some .other }, "ok")
      | none =>
        match resolveGlob s.building gk spec with
        | .ok ks => ({ s with building := { s.building with globals := s.building.globals ++ [{ kind := gk, keys := ks }] } }, "ok")
        | .throw e => ({ s with bErr := some e }, "ok")
        | .oob _ => ({ s with bErr := some .other }, "ok")
  | "pa" :: "cfg" :: "end" :: _ =>
    if s.cur.isSome then (s, "bad-op") else
    match s.bErr with
    | some e => ({ s with cfg := none }, s!"throw {e.name}")
    | none =>
      ({ s with cfg := some ({ main := s.building, subs := s.subs }, { main := s.inits, subs := s.subInits }) },
       s!"ok args={s.building.args.length}" ++ (if s.subs.isEmpty then "" else s!" subs={s.subs.length}"))
  | ["pa", "prog", hx] =>
    match word hx with
    | some w => ({ s with prog := w }, "ok")
    | none => (s, "bad-op")
  | "pa" :: "tokens" :: ws =>
    match ws.mapM word with
    | some ws => (s, tokenStream (s.prog :: ws))
    | none => (s, "bad-op")
  | "pa" :: "argc0" :: _ =>
    -- `Handler::evalArguments( 0, argv)`: the model's answer for the EMPTY argv (no program name, no
    -- sources); known finding argc0-reads-outside-argv (C04): the model answers `oob`
    match s.cfg with
    | none => (s, "bad-op")
    | some (cfg, inits) => (s, resLine (evalArgumentsT cfg (cfg.initState inits) {} []) (showT cfg))
  | "pa" :: "rest" :: ws =>
    match ws.mapM word with
    | some ws => (s, restStream (s.prog :: ws))
    | none => (s, "bad-op")
  | "pa" :: "eval" :: rest =>
    match s.cfg with
    | none => (s, "bad-op")
    | some (cfg, inits) =>
      let opts := rest.takeWhile (· ≠ "--")
      let ws := (rest.dropWhile (· ≠ "--")).drop 1
      if !rest.contains "--" then (s, "bad-op") else
      match ws.mapM word with
      | none => (s, "bad-op")
      | some ws =>
        let file := (kv opts "file").map (fun f => (splitBar f).filterMap word)
        -- fileraw=<hex>: the bytes of the argument file as they are (last line with or without newline)
        let file := match (kv opts "fileraw").bind word with
          | some content => some (fileLines content)
          | none => file
        let env := ((kv opts "env").bind word)
        -- an empty environment value is ignored by the handler
        let env := match env with | some [] => none | e => e
        let r := evalArgumentsT cfg (cfg.initState inits) { file := file, env := env } (s.prog :: ws)
        (s, resLine r (showT cfg))
  | "pa" :: "gdef" :: rest =>
    -- pa gdef members=<n> -- <m>:<keyspec> ...   (members created 0..n-1, then the definitions in sequence)
    -- item `<m>s:<keyspec>` (digits, then the letter s): a SUB-GROUP argument of member m
    let opts := rest.takeWhile (· ≠ "--")
    let items := (rest.dropWhile (· ≠ "--")).drop 1
    match (kv opts "members").bind String.toNat? with
    | none => (s, "bad-op")
    | some n =>
      let parsed := items.mapM (fun it => match splitOnChar ':' it with
        | [m, spec] =>
          let cs := m.toList
          let isSub := cs.getLast? == some 's'
          (String.ofList (if isSub then cs.dropLast else cs)).toNat?.map (fun m => (m, isSub, spec.toList))
        | _ => none)
      match parsed with
      | none => (s, "bad-op")
      | some defs =>
        if defs.any (fun d => d.1 ≥ n) then (s, "bad-op") else
        -- plain definitions only: the one-table model the C08 definition theorems speak about;
        -- with a sub-group definition: both containers of every member (`groupDefineSeqT`)
        let r := if defs.any (fun d => d.2.1)
          then groupDefineSeqT (List.replicate n ([], [])) defs 0
          else groupDefineSeq (List.replicate n []) (defs.map (fun d => (d.1, d.2.2))) 0
        match r with
        | none => (s, "ok")
        | some (e, idx) => (s, s!"throw {e.name} at {idx}")
  | "pa" :: "group" :: rest =>
    match s.cfg with
    | none => (s, "bad-op")
    | some (cfg, inits) =>
      let opts := rest.takeWhile (· ≠ "--")
      let ws := (rest.dropWhile (· ≠ "--")).drop 1
      match ws.mapM word, kv opts "members" with
      | some ws, some mem =>
        let (am, gm) := match splitOnChar '/' mem with
          | [a, g] => (a, g)
          | [a] => (a, "")
          | _ => ("", "")
        -- submembers=<one digit per sub-group argument>: the member that owns sub-group argument j
        let sm := (kv opts "submembers").getD ""
        let digits (x : String) : List Nat := x.toList.map (fun c => c.toNat - 48)
        let order := match kv opts "order" with
          | some o => digits o
          | none => (List.range 10).filter (fun d => (digits am).contains d || (digits gm).contains d || (digits sm).contains d)
        if am.length ≠ cfg.main.args.length || gm.length ≠ cfg.main.globals.length || sm.length ≠ cfg.subs.length then (s, "bad-op") else
        let r := groupsEvalT cfg inits (digits am) (digits sm) (digits gm) order (s.prog :: ws)
        (s, resLine r (fun ms => showGroupT cfg (digits am) (digits sm) order ms))
      | _, _ => (s, "bad-op")
  | _ => (s, "bad-op")

def main : IO Unit := run ({} : St) step
