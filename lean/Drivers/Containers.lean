import CelmaVerif.Base.Proto
import CelmaVerif.Model.Containers
/- line-protocol driver for the container destinations (C06); protocol: see harness/containers.cpp -/
open CelmaVerif CelmaVerif.Containers CelmaVerif.Proto

inductive Kind where
  | seqInt (k : SeqKind) | vecStr | arr (n : Nat) | arrStr (n : Nat) | bits (n : Nat) | map | tuple
  deriving Repr

structure Cfg where
  kind : Kind
  o : Opts
  pair : Option (List Char)
  sepGiven : Option Char
  multi : Bool
  init : List String

structure St where
  cfg : Option Cfg := none

def parseKind (s : String) : Option Kind :=
  match s.splitOn ":" with
  | ["vec_int"] => some (.seqInt .vec)
  | ["deque_int"] => some (.seqInt .deque)
  | ["list_int"] => some (.seqInt .list)
  | ["fwdlist_int"] => some (.seqInt .fwdlist)
  | ["set_int"] => some (.seqInt .set)
  | ["multiset_int"] => some (.seqInt .multiset)
  | ["stack_int"] => some (.seqInt .stack)
  | ["queue_int"] => some (.seqInt .queue)
  | ["prioq_int"] => some (.seqInt .prioq)
  | ["vec_str"] => some .vecStr
  | ["map_int_str"] => some .map
  | ["tuple_int_str_int"] => some .tuple
  | ["carray_int", n] => n.toNat?.map .arr
  | ["stdarray_int", n] => n.toNat?.map .arr
  | ["carray_str", n] => n.toNat?.map .arrStr
  | ["stdarray_str", n] => n.toNat?.map .arrStr
  | ["bitset", n] => n.toNat?.map .bits
  | _ => none

def parseCheck (s : String) : Option Check :=
  match s.splitOn ":" with
  | ["lower", n] => n.toInt?.map .lower
  | ["upper", n] => n.toInt?.map .upper
  | ["range", a, b] => match a.toInt?, b.toInt? with
    | some a, some b => some (.range a b)
    | _, _ => none
  | ["minlen", n] => n.toNat?.map .minlen
  | ["maxlen", n] => n.toNat?.map .maxlen
  | _ => none

/-- one entry `<idx>:<upper|lower>` of a `fmtpos=` token; idx = 1 to 6 decimal digits -/
def parseFmtPosEntry (e : String) : Option (Nat × Fmt) :=
  match e.splitOn ":" with
  | [i, f] =>
    if i.length == 0 || i.length > 6 || !(i.toList.all Char.isDigit) then none
    else
      let idx := i.toList.foldl (fun n c => 10 * n + (c.toNat - 48)) 0
      if f == "upper" then some (idx, .upper) else if f == "lower" then some (idx, .lower) else none
  | _ => none

/-- `fmtpos=<idx>:<upper|lower>,…` = the `addFormatPos` calls in order -/
def parseFmtPos (s : String) : Option (List (Nat × Fmt)) :=
  if s == "" || s == "-" then none else (s.splitOn ",").mapM parseFmtPosEntry

def parseCfg (toks : List String) : Option Cfg := do
  let kind ← parseKind ((kv toks "kind").getD "")
  let fmtPosL ← (toks.filter (·.startsWith "fmtpos=")).mapM fun t => parseFmtPos (t.drop 7).toString
  let checks ← (toks.filter (·.startsWith "check=")).mapM fun t => parseCheck (t.drop 6).toString
  let sepGiven : Option Char := match kv toks "sep" with
    | some s => s.toList.head?
    | none => none
  let uniq := (kv toks "unique").getD "none"
  let fmt : Fmt := match kv toks "fmt" with
    | some "upper" => .upper
    | some "lower" => .lower
    | _ => .none
  let init := match kv toks "init" with
    | some s => if s == "" || s == "-" then [] else s.splitOn ","
    | none => []
  let o : Opts := { sep := sepGiven.getD ',', clear := kv toks "clear" == some "1", sort := kv toks "sort" == some "1",
                    unique := uniq != "none", dupErr := uniq == "error", checks := checks, fmt := fmt,
                    fmtPos := fmtPosL.flatten }
  pure { kind := kind, o := o, pair := (kv toks "pair").map String.toList, sepGiven := sepGiven,
         multi := kv toks "multi" == some "1", init := init }

def showList (xs : List String) : String := "[" ++ String.intercalate "," xs ++ "]"
def showInts (xs : List Int) : String := showList (xs.map toString)

def stopStr : Stop → String
  | .exc e => s!"throw {e.name}"
  | .oob w => s!"oob {w}"

def outLine (content : String) : Option Stop → String
  | none => s!"ok {content}"
  | some st => s!"{stopStr st} {content}"

/-- the words of the command line as uses of the one argument `v,vals` (tie only; the handler / iterator layer
    is modelled elsewhere): `-v W`, `-vW`, `--vals W`, `--vals=W`, and free words while multi-value is on -/
def wordsToUses (multi : Bool) : List String → Bool → List (List Char) → Option (List (List Char) × Option Exc)
  | [], _, acc => some (acc.reverse, none)
  | w :: rest, seen, acc =>
    let unq := fun (v : String) => if v == "''" then [] else v.toList
    if w == "-v" || w == "--vals" then
      match rest with
      | [] => some (acc.reverse, some .runtime_error)
      | v :: rest' =>
        if v.startsWith "-" && v.length > 1 then some (acc.reverse, some .runtime_error)
        else wordsToUses multi rest' true (unq v :: acc)
    else if w.startsWith "--vals=" then wordsToUses multi rest true ((w.drop 7).toString.toList :: acc)
    else if w.startsWith "--" then none
    else if w.startsWith "-v" then wordsToUses multi rest true ((w.drop 2).toString.toList :: acc)
    else if w.startsWith "-" then none
    else if multi && seen then wordsToUses multi rest true (unq w :: acc)
    else some (acc.reverse, some .invalid_argument)

def withParseStop {σ : Type} (r : Out σ) (pe : Option Exc) : Out σ :=
  match r with
  | (s, some st) => (s, some st)
  | (s, none) => (s, pe.map Stop.exc)

def configureLine (c : Cfg) : Res Unit :=
  match c.kind with
  | .seqInt k => if c.pair.isSome then .throw .invalid_argument else configure k c.o
  | .vecStr => if c.pair.isSome then .throw .invalid_argument else configure .vec c.o
  | .arr n => if c.pair.isSome then .throw .invalid_argument else arrConfigure n c.o
  | .arrStr n => if c.pair.isSome then .throw .invalid_argument else arrConfigure n c.o
  | .bits _ => if c.pair.isSome then .throw .invalid_argument else bitConfigure c.o
  | .tuple => if c.pair.isSome then .throw .invalid_argument else tupConfigure c.o
  | .map => match mapConfigure c.pair c.sepGiven c.o.sort with
    -- a map does not override `addFormatPos` (the last option the harness applies): `TypedArgBase::addFormatPos`
    -- throws `std::logic_error`
    | .ok _ => if c.o.fmtPos.isEmpty then .ok () else .throw .logic_error
    | .throw e => .throw e
    | .oob w => .oob w

def ints (xs : List String) : Option (List Int) := xs.mapM (·.toInt?)

def evalLine (c : Cfg) (words : List String) : String :=
  match wordsToUses c.multi words false [] with
  | none => "bad-op"
  | some (uses, pe) =>
    match c.kind with
    | .seqInt k =>
      match ints c.init with
      | none => "bad-op"
      | some iv =>
        let init : List Int := match k with
          | .set | .multiset | .prioq => iv.foldl (fun acc v => addValue intElem k v acc) []
          | .stack => iv.reverse
          | _ => iv
        let (s, st) := withParseStop (runP intElem k c.o (SeqState.start init c.o) uses) pe
        outLine (showInts (observe k s.content)) st
    | .vecStr =>
      let (s, st) := withParseStop (runP strElem .vec c.o (SeqState.start (c.init.map String.toList) c.o) uses) pe
      outLine (showList (s.content.map String.ofList)) st
    | .arr n =>
      match ints c.init with
      | none => "bad-op"
      | some iv =>
        let slots := (iv ++ List.replicate n 0).take n
        let (s, st) := withParseStop (arrRunP intElem c.o false ⟨slots, 0⟩ uses) pe
        outLine (showInts s.slots) st
    | .arrStr n =>
      let slots : List (List Char) := (c.init.map String.toList ++ List.replicate n []).take n
      let (s, st) := withParseStop (arrRunP strElem c.o false ⟨slots, 0⟩ uses) pe
      outLine (showList (s.slots.map String.ofList)) st
    | .bits n =>
      match c.init.mapM (·.toNat?) with
      | none => "bad-op"
      | some ps =>
        let bits := (List.range n).map fun i => decide (i ∈ ps)
        let (s, st) := withParseStop (bitRunP c.o ⟨bits, c.o.clear⟩ uses) pe
        let setPos := (List.range n).filter fun i => s.bits.getD i false
        outLine (showList (setPos.map toString)) st
    | .map =>
      match mapConfigure c.pair c.sepGiven c.o.sort with
      | .ok (pair, sep) =>
        let mo : MapOpts := { sep := sep, pair := pair, clear := c.o.clear, unique := c.o.unique,
                              dupErr := c.o.dupErr, checks := c.o.checks }
        let initPairs : Option (List Pair) := c.init.mapM fun s =>
          match s.splitOn ":" with
          | [k, v] => k.toInt?.map fun k => (k, v.toList)
          | _ => none
        match initPairs with
        | none => "bad-op"
        | some ip =>
          let init := ip.foldl (fun acc p => mapInsert p acc) []
          let (s, st) := withParseStop (mapRunP mo ⟨init, mo.clear⟩ uses) pe
          outLine (showList (s.content.map fun p => s!"{p.1}:{String.ofList p.2}")) st
      | _ => "bad-op"
    | .tuple =>
      let init : Option TupState := match c.init with
        | [a, s, b] => match a.toInt?, b.toInt? with
          | some a, some b => some ⟨a, s.toList, b, 0, 0⟩
          | _, _ => none
        | [] => some ⟨0, [], 0, 0, 0⟩
        | _ => none
      match init with
      | none => "bad-op"
      | some t0 =>
        let r := withParseStop (tupRunP c.o t0 uses) pe
        let (s, st) := match r with
          | (s, none) => s.finish
          | other => other
        outLine (showList [toString s.a, String.ofList s.s, toString s.b]) st

def step (s : St) (line : String) : St × String :=
  match tokens line with
  | ["case", _] => ({}, "ok")
  | "cont" :: rest =>
    match parseCfg rest with
    | none => ({ s with cfg := none }, "bad-op")
    | some c =>
      match configureLine c with
      | .ok _ => ({ s with cfg := some c }, "ok")
      | .throw e => ({ s with cfg := none }, s!"throw {e.name}")
      | .oob w => ({ s with cfg := none }, s!"oob {w}")
  | "eval" :: words | "evalsame" :: words | "evalref" :: words =>
    match s.cfg with
    | none => (s, "ok none")
    | some c => (s, evalLine c words)
  | _ => (s, "bad-op")

def main : IO Unit := run ({} : St) step
