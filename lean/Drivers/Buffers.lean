import CelmaVerif.Base.Proto
import CelmaVerif.Model.Buffers
/- line-protocol driver for the buffers component (C19) -/
open CelmaVerif CelmaVerif.Buffers CelmaVerif.Proto

structure St where
  w : Option WBuf := none
  r : Option RBuf := none

def blocksOut (bs : List (List Nat)) : String :=
  if bs.isEmpty then "-" else String.intercalate "|" (bs.map hexOut)

def wres (old : WBuf) : Res WBuf → Option WBuf × String
  | .ok b => (some b, s!"ok buffered={b.pos} wrote={blocksOut (b.sink.drop old.sink.length)}")
  | .throw e => (some old, s!"throw {e.name}")
  | .oob w => (some old, s!"oob {w}")

def step (s : St) (line : String) : St × String :=
  match tokens line with
  | ["case", _] => ({}, "ok")
  | ["wb", "new", n] =>
    match n.toNat? with
    | some n => ({ s with w := some (WBuf.new n) }, "ok")
    | none => (s, "bad-op")
  | ["wb", "append", hx] =>
    match s.w, hexDecode hx with
    | some b, some d => let (b', o) := wres b (b.append d); ({ s with w := b' }, o)
    | _, _ => (s, "bad-op")
  | ["wb", "flush"] =>
    match s.w with
    | some b => let (b', o) := wres b b.flush; ({ s with w := b' }, o)
    | none => (s, "bad-op")
  | ["rb", "new", n, src, chunks] =>
    match n.toNat?, hexDecode src, natList chunks with
    | some n, some src, some ch => ({ s with r := some (RBuf.new n src ch) }, "ok")
    | _, _, _ => (s, "bad-op")
  | ["rb", "get", len] =>
    match s.r, len.toNat? with
    | some r, some len =>
      let (r', o) := r.get len
      let rd := r.src.length - r'.src.length
      let txt := match o with
        | .data d => s!"ok data={hexOut d} srcbytes={rd}"
        | .throw e => s!"throw {e.name} srcbytes={rd}"
        | .oob w => s!"oob {w}"
      ({ s with r := some r' }, txt)
    | _, _ => (s, "bad-op")
  | _ => (s, "bad-op")

def main : IO Unit := run ({} : St) step
