import CelmaVerif.Base.Proto
import CelmaVerif.Model.DynBitset
/- line-protocol driver for the dynbitset component (C12); see harness/dyn_bitset.cpp for the protocol -/
open CelmaVerif CelmaVerif.Proto
open CelmaVerif.DynBitset (Bits)

abbrev St := List (String × Bits)

def St.get (s : St) (n : String) : Option Bits := (s.find? (·.1 == n)).map (·.2)
def St.put (s : St) (n : String) (v : Bits) : St := (n, v) :: s.filter (·.1 != n)

def bitsOut (v : Bits) : String :=
  if v.isEmpty then "-" else String.ofList (v.map fun b => if b then '1' else '0')

def bitsIn (s : String) : Option Bits :=
  if s == "-" then some []
  else s.toList.mapM fun c => if c == '1' then some true else if c == '0' then some false else none

def b01 (b : Bool) : String := if b then "1" else "0"

def excOut {α : Type} : Res α → String
  | .ok _ => "ok"
  | .throw e => s!"throw {e.name}"
  | .oob w => s!"oob {w}"

/-- the observation line of one bitset -/
def stateOut (v : Bits) : String :=
  match DynBitset.toStr v with
  | .ok str =>
    let ul := match DynBitset.toUlong v with
      | .ok n => s!"{n}"
      | .throw e => e.name
      | .oob w => s!"oob:{w}"
    s!"ok size={v.length} bits={bitsOut v} str={if str.isEmpty then "-" else String.ofList str} count={DynBitset.count v} any={b01 (DynBitset.anySet v)} none={b01 (DynBitset.noneSet v)} all={b01 (DynBitset.allSet v)} ulong={ul}"
  | r => excOut r

/-- numbers may be symbolic: `@size`, `@size-1` (0 when empty), `@size+1`, `@size*2`, `@size*3` -/
def num (v : Bits) (t : String) : Option Nat :=
  if t == "@size" then some v.length
  else if t == "@size-1" then some (v.length - 1)
  else if t == "@size+1" then some (v.length + 1)
  else if t == "@size*2" then some (v.length * 2)
  else if t == "@size*3" then some (v.length * 3)
  else t.toNat?

def boolTok (t : String) : Option Bool :=
  if t == "1" then some true else if t == "0" then some false else none

def posList (l : List Nat) : String :=
  if l.isEmpty then "-" else String.intercalate "," (l.map fun n => s!"{n}")

/-- an iterator walk script: optional leading `e` (start at the end position), then `+ - p m` -/
def scriptIn (t : String) : Option (Bool × List DynBitset.ItOp) :=
  let cs := t.toList
  let (fromEnd, cs) := match cs with
    | 'e' :: r => (true, r)
    | r => (false, r)
  (cs.mapM fun c =>
    if c == '+' then some DynBitset.ItOp.inc else if c == '-' then some .dec
    else if c == 'p' then some .postInc else if c == 'm' then some .postDec else none).map fun ops => (fromEnd, ops)

/-- positions of a walk: `E` for the end position `last`, `copy/position` for the post forms -/
def walkOut (last : Int) (l : List DynBitset.ItOut) : String :=
  let show1 (p : Int) : String := if p == last then "E" else s!"{p}"
  if l.isEmpty then "-" else
  String.intercalate "," (l.map fun o => match o.copy with
    | some c => s!"{show1 c}/{show1 o.pos}"
    | none => show1 o.pos)

/-- a mutator result stored under `dst` -/
def store (s : St) (dst : String) (r : Res Bits) : St × String :=
  match r with
  | .ok v => (s.put dst v, stateOut v)
  | r => (s, excOut r)

def step (s : St) (line : String) : St × String :=
  match tokens line with
  | ["case", _] => ([], "ok")
  | ["dbs", "new", n, bits] =>
    match bitsIn bits with
    | some v => (s.put n v, stateOut v)
    | none => (s, "bad-op")
  | ["dbs", "newbs", n, bits] =>
    match bitsIn bits with
    | some v => store s n (DynBitset.ofBitset v)
    | none => (s, "bad-op")
  | ["dbs", "newn", n, k] =>
    match k.toNat? with
    | some k => let v := DynBitset.ofSize k; (s.put n v, stateOut v)
    | none => (s, "bad-op")
  | "dbs" :: op :: n :: args =>
    match s.get n with
    | none => (s, "bad-op")
    | some v =>
      let pn (t : String) := num v t
      match op, args with
      | "obs", [] => (s, stateOut v)
      | "setall", [] => store s n (DynBitset.setAll v)
      | "resetall", [] => store s n (DynBitset.resetAll v)
      | "flipall", [] => store s n (DynBitset.flipAll v)
      | "set", [p, b] => match pn p, boolTok b with
        | some p, some b => store s n (DynBitset.set v p b)
        | _, _ => (s, "bad-op")
      | "reset", [p] => match pn p with
        | some p => store s n (DynBitset.reset v p)
        | _ => (s, "bad-op")
      | "flip", [p] => match pn p with
        | some p => store s n (DynBitset.flip v p)
        | _ => (s, "bad-op")
      | "idxset", [p, b] => match pn p, boolTok b with
        | some p, some b => store s n (DynBitset.idxAssign v p b)
        | _, _ => (s, "bad-op")
      | "idx", [p] => match pn p with
        | some p => match DynBitset.idxRead v p with
          | .ok (v', b) => (s.put n v', s!"ok val={b01 b} size={v'.length} bits={bitsOut v'}")
          | r => (s, excOut r)
        | _ => (s, "bad-op")
      | "resize", [k, b] => match pn k, boolTok b with
        | some k, some b => store s n (.ok (DynBitset.resize v k b))
        | _, _ => (s, "bad-op")
      | "test", [p] => match pn p with
        | some p => match DynBitset.test v p with
          | .ok b => (s, s!"ok {b01 b}")
          | r => (s, excOut r)
        | _ => (s, "bad-op")
      | "cidx", [p] => match pn p with
        | some p => match DynBitset.idxConst v p with
          | .ok b => (s, s!"ok {b01 b}")
          | r => (s, excOut r)
        | _ => (s, "bad-op")
      | "eq", [o] => match s.get o with
        | some w => (s, s!"ok {b01 (DynBitset.eq v w)}")
        | none => (s, "bad-op")
      | "and=", [o] => match s.get o with | some w => store s n (DynBitset.andAssign v w) | none => (s, "bad-op")
      | "or=", [o] => match s.get o with | some w => store s n (DynBitset.orAssign v w) | none => (s, "bad-op")
      | "xor=", [o] => match s.get o with | some w => store s n (DynBitset.xorAssign v w) | none => (s, "bad-op")
      | "and", [o, d] => match s.get o with | some w => store s d (DynBitset.bitAnd v w) | none => (s, "bad-op")
      | "or", [o, d] => match s.get o with | some w => store s d (DynBitset.bitOr v w) | none => (s, "bad-op")
      | "xor", [o, d] => match s.get o with | some w => store s d (DynBitset.bitXor v w) | none => (s, "bad-op")
      | "not", [d] => store s d (DynBitset.bitNot v)
      | "copy", [d] => store s d (.ok v)
      | "shl=", [k] => match pn k with | some k => store s n (DynBitset.shlAssign v k) | none => (s, "bad-op")
      | "shr=", [k] => match pn k with | some k => store s n (DynBitset.shrAssign v k) | none => (s, "bad-op")
      | "shl", [k, d] => match pn k with | some k => store s d (DynBitset.shl v k) | none => (s, "bad-op")
      | "shr", [k, d] => match pn k with | some k => store s d (DynBitset.shr v k) | none => (s, "bad-op")
      | "asgbs", [bits] => match bitsIn bits with
        | some o => store s n (DynBitset.assignBitset v o)
        | none => (s, "bad-op")
      | "strc", [z, o] => match z.toList, o.toList with
        | [z], [o] => match DynBitset.toStrWith v z o with
          | .ok str => (s, s!"ok {if str.isEmpty then "-" else String.ofList str}")
          | r => (s, excOut r)
        | _, _ => (s, "bad-op")
      | "it", [script] => match scriptIn script with
        | some (fromEnd, ops) => match DynBitset.fwdWalk v fromEnd ops with
          | .ok l => (s, s!"ok {walkOut (DynBitset.endIt v) l}")
          | r => (s, excOut r)
        | none => (s, "bad-op")
      | "rit", [script] => match scriptIn script with
        | some (fromEnd, ops) => match DynBitset.revWalk v fromEnd ops with
          | .ok l => (s, s!"ok {walkOut (DynBitset.rendIt v) l}")
          | r => (s, excOut r)
        | none => (s, "bad-op")
      | "fwd", [] => match DynBitset.iterate v with
        | .ok l => (s, s!"ok {posList l}")
        | r => (s, excOut r)
      | "rev", [] => match DynBitset.riterate v with
        | .ok l => (s, s!"ok {posList l}")
        | r => (s, excOut r)
      | _, _ => (s, "bad-op")
  | _ => (s, "bad-op")

def main : IO Unit := run ([] : St) step
