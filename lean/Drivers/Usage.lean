import CelmaVerif.Base.Proto
import CelmaVerif.Model.Usage
/- line-protocol driver for the usage listing (C18); the operations are described in harness/usage.cpp -/
open CelmaVerif CelmaVerif.Usage CelmaVerif.Proto

abbrev St := Option Tree

def strOfBytes (bs : List Nat) : List Char := bs.map Char.ofNat
def hexOfStr (s : List Char) : String := hexOut (s.map Char.toNat)

def hexStr? (s : String) : Option (List Char) := (hexDecode s).map strOfBytes

/-- key specifications as the generator writes them: `c`, `word`, `c,word`, `word,c` (no leading dashes) -/
def parseKey (s : String) : Option Key :=
  let ok (w : List Char) : Bool :=
    !w.isEmpty && w.head? != some '-' && w.all (fun c => c != ',' && c != ' ' && c != '/')
  match s.splitOn "," with
  | [w] =>
    let w := w.toList
    if !ok w then none
    else if w.length == 1 then some ⟨w.head?, []⟩ else some ⟨none, w⟩
  | [a, b] =>
    let a := a.toList
    let b := b.toList
    if !ok a || !ok b then none
    else if a.length == 1 && b.length > 1 then some ⟨a.head?, b⟩
    else if b.length == 1 && a.length > 1 then some ⟨b.head?, a⟩
    else none
  | _ => none

def parseFlags (s : String) : Option Flags :=
  if s == "-" then some Flags.none
  else
    (s.splitOn ",").foldlM (fun (f : Flags) w =>
      match w with
      | "hshort" => some { f with helpShort := true }
      | "hlong" => some { f with helpLong := true }
      | "harg" => some { f with helpArg := true }
      | "ahidden" => some { f with argHidden := true }
      | "adepr" => some { f with argDeprecated := true }
      | "ushort" => some { f with usageShort := true }
      | "ulong" => some { f with usageLong := true }
      | "uhidden" => some { f with usageHidden := true }
      | "udepr" => some { f with usageDeprecated := true }
      | "noabbr" => some { f with noAbbr := true }
      | _ => none) Flags.none

def int? (s : String) : Option Int :=
  if s.length > 9 then none else s.toInt?

def intStr (i : Int) : List Char := (toString i).toList

def parseChecks (s : String) : Option (List Mod) :=
  (s.splitOn ";").mapM fun c =>
    match c.splitOn ":" with
    | ["lower", a] => (int? a).map fun a => Mod.check "lower" ("Value >= ".toList ++ intStr a)
    | ["upper", a] => (int? a).map fun a => Mod.check "upper" ("Value < ".toList ++ intStr a)
    | ["range", a, b] =>
      match int? a, int? b with
      | some a, some b => some (Mod.check "range" (intStr a ++ " <= value < ".toList ++ intStr b))
      | _, _ => none
    | _ => none

def bool01 (t : List String) (k : String) : Option Bool :=
  match kv t k with
  | none => some false
  | some "0" => some false
  | some "1" => some true
  | _ => none

def allowedKeys : List String :=
  ["key", "kind", "value", "default", "mandatory", "hidden", "deprecated", "replaced", "check", "requires",
   "excludes", "desc", "k"]

def nat? (s : String) : Option Nat :=
  if s.length > 4 || s.isEmpty || !s.all Char.isDigit then none else s.toNat?

def parseArg (t : List String) (group : Option Nat := none) : Option (Arg × List Mod) := do
  if !(t.all fun w => allowedKeys.contains ((w.splitOn "=").headD "")) then none
  let key ← (kv t "key").bind parseKey
  let desc ← (kv t "desc").bind hexStr?
  let kind ← match group with
    | some _ => (match kv t "kind" with | none => some "group" | some _ => none)
    | none => kv t "kind"
  let base : Arg ←
    match kind, kv t "value" with
    | "group", none => group.map (subGroupArg key desc)
    | "int", none => some { key, desc, takesValue := true, isFlag := false, defaultText := some (intStr 0), printDefault := true }
    | "int", some v => (int? v).map fun i =>
        { key, desc, takesValue := true, isFlag := false, defaultText := some (intStr i), printDefault := true }
    | "str", none => some { key, desc, takesValue := true, isFlag := false, defaultText := some ['"', '"'], printDefault := true }
    | "str", some v => (hexStr? v).map fun s =>
        { key, desc, takesValue := true, isFlag := false, defaultText := some ('"' :: s ++ ['"']), printDefault := true }
    | "flag", none => some { key, desc, takesValue := false, isFlag := true, defaultText := none, printDefault := false }
    | _, _ => none
  let dflt ← match kv t "default" with
    | none => some []
    | some "0" => some [Mod.printDefault false]
    | some "1" => some [Mod.printDefault true]
    | _ => none
  let mand ← bool01 t "mandatory"
  let hid ← bool01 t "hidden"
  let dep ← bool01 t "deprecated"
  let repl ← match kv t "replaced" with
    | none => some []
    | some h => (hexStr? h).map fun s => [Mod.replacedBy s]
  let chks ← match kv t "check" with
    | none => some []
    | some c => parseChecks c
  let req := match kv t "requires" with
    | none => []
    | some k => [Mod.constraint k.toList ("Requires ".toList ++ k.toList)]
  let excl := match kv t "excludes" with
    | none => []
    | some k => [Mod.constraint k.toList ("excludes (".toList ++ k.toList ++ [')'])]
  pure (base, dflt ++ (if mand then [Mod.mandatory] else []) ++ (if hid then [Mod.hidden] else [])
              ++ (if dep then [Mod.deprecated] else []) ++ repl ++ chks ++ req ++ excl)

def parseSwitch (f : Flags) : String → Option Switch
  | "print-hidden" => if f.argHidden then some .printHidden else none
  | "print-deprecated" => if f.argDeprecated then some .printDeprecated else none
  | "help-short" => if f.usageShort then some .helpShort else none
  | "help-long" => if f.usageLong then some .helpLong else none
  | _ => none

def parseSubSwitch (f : Flags) : String → Option SubSwitch
  | "print-deprecated" => if f.argDeprecated then some .printDeprecated else none
  | "help-short" => if f.usageShort then some .helpShort else none
  | "help-long" => if f.usageLong then some .helpLong else none
  | _ => none

def commaList (s : Option String) : List String :=
  match s with
  | none => []
  | some s => s.splitOn ","

def linesHex (ls : List (List Char)) : String := hexOfStr (unlines ls)

/-- is sub-group handler `k` entered by a sub-group argument of the main handler? -/
def attached (t : Tree) (k : Nat) : Bool := t.main.args.any fun a => a.subGroup == some k

def outErr (r : Res (List (List Char) × List (List Char))) : String :=
  match r with
  | .ok (o, e) => s!"ok out={linesHex o} err={linesHex e}"
  | .throw e => s!"throw {e.name}"
  | .oob w => s!"oob {w}"

def step (s : St) (line : String) : St × String :=
  match tokens line with
  | ["case", _] => (none, "ok")
  | ["us", "begin", fl] =>
    match (kv [fl] "flags").bind parseFlags with
    | some f => (some (Tree.new f), "ok")
    | none => (s, "bad-op")
  | ["us", "sub", fl] =>
    match s, (kv [fl] "flags").bind parseFlags with
    | some t, some f => (some (t.newSub f), "ok")
    | _, _ => (s, "bad-op")
  | "us" :: "arg" :: rest =>
    match s, (if (kv rest "k").isSome then none else parseArg rest) with
    | some t, some (a, mods) =>
      let (t', e) := t.addArgument a mods
      (some t', match e with | none => "ok" | some e => s!"throw {e.name}")
    | _, _ => (s, "bad-op")
  | "us" :: "subarg" :: rest =>
    match s, (kv rest "k").bind nat?, parseArg rest with
    | some t, some k, some (a, mods) =>
      match t.subAddArgument k a mods with
      | .ok (t', e) => (some t', match e with | none => "ok" | some e => s!"throw {e.name}")
      | _ => (s, "bad-op")
    | _, _, _ => (s, "bad-op")
  | "us" :: "group" :: rest =>
    match s, (kv rest "k").bind nat? with
    | some t, some k =>
      if k ≥ t.subs.length || attached t k then (s, "bad-op")
      else
        match parseArg rest (some k) with
        | some (a, mods) =>
          let (t', e) := t.addArgument a mods
          (some t', match e with | none => "ok" | some e => s!"throw {e.name}")
        | none => (s, "bad-op")
    | _, _ => (s, "bad-op")
  | ["us", "linelen", n] =>
    match s, int? n with
    | some t, some n =>
      match t.setLineLength n with
      | .ok t' => (some t', "ok")
      | .throw e => (s, s!"throw {e.name}")
      | .oob w => (s, s!"oob {w}")
    | _, _ => (s, "bad-op")
  | ["us", "sublinelen", k, n] =>
    match s, (kv [k] "k").bind nat?, int? n with
    | some t, some k, some n =>
      if k ≥ t.subs.length then (s, "bad-op")
      else
        match t.subSetLineLength k n with
        | .ok t' => (some t', "ok")
        | .throw e => (s, s!"throw {e.name}")
        | .oob w => (s, s!"oob {w}")
    | _, _, _ => (s, "bad-op")
  | "us" :: "usage" :: words =>
    match s with
    | some t =>
      let h := t.main
      if !(h.flags.helpShort || h.flags.helpLong) then (s, "bad-op")
      else
        match words.mapM (parseSwitch h.flags) with
        | some sw =>
          match usageWith h sw with
          | .ok ls => (s, s!"ok text={linesHex ls}")
          | .throw e => (s, s!"throw {e.name}")
          | .oob w => (s, s!"oob {w}")
        | none => (s, "bad-op")
    | none => (s, "bad-op")
  | "us" :: "subusage" :: rest =>
    match s, (kv rest "k").bind nat? with
    | some t, some k =>
      if !(rest.all fun w => ["k", "pre", "in"].contains ((w.splitOn "=").headD "")) then (s, "bad-op")
      else
        match t.subs[k]? with
        | none => (s, "bad-op")
        | some sh =>
          if !attached t k || !(sh.flags.helpShort || sh.flags.helpLong) then (s, "bad-op")
          else
            match (commaList (kv rest "pre")).mapM (parseSwitch t.main.flags),
                  (commaList (kv rest "in")).mapM (parseSubSwitch sh.flags) with
            | some pre, some inn =>
              match t.usageSub k (pre.map Ev.main ++ inn.map (Ev.sub k)) with
              | .ok ls => (s, s!"ok text={linesHex ls}")
              | .throw e => (s, s!"throw {e.name}")
              | .oob w => (s, s!"oob {w}")
            | _, _ => (s, "bad-op")
    | _, _ => (s, "bad-op")
  | ["us", "helparg", k] =>
    match s with
    | some t =>
      if !t.main.flags.helpArg then (s, "bad-op")
      else
        match k.splitOn "/" with
        | [k] =>
          match parseKey k with
          | some key => (s, outErr (helpArgument t.main k.toList key))
          | none => (s, "bad-op")
        | [g, r] =>
          match parseKey g, parseKey r with
          | some gk, some rk => (s, outErr (t.helpArgumentSlash k.toList gk r.toList rk))
          | _, _ => (s, "bad-op")
        | _ => (s, "bad-op")
    | none => (s, "bad-op")
  | ["us", "subhelparg", ks, k] =>
    match s, (kv [ks] "k").bind nat?, parseKey k with
    | some t, some i, some key =>
      match t.subs[i]? with
      | none => (s, "bad-op")
      | some sh =>
        if !attached t i || !sh.flags.helpArg then (s, "bad-op")
        else (s, outErr (t.helpArgumentSub i k.toList key))
    | _, _, _ => (s, "bad-op")
  | _ => (s, "bad-op")

def main : IO Unit := run (none : St) step
