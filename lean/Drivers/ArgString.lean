-- stub: replaced by the component's line-protocol driver
def main : IO Unit := pure ()
