import CelmaVerif.Base.Proto
import CelmaVerif.Model.ArgString
/- line-protocol driver for the ArgString2Array model (C07 splitting half) -/
open CelmaVerif CelmaVerif.ArgString CelmaVerif.Proto

def toChars (bs : List Nat) : List Char := bs.map Char.ofNat
def ofChars (cs : List Char) : List Nat := cs.map Char.toNat

def showArray : Res ArgArray → String
  | .ok a =>
    if !a.terminated then "!! argv[argc] is not null"
    else
      let ws := a.words
      if ws.any Option.isNone then "!! argv slot without a string"
      else
        let body := ws.map fun w => hexOut (ofChars (w.getD []))
        String.intercalate " " (s!"ok argc={a.argc}" :: body)
  | .throw e => s!"throw {e.name}"
  | .oob w => s!"oob {w}"

def step (_ : Unit) (line : String) : Unit × String :=
  match tokens line with
  | ["case", _] => ((), "ok")
  | ["as", "split", hx] =>
    match hexDecode hx with
    | some bs => ((), showArray (makeArgArray1 (toChars bs)))
    | none => ((), "bad-op")
  | ["as", "split2", hx, name] =>
    match hexDecode hx, (if name == "null" then some none else (hexDecode name).map some) with
    | some bs, some pn => ((), showArray (makeArgArray2 (toChars bs) (pn.map toChars)))
    | _, _ => ((), "bad-op")
  | _ => ((), "bad-op")

def main : IO Unit := run () step
