import CelmaVerif.Base.Proto
import CelmaVerif.Model.FixedString
import CelmaVerif.Model.FixedStringAlias
/- line-protocol driver for the fixedstring component (C10, C11); see harness/fixed_string.cpp -/
open CelmaVerif CelmaVerif.FixedString CelmaVerif.Proto

structure St where
  c : Cfg := ⟨1, 2 ^ 64, 256⟩
  cu : Cfg := ⟨9, 2 ^ 64, 256⟩
  w : Option World := none

def lengthMod (l : Nat) : Nat :=
  if l < 256 then 2 ^ 8 else if l < 65536 then 2 ^ 16 else if l < 4294967296 then 2 ^ 32 else 2 ^ 64

def fnv (bs : List Nat) : UInt64 :=
  bs.foldl (fun h b => (h ^^^ (UInt64.ofNat b)) * 1099511628211) 1469598103934665603

def hex64 (v : UInt64) : String :=
  let n := v.toNat
  String.join ((List.range 8).reverse.map fun i => hexByte (n / 256 ^ i % 256))

def enc (bs : List Nat) : String :=
  if bs.length ≤ 48 then hexOut bs else s!"#{bs.length}:{hex64 (fnv bs)}"

def fmtOut (c : Cfg) : Out → String
  | .unit => "-"
  | .nat n => toString n
  | .pos none => "npos"
  | .pos (some i) => toString i
  | .int i => if i < 0 then "-1" else if i > 0 then "1" else "0"
  | .bool b => if b then "1" else "0"
  | .bytes l => enc l
  | .byte b => hexByte b
  | .copied n l => s!"{n}:{enc l}"
  | .iter i => if i = itEnd c then "end" else toString i

def stateStr (pfx : String) (s : FStr) (cap : Nat) : String :=
  s!"{pfx}len={s.len} {pfx}buf={enc (s.buf.take (min s.len cap))}"

/-- symbolic numbers: `npos`, `@len`, `@cap`, `@rem` with an optional `+k` / `-k` (saturating at 0) -/
def num (c : Cfg) (s : FStr) (tk : String) : Option Nat :=
  let tail (base : Nat) (rest : String) : Option Nat :=
    if rest.isEmpty then some base
    else match (rest.drop 1).toString.toNat? with
      | none => none
      | some k => if rest.startsWith "+" then some ((base + k) % c.W) else if rest.startsWith "-" then some (base - k) else none
  let curLen := min s.len c.L
  if tk.startsWith "npos" then tail (npos c) (tk.drop 4).toString
  else if tk.startsWith "@len" then tail curLen (tk.drop 4).toString
  else if tk.startsWith "@cap" then tail c.L (tk.drop 4).toString
  else if tk.startsWith "@rem" then tail (c.L - curLen) (tk.drop 4).toString
  else tk.toNat?

/-- one segment of a source payload: `<hex bytes>` or `<hex pattern>x<count>` (the pattern repeated
    cyclically up to exactly `count` bytes, `count ≤ 2^20`); same rules as `decodeSrc` in the harness -/
def segDecode (seg : String) : Option (List Nat) :=
  match seg.splitOn "x" with
  | [h] => if h.isEmpty || h == "-" then none else hexDecode h
  | [h, n] =>
    if h.isEmpty || h == "-" || n.isEmpty || n.length > 7 || !(n.all Char.isDigit) then none
    else match hexDecode h, n.toNat? with
      | some pat, some k =>
        if pat.isEmpty || k > 2 ^ 20 then none
        else
          let a := pat.toArray
          some ((List.range k).map fun i => a[i % a.size]!)
      | _, _ => none
  | _ => none

/-- source payload: `-` (empty) or segments joined by `+` -/
def srcDecode (s : String) : Option (List Nat) :=
  if s == "-" then some []
  else (s.splitOn "+").foldlM (fun acc seg => (segDecode seg).map (acc ++ ·)) []

def srcOf (pfx : String) (tk : String) : Option (List Nat) :=
  if tk.startsWith pfx then srcDecode (tk.drop pfx.length).toString else none

def chOf (tk : String) : Option Nat :=
  match hexDecode tk with
  | some [b] => some b
  | _ => none

def selOf (tk : String) : Option Sel :=
  if tk == "t" then some .t else if tk == "u" then some .u else none

def ilOf (tk : String) : Option (List Nat) :=
  let l (s : String) : List Nat := s.toList.map Char.toNat
  match tk with
  | "il:0" => some []
  | "il:1" => some (l "x")
  | "il:2" => some (l "xy")
  | "il:3" => some (l "pqr")
  | "il:5" => some (l "vwxyz")
  | "il:9" => some (l "123456789")
  | _ => none

def famOf : String → Option Fam
  | "find" => some .find | "rfind" => some .rfind | "ffo" => some .ffo | "ffno" => some .ffno
  | "flo" => some .flo | "flno" => some .flno | _ => none

/-- iterator moves: `-` (none) or a comma-separated list of `i` (++), `d` (--), `a<n>` (+= n), `s<n>` (-= n) -/
def movesOf (N : String → Option Nat) (tk : String) : Option (List ItMove) :=
  if tk == "-" then some []
  else (tk.splitOn ",").mapM fun m =>
    if m == "i" then some ItMove.inc else if m == "d" then some ItMove.dec
    else if m.startsWith "a" then (N (m.drop 1).toString).map ItMove.add
    else if m.startsWith "s" then (N (m.drop 1).toString).map ItMove.sub
    else none

def revOf (tk : String) : Option Bool :=
  if tk == "f" then some false else if tk == "r" then some true else none

/-- wide-character argument: `-` (empty) or code points in hex joined by `.`; 0 (the terminator) and values that do
    not fit a 32-bit `wchar_t` are refused (same rules as `wideOf` in the harness) -/
def wideOf (tk : String) : Option (List Nat) :=
  if tk == "-" then some []
  else (tk.splitOn ".").mapM fun h =>
    if h.isEmpty || h.length > 8 then none
    else h.toList.foldlM (fun (acc : Nat) ch =>
      if ch.isDigit then some (acc * 16 + (ch.toNat - 48))
      else if 'a' ≤ ch ∧ ch ≤ 'f' then some (acc * 16 + (ch.toNat - 87))
      else none) 0 >>= fun v => if v = 0 ∨ v ≥ 2 ^ 31 then none else some v

/-- `ls`, `lc`, `lsp<precision>` (precision < 2^31, decimal) -/
def wargOf (kind : String) (ws : List Nat) : Option WArg :=
  if kind == "ls" then some (.ls ws)
  else if kind == "lc" then (match ws with | [w] => some (.lc w) | _ => none)
  else if kind.startsWith "lsp" then
    let d := (kind.drop 3).toString
    if d.isEmpty || d.length > 10 || !(d.all Char.isDigit) then none
    else match d.toNat? with
      | some p => if p < 2 ^ 31 then some (.lsp p ws) else none
      | none => none
  else none

def parse (c : Cfg) (w : World) (toks : List String) : Option Op := do
  let N (tk : String) : Option Nat := num c w.s tk
  let I (tk : String) : Option ItArg := if tk == "end" then some .fin else (N tk).map .pos
  let TI (tk : String) : Option ItArg := if tk == "end" then some .fin else (num c w.s tk).map .pos
  -- `self:<k>`: the pointer `c_str() + k` into the own buffer (k ≤ length()), a value for the model (`selfPtr`)
  let P (tk : String) : Option (List Nat) :=
    if tk.startsWith "self:" then
      (num c w.s (tk.drop 5).toString).bind fun k => if k ≤ min w.s.len c.L then some (selfPtr w.s k) else none
    else (srcOf "c:" tk).map (· ++ [0])
  let S (tk : String) : Option (List Nat) := srcOf "s:" tk
  match toks with
  | ["tset", d] => return .tset (← S d)
  | ["uset", d] => return .uset (← S d)
  | ["ctor_p", a] => return .ctorP (← P a)
  | ["ctor_s", d] => return .ctorS (← S d)
  | ["ctor_f", f] => return .ctorF (← selOf f)
  | ["ctor_move", "t"] => return .ctorMove
  | ["ctor_def"] => return .ctorDef
  | ["assign_p", a] => return .assignP (← P a)
  | ["assign_s", d] => return .assignS (← S d)
  | ["assign_f", f] => return .assignF (← selOf f)
  | ["set_p", a] => return .setP (← P a)
  | ["set_s", d] => return .setS (← S d)
  | ["set_f", f] => return .setF (← selOf f)
  | ["clear"] => return .clear
  | ["str"] => return .str
  | ["c_str"] => return .cStr
  | ["data"] => return .data
  | ["length"] => return .length
  | ["empty"] => return .empty
  | ["at", i] => return .atI (← N i)
  | ["cat", i] => return .cat (← N i)
  | ["idx", i] => do let k ← N i; if k > c.L then none else return .idx k
  | ["front"] => return .front
  | ["back"] => return .back
  | ["stream"] => return .stream
  | ["iter_fwd"] => return .iterFwd
  | ["iter_cfwd"] => return .iterCFwd
  | ["iter_rev"] => return .iterRev
  | ["iter_crev"] => return .iterCRev
  | ["it_deref", k] => return .itDeref (← N k)
  | ["it_dist"] => return .itDist
  | ["it_walk", d, p, ms] => return .itWalk (← revOf d) (← I p) (← movesOf N ms)
  | ["it_walkd", d, p, ms] => return .itWalkDeref (← revOf d) (← I p) (← movesOf N ms)
  | ["it_walki", d, p, ms, k] => do
      let rev ← revOf d; let p' ← I p; let ms' ← movesOf N ms; let k' ← N k
      let i := itWalk c w.s rev (itOf c w.s p') ms'
      -- `it[ k]` beyond the buffer is undefined (the contract of `operator[]`): not asked
      if rev then (if k' ≤ i ∧ i - k' > c.L then none else return .itWalkIdx rev p' ms' k')
      else (if addW c i k' > c.L then none else return .itWalkIdx rev p' ms' k')
  | ["it_rel", d, r, a, b] => return .itRel (← revOf d) (← r.toNat?) (← I a) (← I b)
  | ["insert_icc", i, n, ch] => return .insertICC (← N i) (← N n) (← chOf ch)
  | ["insert_ipc", i, a, n] => do
      let a' ← P a; let k ← N n
      if k > a'.length then none else return .insertIPC (← N i) a' k
  | ["insert_ip", i, a] => return .insertIP (← N i) (← P a)
  | ["insert_is", i, d] => return .insertIS (← N i) (← S d)
  | ["insert_isic", i, d, j, n] => return .insertISIC (← N i) (← S d) (← N j) (← N n)
  | ["insert_if", i, f] => return .insertIF (← N i) (← selOf f)
  | ["insert_ific", i, f, j, n] => return .insertIFIC (← N i) (← selOf f) (← N j) (← N n)
  | ["insert_itc", p, ch] => return .insertItC (← I p) (← chOf ch)
  | ["insert_itcc", p, n, ch] => return .insertItCC (← I p) (← N n) (← chOf ch)
  | ["insert_itil", p, il] => return .insertItIl (← I p) (← ilOf il)
  | ["erase", i, n] => return .erase (← N i) (← N n)
  | ["erase_i", i] => return .eraseI (← N i)
  | ["erase_0"] => return .erase0
  | ["erase_it", p] => return .eraseIt (← I p)
  | ["erase_itit", p, q] => return .eraseItIt (← I p) (← I q)
  | ["push_back", ch] => return .pushBack (← chOf ch)
  | ["pop_back"] => return .popBack
  | ["append_cc", n, ch] => return .appendCC (← N n) (← chOf ch)
  | ["append_s", d] => return .appendS (← S d)
  | ["append_f", f] => return .appendF (← selOf f)
  | ["append_spc", d, p, n] => return .appendSPC (← S d) (← N p) (← N n)
  | ["append_sp", d, p] => return .appendSP (← S d) (← N p)
  | ["append_fpc", f, p, n] => return .appendFPC (← selOf f) (← N p) (← N n)
  | ["append_fp", f, p] => return .appendFP (← selOf f) (← N p)
  | ["append_pc", a, n] => return .appendPC (← P a) (← N n)
  | ["append_p", a] => return .appendP (← P a)
  | ["append_itit", x, y] => do
      let x' ← TI x; let y' ← TI y
      if itPos (abs w.t) x' > itPos (abs w.t) y' then none else return .appendItIt x' y'
  | ["add_f", f] => return .addF (← selOf f)
  | ["add_s", d] => return .addS (← S d)
  | ["add_p", a] => return .addP (← P a)
  | ["add_c", ch] => return .addC (← chOf ch)
  | ["sprintf", a] => return .sprintf (← P a)
  | ["sprintf2", a, v] => return .sprintf2 (← P a) (← N v)
  | ["sprintf_w", a, kind, ws, v, b] => return .sprintfW (← P a) (← wargOf kind (← wideOf ws)) (← N v) (← P b)
  | ["cmp_f", f] => return .cmpF (← selOf f)
  | ["cmp_s", d] => return .cmpS (← S d)
  | ["cmp_p", a] => return .cmpP (← P a)
  | ["cmp_ccf", p, n, f] => return .cmpCCF (← N p) (← N n) (← selOf f)
  | ["cmp_ccs", p, n, d] => return .cmpCCS (← N p) (← N n) (← S d)
  | ["cmp_ccp", p, n, a] => return .cmpCCP (← N p) (← N n) (← P a)
  | ["cmp_ccfcc", p, n, f, p2, n2] => return .cmpCCFCC (← N p) (← N n) (← selOf f) (← N p2) (← N n2)
  | ["cmp_ccscc", p, n, d, p2, n2] => return .cmpCCSCC (← N p) (← N n) (← S d) (← N p2) (← N n2)
  | ["cmp_ccpc", p, n, a, n2] => return .cmpCCPC (← N p) (← N n) (← P a) (← N n2)
  | ["sw_f", f] => return .swF (← selOf f)
  | ["sw_s", d] => return .swS (← S d)
  | ["sw_p", a] => return .swP (← P a)
  | ["sw_c", ch] => return .swC (← chOf ch)
  | ["ew_f", f] => return .ewF (← selOf f)
  | ["ew_s", d] => return .ewS (← S d)
  | ["ew_p", a] => return .ewP (← P a)
  | ["ew_c", ch] => return .ewC (← chOf ch)
  | ["ct_f", f] => return .ctF (← selOf f)
  | ["ct_s", d] => return .ctS (← S d)
  | ["ct_p", a] => return .ctP (← P a)
  | ["ct_c", ch] => return .ctC (← chOf ch)
  | ["rep_ccf", p, n, f] => return .repCCF (← N p) (← N n) (← selOf f)
  | ["rep_ccs", p, n, d] => return .repCCS (← N p) (← N n) (← S d)
  | ["rep_ccfcc", p, n, f, p2, n2] => return .repCCFCC (← N p) (← N n) (← selOf f) (← N p2) (← N n2)
  | ["rep_ccfc", p, n, f, p2] => return .repCCFC (← N p) (← N n) (← selOf f) (← N p2)
  | ["rep_ccscc", p, n, d, p2, n2] => return .repCCSCC (← N p) (← N n) (← S d) (← N p2) (← N n2)
  | ["rep_ccsc", p, n, d, p2] => return .repCCSC (← N p) (← N n) (← S d) (← N p2)
  | ["rep_ccp", p, n, a] => return .repCCP (← N p) (← N n) (← P a)
  | ["rep_ccpc", p, n, a, n2] => return .repCCPC (← N p) (← N n) (← P a) (← N n2)
  | ["rep_cccc", p, n, n2, ch] => return .repCCCC (← N p) (← N n) (← N n2) (← chOf ch)
  | ["rep_itit_itit", f, l, x, y] => do
      let x' ← TI x; let y' ← TI y
      if itPos (abs w.t) x' > itPos (abs w.t) y' then none else return .repItItItIt (← I f) (← I l) x' y'
  | ["rep_itit_sit", f, l, d, i, j] => do
      let d' ← S d; let i' ← N i; let j' ← N j
      if i' > j' ∨ j' > d'.length then none else return .repItItSIt (← I f) (← I l) d' i' j'
  | ["rep_itit_pc", f, l, a, n2] => do
      let a' ← P a; let k ← N n2
      if k > a'.length then none else return .repItItPC (← I f) (← I l) a' k
  | ["rep_itit_p", f, l, a] => return .repItItP (← I f) (← I l) (← P a)
  | ["rep_itit_cc", f, l, n2, ch] => return .repItItCC (← I f) (← I l) (← N n2) (← chOf ch)
  | ["rep_itit_il", f, l, il] => return .repItItIl (← I f) (← I l) (← ilOf il)
  | ["substr", p, n] => return .substr (← N p) (← N n)
  | ["substr_p", p] => return .substrP (← N p)
  | ["copy", n, p] => return .copy (← N n) (← N p)
  | ["copy_c", n] => return .copyC (← N n)
  | ["swap", "t"] => return .swap
  | ["eq", f] => return .eq (← selOf f)
  | ["ne", f] => return .ne (← selOf f)
  | op :: args =>
    match op.splitOn "_" with
    | [fam, kind] => do
      let fam ← famOf fam
      match kind, args with
      | "f", ["t", p] => return .search fam (.f (some (← N p)))
      | "f0", ["t"] => return .search fam (.f none)
      | "s", [d, p] => return .search fam (.s (← S d) (some (← N p)))
      | "s0", [d] => return .search fam (.s (← S d) none)
      | "ppc", [a, p, n] => do
          let a' ← P a; let k ← N n
          if k > a'.length then none else return .search fam (.ppc a' (← N p) k)
      | "pp", [a, p] => return .search fam (.pp (← P a) (some (← N p)))
      | "p0", [a] => return .search fam (.pp (← P a) none)
      | "c", [ch, p] => return .search fam (.c (← chOf ch) (some (← N p)))
      | "c0", [ch] => return .search fam (.c (← chOf ch) none)
      | _, _ => none
    | _ => none
  | _ => none

def isItMut : Op → Bool
  | .insertItC .. | .insertItCC .. | .insertItIl .. | .eraseIt .. | .eraseItIt .. => true
  | _ => false

def render (c : Cfg) (op : Op) (w w' : World) (status r : String) : String :=
  let s := w'.s
  let sl := match cstrlen s.buf with | .ok n => toString n | _ => "oob"
  let tpart := match op with | .swap => " " ++ stateStr "t." w'.t c.L | _ => ""
  let x := abs w.s
  let big := npos c
  let (er, et) := match spec (fun n => min n (c.L + 1)) big w op with
    | .ok (t, o) => ((if isItMut op then "*" else fmtOut c o), t)
    | .throw e => ("throw:" ++ e.name, x)
    | .oob wh => ("oob:" ++ wh, x)
  let cut := et.take c.L
  let dom := if inDomain big w op then "1" else "0"
  s!"{status} r={r} {stateStr "" s c.L} sl={sl} all={hex64 (fnv s.buf)}{tpart} e.r={er} e.len={cut.length} e.buf={enc cut} dom={dom}"

def step' (st : St) (line : String) : St × String :=
  match tokens line with
  | ["case", _] => ({}, "ok")
  | ["new", l] =>
    match l.toNat? with
    | some l =>
      let c : Cfg := ⟨l, 2 ^ 64, lengthMod l⟩
      let cu : Cfg := ⟨9, 2 ^ 64, 256⟩
      ({ c := c, cu := cu, w := some (World.init c cu) }, "ok")
    | none => (st, "bad-op")
  | ["new", l, su] =>      -- capacity of `u` given explicitly (arguments of type FixedString<S> longer than 255 / 65535)
    match l.toNat?, su.toNat? with
    | some l, some su =>
      let c : Cfg := ⟨l, 2 ^ 64, lengthMod l⟩
      let cu : Cfg := ⟨su, 2 ^ 64, lengthMod su⟩
      ({ c := c, cu := cu, w := some (World.init c cu) }, "ok")
    | _, _ => (st, "bad-op")
  | "alias" :: toks =>      -- the FixedString / iterator-pair argument `t` of the operation is the object `s` itself
    match st.w with
    | none => (st, "bad-op")
    | some w =>
      match parse st.c w.aliased toks with
      | none => (st, "bad-op")
      | some op =>
        if !aliasable op then (st, "bad-op")
        else
          match stepAliased st.c st.cu w op with
          | .ok (w', o) => ({ st with w := some w' }, render st.c op w.aliased w' "ok" (fmtOut st.c o))
          | .throw e => (st, render st.c op w.aliased w.aliased s!"throw {e.name}" s!"throw:{e.name}")
          | .oob wh => (st, s!"oob {wh}")
  | toks =>
    match st.w with
    | none => (st, "bad-op")
    | some w =>
      match parse st.c w toks with
      | none => (st, "bad-op")
      | some op =>
        match step st.c st.cu w op with
        | .ok (w', o) =>
          match op with
          | .tset _ => ({ st with w := some w' }, "ok " ++ stateStr "" w'.t st.c.L)
          | .uset _ => ({ st with w := some w' }, "ok " ++ stateStr "" w'.u st.cu.L)
          | _ => ({ st with w := some w' }, render st.c op w w' "ok" (fmtOut st.c o))
        | .throw e => (st, render st.c op w w s!"throw {e.name}" s!"throw:{e.name}")
        | .oob wh => (st, s!"oob {wh}")

def main : IO Unit := run ({} : St) step'
