import CelmaVerif.Base.Proto
import CelmaVerif.Model.TextBlock
/- line-protocol driver for the text block component (C17)

   tb format indent=<n> width=<n> first=<0|1> text=<hex>   ->  ok out=<hex of the rendered lines>

   Bytes are mapped to the characters with the same code (0..255) and back, so the model works on
   exactly the byte string the C++ sees. -/
open CelmaVerif CelmaVerif.TextBlock CelmaVerif.Proto

def step (_ : Unit) (line : String) : Unit × String :=
  match tokens line with
  | ["case", _] => ((), "ok")
  | ["tb", "format", a, b, c, d] =>
    let t := [a, b, c, d]
    match (kv t "indent").bind (·.toNat?), (kv t "width").bind (·.toNat?), kv t "first",
          (kv t "text").bind hexDecode with
    | some i, some w, some f, some bytes =>
      if (f ≠ "0" ∧ f ≠ "1") ∨ i ≥ 1000000000 ∨ w ≥ 1000000000 then ((), "bad-op")
      else
        let cfg : Cfg := { indent := i, width := w, first := f == "1" }
        let out := render (format cfg (bytes.map Char.ofNat))
        ((), s!"ok out={hexOut (out.map Char.toNat)}")
    | _, _, _, _ => ((), "bad-op")
  | _ => ((), "bad-op")

def main : IO Unit := run () step
