import CelmaVerif.Lemmas.HandlerSafe
import CelmaVerif.Lemmas.ArgStringMem
import CelmaVerif.Generated.HandlerAlloc
/-
  C04 — argument evaluation is memory-safe for every argument vector and source.
  What the model can carry: every read of argv is checked (`oob` = invalid access), every loop has
  a bound, every exception is a value.  Heap discipline of unmodelled library objects is not
  exhibited here (sanitised correspondence runs cover it, see DESIGN.md).
-/
namespace CelmaVerif.Props.C04
open CelmaVerif CelmaVerif.ProgArgs CelmaVerif.Keys

/-- The argument cursor: for every argv with a program name, `begin()` reads no byte outside argv;
    it yields a valid cursor or throws `argument_error` (a std::runtime_error). -/
theorem C04_cursor_begin (argv : List Word) (h : 1 ≤ argv.length) :
    BeginPost argv (It.begin argv) :=   -- ok it: it.Inv ∧ it.argv = argv; throw e: e = runtime_error; never oob
  begin_good argv h

/-- Every `operator++` from a valid cursor before the end — whatever bytes the words hold (only
    dashes, '=', brackets, '!', empty words …), also on the copy the handler flags with "the rest of
    the word is the value" — touches only `argv[i]` with `i < argc` and `argv[i][j]` with
    `j ≤ strlen`; the cursor stays valid and strictly approaches the end. -/
theorem C04_cursor_step (it : It) (flag : Bool) (h : it.Inv) (hne : it.atEnd = false) :
    -- Good it r: ok it' with it'.Inv ∧ it'.argv = it.argv ∧ it'.measure < it.measure; throw runtime_error; never oob
    Good it (({ it with remAsValue := flag } : It).step) :=
  step_flag_good it flag h (notAtEnd_le h hne)

/-- the distance to the end is bounded by the size of argv: iteration terminates after at most
    `totalChars argv` steps -/
theorem C04_cursor_terminates (it : It) : it.measure < totalChars it.argv := measure_lt_total it

/-- Evaluation by a handler: for every configuration of the modelled fragment, every handler state,
    every content of the argument file, every value of the environment variable and every argument
    vector with a program name, `evalArguments` performs no access outside argv or a word, never
    exhausts a loop bound (terminates), and ends with a normal return or an exception of a class
    derived from std::exception. -/
theorem C04_eval_safe (cfg : Cfg) (h : HState) (src : Sources) (argv : List Word) (hargc : 1 ≤ argv.length) :
    Safe (evalArguments cfg h src argv) :=      -- Safe r: r is `ok _`, or `throw e` with `stdExc e`; never `oob`
  evalArguments_safe cfg h src argv hargc

/-- the same for evaluation through an argument group -/
theorem C04_groups_eval_safe (cfg : Cfg) (inits : List DVal) (argMember globMember order : List Nat)
    (argv : List Word) (hargc : 1 ≤ argv.length) :
    Safe (groupsEval cfg inits argMember globMember order argv) :=
  groupsEval_safe cfg inits argMember globMember order argv hargc

/-- Key specifications (typed long keys go through the `ArgumentKey` string constructor): for every
    string the constructor returns a key or throws std::invalid_argument; it never reads outside the
    string. -/
theorem C04_key_parse_total (s : List Char) :
    (∃ k, Key.parse s = .ok k) ∨ Key.parse s = .throw .invalid_argument := parse_total s

/-! ### the program-name copies (regenerated from handler.cpp on every run) -/

/-- `strcpy( copy, arg0)` into `new char[ strlen( arg0) + extra]`: checked write of the text and its NUL -/
def copyProgName (extra : Nat) (arg0 : List Byte) : Res (List Byte) :=
  Mem.write (List.replicate (arg0.length + extra) 0) 0 (arg0 ++ [0]) "strcpy into program-name copy"

theorem copyProgName_ok_iff (extra : Nat) (arg0 : List Byte) :
    (∃ b, copyProgName extra arg0 = .ok b) ↔ 1 ≤ extra := by
  unfold copyProgName Mem.write
  simp only [List.length_append, List.length_replicate, List.length_cons, List.length_nil]
  constructor
  · intro ⟨b, hb⟩
    split at hb
    · omega
    · cases hb
  · intro h
    have : 0 + (arg0.length + (0 + 1)) ≤ arg0.length + extra := by omega
    rw [if_pos this]
    exact ⟨_, rfl⟩

/-- Both program-name copies of `handler.cpp` (as extracted from the current source): for a program
    name of any length the copy stays inside its allocation, and the memory obtained with `new[]` is
    released by an array deleter. -/
theorem C04_progname_copy :
    ∀ c ∈ Generated.HandlerAlloc.copies, (∀ arg0 : List Byte, ∃ b, copyProgName c.extra arg0 = .ok b) ∧
      c.arrayOwner = true := by
  have hall : ∀ c ∈ Generated.HandlerAlloc.copies, 1 ≤ c.extra ∧ c.arrayOwner = true := by decide
  intro c hc
  obtain ⟨h1, h2⟩ := hall c hc
  exact ⟨fun arg0 => (copyProgName_ok_iff c.extra arg0).mpr h1, h2⟩

/-- what the pinned commit did: an allocation of `strlen( arg0)` bytes is overrun for every name -/
theorem C04_progname_copy_head_overflows (arg0 : List Byte) : ¬ ∃ b, copyProgName 0 arg0 = .ok b := by
  rw [copyProgName_ok_iff]; omega

/-! ### non-vacuity -/

example : (It.begin ["prog".toList, "-fa5".toList, "--".toList, "-x".toList]).isOk = true := by decide
example : (match It.begin ["p".toList, "--alpha=7".toList] with
    | .ok it => it.atEnd == false && it.cur.str == "alpha".toList
    | _ => false) = true := by decide
example : (evalArguments { args := [{ key := ⟨some 'a', "alpha".toList⟩, kind := .int, vmode := .required, card := .max 1 }] }
    { args := [{ dest := .int 0 }], pending := [], globals := [] } {} ["p".toList, "--alpha=7".toList]).isOk = true := by
  decide

end CelmaVerif.Props.C04
