import CelmaVerif.Lemmas.HandlerSafe
import CelmaVerif.Lemmas.IterCur
import CelmaVerif.Lemmas.ArgStringMem
import CelmaVerif.Generated.HandlerAlloc
/-
  C04 — argument evaluation is memory-safe for every argument vector and source.
  What the model can carry: every read of argv is checked (`oob` = invalid access), every loop has
  a bound, every exception is a value.  Heap discipline of unmodelled library objects is not
  exhibited here (sanitised correspondence runs cover it, see DESIGN.md).
-/
namespace CelmaVerif.Props.C04
open CelmaVerif CelmaVerif.ProgArgs CelmaVerif.Keys

/-- The argument cursor: for every argv with a program name, `begin()` reads no byte outside argv;
    it yields a valid cursor or throws `argument_error` (a std::runtime_error). -/
theorem C04_cursor_begin (argv : List Word) (h : 1 ≤ argv.length) :
    BeginPost argv (It.begin argv) :=   -- ok it: it.Inv ∧ it.argv = argv; throw e: e = runtime_error; never oob
  begin_good argv h

/-- Every `operator++` from a valid cursor before the end — whatever bytes the words hold (only
    dashes, '=', brackets, '!', empty words …), also on the copy the handler flags with "the rest of
    the word is the value" — touches only `argv[i]` with `i < argc` and `argv[i][j]` with
    `j ≤ strlen`; the cursor stays valid and strictly approaches the end. -/
theorem C04_cursor_step (it : It) (flag : Bool) (h : it.Inv) (hne : it.atEnd = false) :
    -- Good it r: ok it' with it'.Inv ∧ it'.argv = it.argv ∧ it'.measure < it.measure; throw runtime_error; never oob
    Good it (({ it with remAsValue := flag } : It).step) :=
  step_flag_good it flag h (notAtEnd_le h hne)

/-- the distance to the end is bounded by the size of argv: iteration terminates after at most
    `totalChars argv` steps -/
theorem C04_cursor_terminates (it : It) : it.measure < totalChars it.argv := measure_lt_total it

/-- Evaluation by a handler (MODELLED FRAGMENT — the statement is about `Model/ProgArgs/Handler.lean`):
    for every configuration of the fragment, every handler state, every content of the argument
    file, every value of the environment variable and every argument vector with a program name
    (`argc ≥ 1`; for `argc = 0` see `C04_argc0_reads_before_argv`), `evalArguments` performs no access
    outside argv or a word, never exhausts a loop bound (terminates), and ends with a normal return
    or an exception of a class derived from std::exception.
    In the fragment: destinations bool, int, std::string, LevelCounter, std::vector<int> (also
    multi-value); value modes none/optional/required; checks lower/upper/range/values/minLength/
    maxLength/pattern; cardinalities; constraints requires/excludes, all-of/any-of/one-of, differ/
    disjoint; handler flags: abbreviations on/off, argument file, environment variable.
    NOT in the fragment (no statement here, covered only by the sanitised correspondence runs as far
    as the generators reach them): bracket handlers, inversion support, `Handler::addArgumentFile`
    (`--arg-file`: reads a file from inside the argv loop), nested sub-groups (sub-group arguments of
    depth 2 ARE covered: `C04_subgroup_eval_safe` in Props/C04s.lean, about `evalArgumentsT`, which is
    what the driver runs; this theorem reaches the tie through `C04_subgroup_conservative`), value mode
    `command` (the only caller of `isSingleArg()`/`argsAsString()`: their reads are
    `C04_single_arg_read`, `C04_args_as_string_*` below, on the cursor alone), callables, formats,
    usage/help flags, other destination types.
    What "safe" can mean here: reads of argv are checked (`getWord`/`getChar`/`getSuffix` answer `oob`
    outside argv, the theorem says they never do); the handler-internal tables (`args.getD i default`,
    `cfg.args[i]?`, `List.set`) are total by construction and can never answer `oob` — for them the
    theorem says nothing, and the clauses "no use after free, no double deallocation, no null
    dereference" of the property have NO theorem: they rest on the ASan/UBSan verdict of the runs. -/
theorem C04_eval_safe (cfg : Cfg) (h : HState) (src : Sources) (argv : List Word) (hargc : 1 ≤ argv.length) :
    Safe (evalArguments cfg h src argv) :=      -- Safe r: r is `ok _`, or `throw e` with `stdExc e`; never `oob`
  evalArguments_safe cfg h src argv hargc

/-- the same for evaluation through an argument group (argv only: `Groups::evalArguments` has no
    argument-file or environment source of its own — `Groups::getArgHandler` creates the member
    handlers, and the sources are a matter of `Handler::evalArguments`, which a group never calls) -/
theorem C04_groups_eval_safe (cfg : Cfg) (inits : List DVal) (argMember globMember order : List Nat)
    (argv : List Word) (hargc : 1 ≤ argv.length) :
    Safe (groupsEval cfg inits argMember globMember order argv) :=
  groupsEval_safe cfg inits argMember globMember order argv hargc

/-! ### the current element: `isSingleArg()`, `argsAsString()` -/

/-- The invariant of the current element (`It.CurInv`: before the end the element is set; its word
    index `i` satisfies `0 ≤ i < argc`; a single-character element `argv[i][p]` has `1 ≤ p < strlen`
    and the cursor stands right behind it) holds after `begin()` and after every `operator++` from a
    valid cursor, also on the copy flagged "rest of the word is the value". -/
theorem C04_cursor_current_element (argv : List Word) (it : It) (flag : Bool) (h : it.Inv) :
    CurPost (It.begin argv) ∧ CurPost (({ it with remAsValue := flag } : It).step) :=
  -- CurPost r: if r = ok it' then it'.CurInv
  ⟨begin_cur argv, step_flag_cur it flag h⟩

/-- `isSingleArg()` reads `mpArgV[ mCurrElement.mArgIndex][ 2]` only for a single-character element
    at position 1, i.e. inside a word of at least two characters (`[2]` is at most the NUL): never
    outside.  The element's index is a natural number there, so the model's `Int.toNat` is exact.
    For NUL-free words it answers `true` exactly for a two-character word `-c`, and then the cursor
    stands at the next word. -/
theorem C04_single_arg_read (it : It) (hC : it.CurInv) :
    (∃ b, it.isSingleArg = .ok b) ∧
    ((∀ w ∈ it.argv, '\x00' ∉ w) → it.isSingleArg = .ok true →
      ∃ (i : Nat) (w : Word), it.cur.argIndex = (i : Int) ∧ it.argv[i]? = some w ∧ w.length = 2 ∧
        it.argIndex = i + 1) :=
  ⟨isSingleArg_safe it hC, fun hn e => isSingleArg_true it hC hn e⟩

/-- `argsAsString( true)` (positional value, value mode `command`) on a cursor before the end reads
    `argv[i]`, …, `argv[argc-1]` for the element's own index `0 ≤ i < argc`, and returns these words
    joined by blanks -/
theorem C04_args_as_string_self (it : It) (hC : it.CurInv) (hne : it.cur.ty ≠ .invalid) :
    ∃ (i : Nat) (w : Word), it.cur.argIndex = (i : Int) ∧ it.argv[i]? = some w ∧
      it.argsAsString true = .ok (w ++ ((it.argv.drop (i + 1)).map (fun w => ' ' :: w)).flatten) :=
  argsAsString_self_safe it hC hne

/-- `argsAsString( false)` (key with value mode `command`) never reads outside argv: it throws
    `argument_error` unless the element is a `-c` word, and otherwise returns the words that follow —
    none when `-c` is the last word -/
theorem C04_args_as_string_rest (it : It) (hC : it.CurInv) :
    it.argsAsString false = .throw .runtime_error ∨ ∃ s, it.argsAsString false = .ok s :=
  argsAsString_rest_safe it hC

/-- what the pinned code did there (repaired by `fix:` "argsAsString( false) on the last argument …"):
    for a `-c` element that is the last word it indexed `argv[argc]`, the terminating null pointer,
    and built a `std::string` from it -/
theorem C04_args_as_string_head_last (it : It) (hb : it.isSingleArg = .ok true)
    (hlast : it.argIndex = it.argv.length) : ∃ s, it.argsAsStringHead false = .oob s :=
  argsAsStringHead_last it hb hlast

/-- `argc = 0` is OUTSIDE every theorem above, and the code is not safe there: the iterator
    constructor evaluates `::strlen( mpArgV[ mArgC - 1])`, i.e. reads `argv[-1]` (the model answers
    `oob`).  Known finding `argc0-reads-outside-argv` (known_findings.d/progargs.json), replayed by
    every run: op `pa argc0` evaluates `evalArguments( 0, { nullptr })` in a fork()ed child of the
    harness, ASan reports a heap-buffer-overflow.  On the real code the FIRST read outside argv is
    `::strlen( mpArgV[ 1])` in `begin()` (with `mArgC == 0` the constructor's test
    `asEnd || mArgC == 1` fails: else branch); `argv[-1]` is the read of `end()` that follows when
    `argv[1]` happens to be readable.  The model's `It.begin` sends `argc ≤ 1` to `mkEnd` and so names
    the second read; both are outside argv.  Reachable through `ArgString2Array( "")`. -/
theorem C04_argc0_reads_before_argv : ∃ s, It.begin [] = .oob s := ⟨_, rfl⟩

/-- Key specifications (typed long keys go through the `ArgumentKey` string constructor): for every
    string the constructor returns a key or throws std::invalid_argument; it never reads outside the
    string. -/
theorem C04_key_parse_total (s : List Char) :
    (∃ k, Key.parse s = .ok k) ∨ Key.parse s = .throw .invalid_argument := parse_total s

/-! ### the program-name copies (regenerated from handler.cpp on every run) -/

/-- `strcpy( copy, arg0)` into `new char[ strlen( arg0) + extra]`: checked write of the text and its NUL -/
def copyProgName (extra : Nat) (arg0 : List Byte) : Res (List Byte) :=
  Mem.write (List.replicate (arg0.length + extra) 0) 0 (arg0 ++ [0]) "strcpy into program-name copy"

theorem copyProgName_ok_iff (extra : Nat) (arg0 : List Byte) :
    (∃ b, copyProgName extra arg0 = .ok b) ↔ 1 ≤ extra := by
  unfold copyProgName Mem.write
  simp only [List.length_append, List.length_replicate, List.length_cons, List.length_nil]
  constructor
  · intro ⟨b, hb⟩
    split at hb
    · omega
    · cases hb
  · intro h
    have : 0 + (arg0.length + (0 + 1)) ≤ arg0.length + extra := by omega
    rw [if_pos this]
    exact ⟨_, rfl⟩

/-- Both program-name copies of `handler.cpp` (as extracted from the current source): for a program
    name of any length the copy stays inside its allocation, and the memory obtained with `new[]` is
    released by an array deleter. -/
theorem C04_progname_copy :
    ∀ c ∈ Generated.HandlerAlloc.copies, (∀ arg0 : List Byte, ∃ b, copyProgName c.extra arg0 = .ok b) ∧
      c.arrayOwner = true := by
  have hall : ∀ c ∈ Generated.HandlerAlloc.copies, 1 ≤ c.extra ∧ c.arrayOwner = true := by decide
  intro c hc
  obtain ⟨h1, h2⟩ := hall c hc
  exact ⟨fun arg0 => (copyProgName_ok_iff c.extra arg0).mpr h1, h2⟩

/-- what the pinned commit did: an allocation of `strlen( arg0)` bytes is overrun for every name -/
theorem C04_progname_copy_head_overflows (arg0 : List Byte) : ¬ ∃ b, copyProgName 0 arg0 = .ok b := by
  rw [copyProgName_ok_iff]; omega

/-! ### non-vacuity -/

example : (It.begin ["prog".toList, "-fa5".toList, "--".toList, "-x".toList]).isOk = true := by decide
example : (match It.begin ["p".toList, "--alpha=7".toList] with
    | .ok it => it.atEnd == false && it.cur.str == "alpha".toList
    | _ => false) = true := by decide
/-- a cursor on the last word `-c`: the pinned `argsAsString( false)` leaves argv, the repaired one
    returns the empty string; `-c x`: both return `x` -/
example : (match It.begin [['p'], ['-', 'c']] with
    | .ok it => it.isSingleArg.isOk && (it.argsAsStringHead false).isOob && (it.argsAsString false).isOk
    | _ => false) = true := by decide
example : (match It.begin [['p'], ['-', 'c'], ['x']] with
    | .ok it => (match it.argsAsString false, it.argsAsString true with
        | .ok a, .ok b => a == ['x'] && b == ['-', 'c', ' ', 'x']
        | _, _ => false)
    | _ => false) = true := by decide
example : (evalArguments { args := [{ key := ⟨some 'a', "alpha".toList⟩, kind := .int, vmode := .required, card := .max 1 }] }
    { args := [{ dest := .int 0 }], pending := [], globals := [] } {} ["p".toList, "--alpha=7".toList]).isOk = true := by
  decide

end CelmaVerif.Props.C04
