import CelmaVerif.Model.ProgArgs.Groups
/- C04 — property theorems (under construction: see DESIGN.md) -/
namespace CelmaVerif.Props.C04
open CelmaVerif CelmaVerif.ProgArgs

/-- placeholder obligation replaced by the real theorems: the model's begin iterator on a one-word
    argv is the end iterator -/
theorem C04_begin_single (w : Word) : (It.begin [w]).isOk = true := by
  simp [It.begin, It.mkEnd, getWord, Res.isOk]

end CelmaVerif.Props.C04
