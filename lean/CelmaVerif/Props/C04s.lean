import CelmaVerif.Lemmas.SubGroupsSafe
import CelmaVerif.Lemmas.SubGroupsCons
import CelmaVerif.Lemmas.SubGroupsExamples
/-
  C04 for handlers with SUB-GROUP ARGUMENTS (`Handler::addArgument( spec, Handler& subGroup, desc)`;
  model `Model/ProgArgs/SubGroups.lean`, a conservative extension of the handler model): the
  sub-group branch of `Handler::processArg` — a copy `subAI` of the cursor, its `++`, the loop over
  the sub handler's `evalSingleArgument`, `ai = subAI++` — is memory-safe for every argv, also when
  the sub-group argument is the last word.
  How the plain theorems reach the tie: the driver runs `evalArgumentsT` / `groupsEvalT` for EVERY case;
  `C04_eval_safe` (Props/C04.lean, about `evalArguments`) speaks about what the driver runs through
  `C04_subgroup_conservative` (trees without sub-group arguments), trees with sub-group arguments are covered
  by `C04_subgroup_eval_safe` directly.
-/
namespace CelmaVerif.Props.C04s
open CelmaVerif CelmaVerif.Keys CelmaVerif.ProgArgs

/-- **Conservativity.**  A handler tree without sub-group arguments evaluates exactly as the plain
    handler model: same result (value, exception or out-of-bounds report), the sub-group part of the
    state untouched.  Every theorem of C01–C04 and C07 about `evalArguments` therefore speaks about
    `evalArgumentsT` on such trees. -/
theorem C04_subgroup_conservative (cfg : TCfg) (hs : cfg.subs = []) (t : TState) (src : Sources) (argv : List Word) :
    evalArgumentsT cfg t src argv = liftMain' t (evalArguments cfg.main t.main src argv) :=
  evalArgumentsT_nil cfg hs t src argv

/-- **`Handler::evalArguments` with sub-group arguments is memory-safe**: for every handler tree
    (any sub-group arguments with any sub handlers, abbreviation flags, rules), every state, file
    content, environment value and every argv with a program name, the evaluation never reads
    outside argv or outside a word, terminates within its bound (no loop — the element loop, the sub
    handler's loop — exhausts its fuel), and every exception is one of the six std:: classes. -/
theorem C04_subgroup_eval_safe (cfg : TCfg) (t : TState) (src : Sources) (argv : List Word)
    (h1 : 1 ≤ argv.length) : Safe (evalArgumentsT cfg t src argv) :=
  evalArgumentsT_safe cfg t src argv h1

/-- the same through `Groups::evalArguments` with members that own sub-group arguments -/
theorem C04_subgroup_groups_eval_safe (cfg : TCfg) (inits : TInits) (am sm gm order : List Nat)
    (argv : List Word) (h1 : 1 ≤ argv.length) : Safe (groupsEvalT cfg inits am sm gm order argv) :=
  groupsEvalT_safe cfg inits am sm gm order argv h1

/-- **The cursor handed back by `processArg` is never the end iterator** — also after a sub-group
    argument that is the last word: from a valid cursor that is not at the end, `processArg` of a
    handler with sub-group arguments returns a valid cursor over the same argv, not before the one it
    got and with `mArgIndex ≤ argc` (the end iterator has `argc + 1`), or throws a std:: exception.
    So the `++ai` of `iterateArguments` / `Groups::evalArguments` that follows is never applied to
    `end()`.  (The pinned code advanced `ai` itself before the sub handler's loop and could return
    `end()`; `fix:` 5c5d169.) -/
theorem C04_subgroup_cursor_not_end (cfg : TCfg) (t : TState) (key : Key) (ai : It) (hI : ai.Inv)
    (hle : ai.argIndex ≤ ai.argv.length) :
    match processArgT cfg t key ai with
    | .ok (_, ai', _) => ai'.Inv ∧ ai'.argv = ai.argv ∧ ai'.measure ≤ ai.measure ∧ ai'.argIndex ≤ ai'.argv.length
    | .throw e => stdExc e
    | .oob _ => False :=
  processArgT_safe cfg t key ai hI hle

/-! ### non-vacuity: a real sub-group -/

-- `-m -s`: the sub-group argument is the last word (the `++` of the copy reaches the end, the sub
-- handler is not asked, the main cursor stays on `-s`)
example : sgView (sgEval true ["-m", "-s"]) =
    some ([.flag true, .str []], [true], [[.flag false, .int 0, .vec []]]) := by decide +kernel
-- `-s -a -m`: `-a` goes to the sub handler, `-m` back to the main handler
example : sgView (sgEval true ["-s", "-a", "-m"]) =
    some ([.flag true, .str []], [true], [[.flag true, .int 0, .vec []]]) := by decide +kernel
-- a lone dash behind the sub-group argument: the `++` of the copy throws (argument_error)
example : isRuntimeError (sgEval true ["-s", "-"]) = true := by decide +kernel
example : Safe (sgEval true ["-s", "-"]) := C04_subgroup_eval_safe _ _ _ _ (by decide)

end CelmaVerif.Props.C04s
