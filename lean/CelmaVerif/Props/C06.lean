import CelmaVerif.Lemmas.ContainersSeq2
import CelmaVerif.Lemmas.ContainersArr
import CelmaVerif.Lemmas.ContainersBits
import CelmaVerif.Lemmas.ContainersMap
import CelmaVerif.Lemmas.ContainersTuple
/-
  C06 — multi-value destinations end up as the fold of all values given.

  `cuts : List (List (List Char))` is one way of giving an element sequence: a list of uses, each a list of
  elements (possibly empty ones) that are written as one value string with the list separator (`usesOf`).
  `elements cuts` is the sequence itself (empty elements dropped).  All theorems quantify over the container
  kind, the option set, the initial content and *every* cut.
-/
namespace CelmaVerif.Props.C06
open CelmaVerif CelmaVerif.Containers

/-- **Fold, sequence / set / adapter kinds** (vector, deque, list, forward_list, set, multiset, stack, queue,
    priority_queue; any lawful element order, in particular `int` and `std::string`).  For every configurable option
    set, every initial content and every non-empty sequence of uses whose non-empty elements pass the checks
    and convert (and do not repeat when duplicates are errors), the evaluation succeeds and the content is
    `finalSpec` of the element sequence — a closed form that does not mention uses: previous content (nothing if
    clear), then the values in order (first occurrences only if unique), appended / prepended / self-ordered,
    sorted ascending if sort. -/
theorem C06_fold {α : Type} [DecidableEq α] (E : Elem α) (hl : LawfulLe E.le) (k : SeqKind) (o : Opts)
    (hcfg : configure k o = .ok ()) (init : List α) (hwf : WF (E := E) (k := k) init)
    (cuts : List (List (List Char))) (hne : cuts ≠ []) (hsep : ∀ e ∈ cuts.flatten, o.sep ∉ e)
    (hacc : ∀ e ∈ elements cuts, Accepts E o e)
    (hdup : DupFree o (if o.clear then [] else init) (vals E o (elements cuts))) :
    run E k o (SeqState.start init o) (usesOf o.sep cuts)
      = .ok ⟨finalSpec E k o init (vals E o (elements cuts)), false⟩ := by
  have htok := allTokens_usesOf o.sep cuts hsep
  have := runP_finalSpec hl (valid_of_configure k o hcfg) init hwf (usesOf o.sep cuts) (usesOf_ne_nil hne)
    (by rw [htok]; exact hacc) (by rw [htok]; exact hdup)
  unfold run
  rw [this, htok]
  rfl

/-- the fold theorem for `int` elements -/
theorem C06_fold_int (k : SeqKind) (o : Opts) (hcfg : configure k o = .ok ()) (init : List Int)
    (hwf : WF (E := intElem) (k := k) init) (cuts : List (List (List Char))) (hne : cuts ≠ [])
    (hsep : ∀ e ∈ cuts.flatten, o.sep ∉ e) (hacc : ∀ e ∈ elements cuts, Accepts intElem o e)
    (hdup : DupFree o (if o.clear then [] else init) (vals intElem o (elements cuts))) :
    run intElem k o (SeqState.start init o) (usesOf o.sep cuts)
      = .ok ⟨finalSpec intElem k o init (vals intElem o (elements cuts)), false⟩ :=
  C06_fold intElem intLe_lawful k o hcfg init hwf cuts hne hsep hacc hdup

/-- the fold theorem for `std::string` elements (conversion is the identity, the format may change the case) -/
theorem C06_fold_str (k : SeqKind) (o : Opts) (hcfg : configure k o = .ok ()) (init : List (List Char))
    (hwf : WF (E := strElem) (k := k) init) (cuts : List (List (List Char))) (hne : cuts ≠ [])
    (hsep : ∀ e ∈ cuts.flatten, o.sep ∉ e) (hacc : ∀ e ∈ elements cuts, Accepts strElem o e)
    (hdup : DupFree o (if o.clear then [] else init) (vals strElem o (elements cuts))) :
    run strElem k o (SeqState.start init o) (usesOf o.sep cuts)
      = .ok ⟨finalSpec strElem k o init (vals strElem o (elements cuts)), false⟩ :=
  C06_fold strElem strLe_lawful k o hcfg init hwf cuts hne hsep hacc hdup

/-- **Cut independence.**  Two ways of cutting the same element sequence into uses, list-separated values and
    empty elements give the same destination. -/
theorem C06_cut_independent {α : Type} [DecidableEq α] (E : Elem α) (hl : LawfulLe E.le) (k : SeqKind) (o : Opts)
    (hcfg : configure k o = .ok ()) (init : List α) (hwf : WF (E := E) (k := k) init)
    (cuts₁ cuts₂ : List (List (List Char))) (hne₁ : cuts₁ ≠ []) (hne₂ : cuts₂ ≠ [])
    (hsep₁ : ∀ e ∈ cuts₁.flatten, o.sep ∉ e) (hsep₂ : ∀ e ∈ cuts₂.flatten, o.sep ∉ e)
    (hsame : elements cuts₁ = elements cuts₂)
    (hacc : ∀ e ∈ elements cuts₁, Accepts E o e)
    (hdup : DupFree o (if o.clear then [] else init) (vals E o (elements cuts₁))) :
    run E k o (SeqState.start init o) (usesOf o.sep cuts₁) = run E k o (SeqState.start init o) (usesOf o.sep cuts₂) := by
  rw [C06_fold E hl k o hcfg init hwf cuts₁ hne₁ hsep₁ hacc hdup,
    C06_fold E hl k o hcfg init hwf cuts₂ hne₂ hsep₂ (hsame ▸ hacc) (hsame ▸ hdup), hsame]

/-- **Clear fires exactly once.**  With clear-before-assign pending, an evaluation is the evaluation of an
    empty destination without the flag (the previous content is discarded by the first use, and never
    again); and after any use, successful or not, the flag is down. -/
theorem C06_clear_once {α : Type} [DecidableEq α] (E : Elem α) (k : SeqKind) (o : Opts) (init : List α)
    (u : List Char) (us : List (List Char)) (s : SeqState α) :
    runP E k o ⟨init, true⟩ (u :: us) = runP E k o ⟨[], false⟩ (u :: us) ∧
    (assignP E k o s u).1.clearPending = false :=
  ⟨runP_clear init u us, assignP_clearPending s u⟩

/-- **Sorted ⇒ ascending**, for whatever was given: when `setSortData` is on, the content after any non-empty
    evaluation that went through is ascending; and the closed form of a sorted or self-ordering destination
    is ascending. -/
theorem C06_sorted {α : Type} [DecidableEq α] (E : Elem α) (hl : LawfulLe E.le) (k : SeqKind) (o : Opts)
    (s s' : SeqState α) (uses : List (List Char)) (init vs : List α) :
    (o.sort = true → uses ≠ [] → run E k o s uses = .ok s' → Sorted E.le s'.content) ∧
    ((o.sort || k.ordered) = true → Sorted E.le (finalSpec E k o init vs)) := by
  constructor
  · intro hs hne hr
    unfold run at hr
    cases hrp : runP E k o s uses with
    | mk s1 st =>
      rw [hrp] at hr
      cases st with
      | none =>
        simp only [Out.toRes, Res.ok.injEq] at hr
        subst hr
        exact runP_sorted hl hs uses s s1 hne hrp
      | some x => cases x <;> simp [Out.toRes] at hr
  · intro h
    unfold finalSpec
    simp only [h, if_true]
    exact isort_sorted hl _

/-- **Unique ⇒ no duplicates**: with `setUniqueData` (and always for a set) the closed form has no value twice,
    provided the content that was kept had none. -/
theorem C06_unique {α : Type} [DecidableEq α] (E : Elem α) (k : SeqKind) (o : Opts) (init vs : List α)
    (hu : (o.unique || k.isSet) = true) (hb : (if o.clear then [] else init).Nodup) :
    (finalSpec E k o init vs).Nodup := by
  rw [(finalSpec_perm (E := E) (k := k) (o := o) init vs).nodup_iff]
  unfold keepOf
  rw [if_pos hu]
  refine List.nodup_append.mpr ⟨hb, dedupInto_nodup, ?_⟩
  intro a ha b hb' hab
  exact (mem_dedupInto.mp hb').2 (hab ▸ ha)

/-- **Duplicates are errors**: with `setUniqueData( true)`, if all elements are acceptable but some value is
    already in the destination or is given twice — in the same use or in different ones —, the evaluation throws
    `std::runtime_error`. -/
theorem C06_dup_error {α : Type} [DecidableEq α] (E : Elem α) (hl : LawfulLe E.le) (k : SeqKind) (o : Opts)
    (hcfg : configure k o = .ok ()) (hu : o.unique = true) (he : o.dupErr = true) (init : List α)
    (hwf : WF (E := E) (k := k) init) (cuts : List (List (List Char))) (hsep : ∀ e ∈ cuts.flatten, o.sep ∉ e)
    (hacc : ∀ e ∈ elements cuts, Accepts E o e)
    (hdup : HasDup (if o.clear then [] else init) (vals E o (elements cuts))) :
    run E k o (SeqState.start init o) (usesOf o.sep cuts) = .throw .runtime_error := by
  have htok := allTokens_usesOf o.sep cuts hsep
  have hi0 : Inv E k o (if o.clear then [] else init) (startContent (SeqState.start init o)) [] := by
    have hstart : startContent (SeqState.start init o) = if o.clear then [] else init := rfl
    rw [hstart]
    refine ⟨by simp [keepOf, dedupInto], ?_, ?_⟩
    · intro _ _; cases k.prepend <;> simp [keepOf, dedupInto]
    · intro hk
      cases o.clear
      · exact hwf hk
      · simp [Sorted]
  obtain ⟨s', hs'⟩ := runP_dup hl (valid_of_configure k o hcfg) hu he _ (usesOf o.sep cuts) (SeqState.start init o) []
    hi0 (by rw [htok]; exact hacc) (by simp) (by rw [htok]; simpa using hdup)
  unfold run
  rw [hs']
  rfl

/-- **Every element is checked and converted**: whatever was given and however it was cut, if the evaluation
    went through then every non-empty element passed all checks and converted (after formatting). -/
theorem C06_element_checked {α : Type} [DecidableEq α] (E : Elem α) (k : SeqKind) (o : Opts) (s s' : SeqState α)
    (cuts : List (List (List Char))) (hsep : ∀ e ∈ cuts.flatten, o.sep ∉ e)
    (h : run E k o s (usesOf o.sep cuts) = .ok s') : ∀ e ∈ elements cuts, Accepts E o e := by
  unfold run at h
  cases hrp : runP E k o s (usesOf o.sep cuts) with
  | mk s1 st =>
    rw [hrp] at h
    cases st with
    | none =>
      have := runP_ok_accepts (usesOf o.sep cuts) s s1 hrp
      rwa [allTokens_usesOf o.sep cuts hsep] at this
    | some x => cases x <;> simp [Out.toRes] at h

/-- **Fold, fixed-size arrays** (`T[N]`, `std::array<T,N>`, the repaired code): if the elements are acceptable,
    do not repeat when duplicates are errors, and there is room whenever an element arrives, the kept values
    (sorted if sort) fill the array from the front, the remaining slots keep what they held, `mIndex` is the number
    of kept values — for every cut. -/
theorem C06_array_fold (o : Opts) (init : List Int) (cuts : List (List (List Char))) (hne : cuts ≠ [])
    (hsep : ∀ e ∈ cuts.flatten, o.sep ∉ e) (hacc : ∀ e ∈ elements cuts, AcceptsI o e)
    (hdup : DupFreeI o (valsI o (elements cuts)))
    (hfit : Fits o init.length [] (valsI o (elements cuts))) :
    arrRunP o false ⟨init, 0⟩ (usesOf o.sep cuts) = (arrFinalSpec o init (valsI o (elements cuts)), none) := by
  have htok := allTokens_usesOf o.sep cuts hsep
  have := arrRunP_finalSpec o init (usesOf o.sep cuts) (usesOf_ne_nil hne) (by rw [htok]; exact hacc)
    (by rw [htok]; exact hdup) (by rw [htok]; exact hfit)
  rw [this, htok]

/-- **Capacity, arrays**: an element that arrives when all N slots are filled is refused with
    `std::runtime_error` and the array is unchanged; and for *every* input (any uses, any options, even the
    unrepaired duplicate search) the model never stores outside the N slots and the array keeps its size. -/
theorem C06_capacity_array (o : Opts) (w : Bool) (s : ArrState) (t : List Char) (ts : List (List Char))
    (uses : List (List Char)) :
    (s.idx = s.slots.length → arrElems o w s (t :: ts) = (s, some (.exc .runtime_error))) ∧
    (s.idx ≤ s.slots.length → (∀ x, (arrRunP o w s uses).2 ≠ some (.oob x)) ∧
      (arrRunP o w s uses).1.slots.length = s.slots.length) := by
  constructor
  · intro h
    rw [arrElems, arrStep_full o w s t h]
  · exact arrRunP_safe o w uses s

/-- **Fold, bitsets**: if every element passes the checks and converts to a position below N, the result is
    the previous bits (all clear if clear-before-assign) with these positions set — for every cut; bit `i`
    afterwards is "was set before or is among the positions". -/
theorem C06_bitset_fold (o : Opts) (init : List Bool) (cuts : List (List (List Char))) (hne : cuts ≠ [])
    (hsep : ∀ e ∈ cuts.flatten, o.sep ∉ e) (hacc : ∀ e ∈ elements cuts, AcceptsP o init.length e) :
    bitRunP o ⟨init, o.clear⟩ (usesOf o.sep cuts)
      = (⟨setAll (if o.clear then init.map (fun _ => false) else init) (valsP o (elements cuts)), false⟩, none) ∧
    ∀ i, i < init.length →
      (setAll (if o.clear then init.map (fun _ => false) else init) (valsP o (elements cuts))).getD i false
        = (((!o.clear) && init.getD i false) || decide (i ∈ valsP o (elements cuts))) := by
  have htok := allTokens_usesOf o.sep cuts hsep
  constructor
  · have := bitRunP_spec o init (usesOf o.sep cuts) (usesOf_ne_nil hne) (by rw [htok]; exact hacc)
    rw [this, htok]
  · intro i hi
    rw [setAll_getD _ _ i (by cases o.clear <;> simpa using hi)]
    cases o.clear
    · simp
    · simp [List.getD_eq_getElem?_getD, hi]

/-- **Capacity, bitsets**: a position ≥ N is refused with `std::runtime_error` (the bits keep their value); no
    input makes the model write outside the bits, and their number never changes. -/
theorem C06_capacity_bitset (o : Opts) (b : List Bool) (t : List Char) (p : Nat)
    (hchk : runChecks o.checks t = none) (hv : valP o t = some p) (hp : b.length ≤ p) (ts : List (List Char)) :
    bitElems o b (t :: ts) = (b, some (.exc .runtime_error)) ∧
    (∀ t' x, bitStep o b t' ≠ .oob x) ∧ (∀ t' b', bitStep o b t' = .ok b' → b'.length = b.length) := by
  refine ⟨?_, fun t' x => (bitStep_safe o b t').1 x, fun t' b' => (bitStep_safe o b t').2 b'⟩
  rw [bitElems, bitStep_outside o b t p hchk hv hp]

/-- **Fold, key-value destinations** (`std::map<int,std::string>`): if every element is a well-formed pair
    that passes the checks (and no key repeats when duplicates are errors), the content is the previous content
    (nothing if clear) with every pair inserted in order, an existing key keeping its value — for every cut; the
    keys stay strictly ascending. -/
theorem C06_map_fold (o : MapOpts) (init : List Pair) (hwf : KeysSorted init) (cuts : List (List (List Char)))
    (hne : cuts ≠ []) (hsep : ∀ e ∈ cuts.flatten, o.sep ∉ e) (hacc : ∀ e ∈ elements cuts, AcceptsM o e)
    (hdup : DupFreeM o (if o.clear then [] else init) (pairsOf o (elements cuts))) :
    mapRunP o ⟨init, o.clear⟩ (usesOf o.sep cuts)
      = (⟨mapFinalSpec o init (pairsOf o (elements cuts)), false⟩, none) ∧
    KeysSorted (mapFinalSpec o init (pairsOf o (elements cuts))) := by
  have htok := allTokens_usesOf o.sep cuts hsep
  constructor
  · have := mapRunP_spec o init hwf (usesOf o.sep cuts) (usesOf_ne_nil hne) (by rw [htok]; exact hacc)
      (by rw [htok]; exact hdup)
    rw [this, htok]
  · apply insertAll_sorted
    cases o.clear
    · exact hwf
    · simp [KeysSorted, keysOf]

/-- **Tuples, partial.**  A `std::tuple<int,std::string,int>` destination given exactly its three elements —
    in one list, or split `1+2`, `2+1`, `1+1+1` over uses, every use carrying at least one element; empty elements
    anywhere — holds exactly these three values afterwards and the cardinality end check passes.
    *Missing for the full statement*: uses whose value has no element at all (`-v ,`), which the cardinality
    counts (known finding `tuple-empty-use`, `C06_finding_tuple_empty_use`). -/
theorem C06_tuple_partial (o : Opts) (t1 t2 t3 : List Char) (a b : Int) (s0 : TupState)
    (h0 : s0.numSet = 0 ∧ s0.card = 0)
    (hc1 : runChecks o.checks t1 = none) (hc2 : runChecks o.checks t2 = none) (hc3 : runChecks o.checks t3 = none)
    (hv1 : convInt t1 = some a) (hv3 : convInt t3 = some b)
    (uses : List (List Char))
    (hcut : (uses.map (tokens o.sep)) ∈ [[[t1, t2, t3]], [[t1], [t2, t3]], [[t1, t2], [t3]], [[t1], [t2], [t3]]]) :
    tupRunP o s0 uses = ({ s0 with a := a, s := t2, b := b, numSet := 3, card := 3 }, none) ∧
    ({ s0 with a := a, s := t2, b := b, numSet := 3, card := 3 } : TupState).finish.2 = none := by
  refine ⟨?_, by simp [TupState.finish, tupLen]⟩
  simp only [List.mem_cons, List.not_mem_nil, or_false] at hcut
  rcases hcut with h | h | h | h
  · obtain ⟨u, rfl, hu⟩ := map_eq_one _ _ _ h
    exact tup_run_1 o t1 t2 t3 a b s0 h0 hc1 hc2 hc3 hv1 hv3 u hu
  · obtain ⟨u1, u2, rfl, hu1, hu2⟩ := map_eq_two _ _ _ _ h
    exact tup_run_12 o t1 t2 t3 a b s0 h0 hc1 hc2 hc3 hv1 hv3 u1 u2 hu1 hu2
  · obtain ⟨u1, u2, rfl, hu1, hu2⟩ := map_eq_two _ _ _ _ h
    exact tup_run_21 o t1 t2 t3 a b s0 h0 hc1 hc2 hc3 hv1 hv3 u1 u2 hu1 hu2
  · obtain ⟨u1, u2, u3, rfl, hu1, hu2, hu3⟩ := map_eq_three _ _ _ _ _ h
    exact tup_run_111 o t1 t2 t3 a b s0 h0 hc1 hc2 hc3 hv1 hv3 u1 u2 u3 hu1 hu2 hu3

/-- **Capacity, tuples**: once three values are counted, a further use is refused with `std::runtime_error`
    before anything is touched, so is a further element inside a list; and a store beyond the last position
    (reachable only with the cardinality switched off) throws `std::out_of_range` instead of writing. -/
theorem C06_capacity_tuple (o : Opts) (s : TupState) (v t : List Char) (ts : List (List Char)) (i : Nat)
    (h : s.card = tupLen) :
    tupAssignP o s v = (s, some (.exc .runtime_error)) ∧
    tupElems o s (i + 1) (t :: ts) = (s, some (.exc .runtime_error)) ∧
    (s.numSet ≥ tupLen → s.put t = .throw .out_of_range) :=
  ⟨tup_full_refuses o s v h, tup_full_refuses_in_list o s i t ts h, tup_put_outside s t⟩

/-- **Known finding `tuple-empty-use`** (the unchanged tree): for tuples the result is *not* determined by the
    element sequence alone.  `-v 1,a,2` is accepted, `-v , -v 1,a,2` — the same three elements — is refused
    ("too many values"): a use without any element is counted by the cardinality. -/
theorem C06_finding_tuple_empty_use :
    ¬ ((tupRunP {} ⟨0, [], 0, 0, 0⟩ [[','], ['1', ',', 'a', ',', '2']]).2
        = (tupRunP {} ⟨0, [], 0, 0, 0⟩ [['1', ',', 'a', ',', '2']]).2) := by
  decide

/-! ## the hypotheses are satisfiable, the statements are not vacuous -/

/-- `-v 3,,1 -v 2,3` into a vector [9] with sort + unique: [1,2,3,9] -/
example : run intElem .vec { sort := true, unique := true } (SeqState.start [9] { sort := true, unique := true })
    (usesOf ',' [[['3'], [], ['1']], [['2'], ['3']]]) = .ok ⟨[1, 2, 3, 9], false⟩ := by rfl

example : elements [[['3'], [], ['1']], [['2'], ['3']]] = [['3'], ['1'], ['2'], ['3']] := by decide
example : vals intElem {} [['3'], ['1'], ['2'], ['3']] = [3, 1, 2, 3] := by decide
example : finalSpec intElem .vec { sort := true, unique := true } [9] [3, 1, 2, 3] = [1, 2, 3, 9] := by decide
example : configure .vec { sort := true, unique := true } = .ok () := by rfl
example : Accepts intElem { checks := [.lower 1] } ['3'] := ⟨by rfl, by rfl⟩
example : ¬ Accepts intElem { checks := [.lower 1] } ['0'] := fun h => by
  have := h.1; revert this; decide
example : DupFree { unique := true, dupErr := true } [9] [3, 1, 2] := by
  intro _ _; decide
example : HasDup [9] [3, 1, 3] := by unfold HasDup; decide
/-- forward list: values are prepended one by one -/
example : finalSpec intElem .fwdlist {} [1, 7] [3, 4] = [4, 3, 1, 7] := by decide
/-- set: ordered, duplicates of what is there are dropped -/
example : finalSpec intElem .set {} [1, 5] [3, 5, 3] = [1, 3, 5] := by decide
/-- clear-before-assign -/
example : finalSpec strElem .vec { clear := true } [['x']] [['b'], ['a']] = [['b'], ['a']] := by decide
/-- arrays: `-v 0,1 -v 9` into int[4] = {9,9,0,0} with unique: the zero is stored (repaired code) -/
example : arrRunP { unique := true } false ⟨[9, 9, 0, 0], 0⟩ [['0', ',', '1'], ['9']] = (⟨[0, 1, 9, 0], 3⟩, none) := by
  decide
/-- the code before the repair dropped the zero and the nine -/
example : arrRunP { unique := true } true ⟨[9, 9, 0, 0], 0⟩ [['0', ',', '1'], ['9']] = (⟨[1, 9, 0, 0], 1⟩, none) := by
  decide
example : Fits {} 4 [] [0, 1, 9] := by intro j hj; simp at hj; rcases j with _ | _ | _ | j <;> simp [keepA] <;> omega
example : arrElems {} false ⟨[1, 2], 2⟩ [['3']] = (⟨[1, 2], 2⟩, some (.exc .runtime_error)) := by decide
example : AcceptsP {} 8 ['7'] := ⟨rfl, 7, by decide, by decide⟩
example : KeysSorted [(1, ['a']), (3, ['c'])] := by simp [KeysSorted, keysOf]
example : mapPairOf {} ['2', ',', 'b'] = some (2, ['b']) := by decide
example : mapFinalSpec {} [(1, ['a'])] [(2, ['b']), (1, ['z'])] = [(1, ['a']), (2, ['b'])] := by decide
example : (tupRunP {} ⟨0, [], 0, 0, 0⟩ [['1', ',', 'a'], ['2']]) = (⟨1, ['a'], 2, 3, 3⟩, none) := by decide

end CelmaVerif.Props.C06
