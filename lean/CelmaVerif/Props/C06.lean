import CelmaVerif.Lemmas.ContainersSeq2
import CelmaVerif.Lemmas.ContainersPos
import CelmaVerif.Lemmas.ContainersArr
import CelmaVerif.Lemmas.ContainersBits
import CelmaVerif.Lemmas.ContainersMap
import CelmaVerif.Lemmas.ContainersTuple
import CelmaVerif.Lemmas.ContainersCap
import CelmaVerif.Lemmas.ContainersObs
/-
  C06 — multi-value destinations end up as the fold of all values given.

  `cuts : List (List (List Char))` is one way of giving an element sequence: a list of uses, each a list of
  elements (possibly empty ones) that are written as one value string with the list separator (`usesOf`).
  `elements cuts` is the sequence itself (empty elements dropped).  All theorems quantify over the container
  kind, the option set, the initial content and *every* cut.
-/
namespace CelmaVerif.Props.C06
open CelmaVerif CelmaVerif.Containers

/-- **Fold, sequence / set / adapter kinds** (vector, deque, list, forward_list, set, multiset, stack, queue,
    priority_queue; any lawful element order, in particular `int` and `std::string`).  For every configurable option
    set, every initial content and every non-empty sequence of uses whose non-empty elements pass the checks
    and convert (and do not repeat when duplicates are errors), the evaluation succeeds and the content is
    `finalSpec` of the element sequence — a closed form that does not mention uses: previous content (nothing if
    clear), then the values in order (first occurrences only if unique), appended / prepended / self-ordered,
    sorted ascending if sort.  `SeqState.content` is the model's representation (a stack in push order, a priority
    queue ascending); what popping shows is stated in `C06_adapter_pop_order`.  On an error path (some element
    refused) the content left behind is *not* cut independent: the uses before the refusing one were sorted, the
    interrupted one is not (model fact, observed on the code as well; outside the property).
    *Formats*: `vals E k o base [] ts` are the values the elements stand for — each element after the general format
    and, for a vector, the formatters added with `addFormatPos` for the position the value is stored at =
    `mDestVar.size()` at that moment = (previous content kept) + (values kept before it; a value dropped by
    unique-data does not advance the position); `AccAll` says every element passes the checks (on the text as given)
    and converts after that formatting.  Both are functions of the element sequence alone, so the result does not
    depend on the cut, position formatters included.  Which formatter an element got, read off the final content:
    `C06_position_format`.  Without position formatters both notions are elementwise (`accAll_nopos`, `vals_nopos`). -/
theorem C06_fold {α : Type} [DecidableEq α] (E : Elem α) (hl : LawfulLe E.le) (k : SeqKind) (o : Opts)
    (hcfg : configure k o = .ok ()) (init : List α) (hwf : WF (E := E) (k := k) init)
    (cuts : List (List (List Char))) (hne : cuts ≠ []) (hsep : ∀ e ∈ cuts.flatten, o.sep ∉ e)
    (hacc : AccAll E k o (if o.clear then [] else init) [] (elements cuts))
    (hdup : DupFree o (if o.clear then [] else init) (vals E k o (if o.clear then [] else init) [] (elements cuts))) :
    run E k o (SeqState.start init o) (usesOf o.sep cuts)
      = .ok ⟨finalSpec E k o init (vals E k o (if o.clear then [] else init) [] (elements cuts)), false⟩ := by
  have htok := allTokens_usesOf o.sep cuts hsep
  have := runP_finalSpec hl (valid_of_configure k o hcfg) init hwf (usesOf o.sep cuts) (usesOf_ne_nil hne)
    (by rw [htok]; exact hacc) (by rw [htok]; exact hdup)
  unfold run
  rw [this, htok]
  rfl

/-- the fold theorem for `int` elements -/
theorem C06_fold_int (k : SeqKind) (o : Opts) (hcfg : configure k o = .ok ()) (init : List Int)
    (hwf : WF (E := intElem) (k := k) init) (cuts : List (List (List Char))) (hne : cuts ≠ [])
    (hsep : ∀ e ∈ cuts.flatten, o.sep ∉ e) (hacc : AccAll intElem k o (if o.clear then [] else init) [] (elements cuts))
    (hdup : DupFree o (if o.clear then [] else init) (vals intElem k o (if o.clear then [] else init) [] (elements cuts))) :
    run intElem k o (SeqState.start init o) (usesOf o.sep cuts)
      = .ok ⟨finalSpec intElem k o init (vals intElem k o (if o.clear then [] else init) [] (elements cuts)), false⟩ :=
  C06_fold intElem intLe_lawful k o hcfg init hwf cuts hne hsep hacc hdup

/-- the fold theorem for `std::string` elements (conversion is the identity, the format may change the case) -/
theorem C06_fold_str (k : SeqKind) (o : Opts) (hcfg : configure k o = .ok ()) (init : List (List Char))
    (hwf : WF (E := strElem) (k := k) init) (cuts : List (List (List Char))) (hne : cuts ≠ [])
    (hsep : ∀ e ∈ cuts.flatten, o.sep ∉ e) (hacc : AccAll strElem k o (if o.clear then [] else init) [] (elements cuts))
    (hdup : DupFree o (if o.clear then [] else init) (vals strElem k o (if o.clear then [] else init) [] (elements cuts))) :
    run strElem k o (SeqState.start init o) (usesOf o.sep cuts)
      = .ok ⟨finalSpec strElem k o init (vals strElem k o (if o.clear then [] else init) [] (elements cuts)), false⟩ :=
  C06_fold strElem strLe_lawful k o hcfg init hwf cuts hne hsep hacc hdup

/-- **Cut independence.**  Two ways of cutting the same element sequence into uses, list-separated values and
    empty elements give the same destination. -/
theorem C06_cut_independent {α : Type} [DecidableEq α] (E : Elem α) (hl : LawfulLe E.le) (k : SeqKind) (o : Opts)
    (hcfg : configure k o = .ok ()) (init : List α) (hwf : WF (E := E) (k := k) init)
    (cuts₁ cuts₂ : List (List (List Char))) (hne₁ : cuts₁ ≠ []) (hne₂ : cuts₂ ≠ [])
    (hsep₁ : ∀ e ∈ cuts₁.flatten, o.sep ∉ e) (hsep₂ : ∀ e ∈ cuts₂.flatten, o.sep ∉ e)
    (hsame : elements cuts₁ = elements cuts₂)
    (hacc : AccAll E k o (if o.clear then [] else init) [] (elements cuts₁))
    (hdup : DupFree o (if o.clear then [] else init) (vals E k o (if o.clear then [] else init) [] (elements cuts₁))) :
    run E k o (SeqState.start init o) (usesOf o.sep cuts₁) = run E k o (SeqState.start init o) (usesOf o.sep cuts₂) := by
  rw [C06_fold E hl k o hcfg init hwf cuts₁ hne₁ hsep₁ hacc hdup,
    C06_fold E hl k o hcfg init hwf cuts₂ hne₂ hsep₂ (hsame ▸ hacc) (hsame ▸ hdup), hsame]

/-- **Clear fires exactly once.**  With clear-before-assign pending, an evaluation is the evaluation of an
    empty destination without the flag (the previous content is discarded by the first use, and never
    again); and after any use, successful or not, the flag is down. -/
theorem C06_clear_once {α : Type} [DecidableEq α] (E : Elem α) (k : SeqKind) (o : Opts) (init : List α)
    (u : List Char) (us : List (List Char)) (s : SeqState α) :
    runP E k o ⟨init, true⟩ (u :: us) = runP E k o ⟨[], false⟩ (u :: us) ∧
    (assignP E k o s u).1.clearPending = false :=
  ⟨runP_clear init u us, assignP_clearPending s u⟩

/-- **Sorted ⇒ ascending**, for whatever was given: when `setSortData` is on, the content after any non-empty
    evaluation that went through is ascending; and the closed form of a sorted or self-ordering destination
    is ascending.  (Ascending alone would be met by an empty result: that the result is the ascending
    *rearrangement* of previous content and kept values, and the only one, is `C06_sort_is_sorting`.) -/
theorem C06_sorted {α : Type} [DecidableEq α] (E : Elem α) (hl : LawfulLe E.le) (k : SeqKind) (o : Opts)
    (s s' : SeqState α) (uses : List (List Char)) (init vs : List α) :
    (o.sort = true → uses ≠ [] → run E k o s uses = .ok s' → Sorted E.le s'.content) ∧
    ((o.sort || k.ordered) = true → Sorted E.le (finalSpec E k o init vs)) := by
  constructor
  · intro hs hne hr
    unfold run at hr
    cases hrp : runP E k o s uses with
    | mk s1 st =>
      rw [hrp] at hr
      cases st with
      | none =>
        simp only [Out.toRes, Res.ok.injEq] at hr
        subst hr
        exact runP_sorted hl hs uses s s1 hne hrp
      | some x => cases x <;> simp [Out.toRes] at hr
  · intro h
    unfold finalSpec
    simp only [h, if_true]
    exact isort_sorted hl _

/-- **Sort = the ascending rearrangement, nothing lost, nothing invented.**  (`C06_sorted` alone would be met by an
    empty result.)  Under the hypotheses of `C06_fold`, for a sorted or self-ordering destination: the evaluation
    succeeds, the content is ascending, it is a permutation of previous content (nothing if clear) ++ kept values
    (`dedupInto base vs` = first occurrences not yet present if unique / set, else all of `vs`), and it is the only
    ascending list with that property. -/
theorem C06_sort_is_sorting {α : Type} [DecidableEq α] (E : Elem α) (hl : LawfulLe E.le) (k : SeqKind) (o : Opts)
    (hcfg : configure k o = .ok ()) (init : List α) (hwf : WF (E := E) (k := k) init)
    (cuts : List (List (List Char))) (hne : cuts ≠ []) (hsep : ∀ e ∈ cuts.flatten, o.sep ∉ e)
    (hacc : AccAll E k o (if o.clear then [] else init) [] (elements cuts))
    (hdup : DupFree o (if o.clear then [] else init) (vals E k o (if o.clear then [] else init) [] (elements cuts)))
    (hs : (o.sort || k.ordered) = true) :
    ∃ s', run E k o (SeqState.start init o) (usesOf o.sep cuts) = .ok s' ∧
      Sorted E.le s'.content ∧
      s'.content.Perm ((if o.clear then [] else init) ++
        (if o.unique || k.isSet then dedupInto (if o.clear then [] else init) (vals E k o (if o.clear then [] else init) [] (elements cuts))
         else vals E k o (if o.clear then [] else init) [] (elements cuts))) ∧
      ∀ c, Sorted E.le c →
        c.Perm ((if o.clear then [] else init) ++
          (if o.unique || k.isSet then dedupInto (if o.clear then [] else init) (vals E k o (if o.clear then [] else init) [] (elements cuts))
           else vals E k o (if o.clear then [] else init) [] (elements cuts))) → c = s'.content := by
  refine ⟨_, C06_fold E hl k o hcfg init hwf cuts hne hsep hacc hdup, ?_, finalSpec_perm init _, ?_⟩
  · simp only [finalSpec, hs, if_true]
    exact isort_sorted hl _
  · intro c hc hp
    exact sorted_perm_eq hl hc (by simp only [finalSpec, hs, if_true]; exact isort_sorted hl _)
      (hp.trans (finalSpec_perm (E := E) (k := k) (o := o) init _).symm)

/-- **Nothing is lost, nothing invented, whatever the kind and the options**: the content after a successful
    evaluation is a rearrangement of previous content (nothing if clear) ++ kept values; in particular a value is in
    the destination afterwards iff it was there before (and not cleared) or was given. -/
theorem C06_content_perm {α : Type} [DecidableEq α] (E : Elem α) (hl : LawfulLe E.le) (k : SeqKind) (o : Opts)
    (hcfg : configure k o = .ok ()) (init : List α) (hwf : WF (E := E) (k := k) init)
    (cuts : List (List (List Char))) (hne : cuts ≠ []) (hsep : ∀ e ∈ cuts.flatten, o.sep ∉ e)
    (hacc : AccAll E k o (if o.clear then [] else init) [] (elements cuts))
    (hdup : DupFree o (if o.clear then [] else init) (vals E k o (if o.clear then [] else init) [] (elements cuts))) :
    ∃ s', run E k o (SeqState.start init o) (usesOf o.sep cuts) = .ok s' ∧
      s'.content.Perm ((if o.clear then [] else init) ++
        (if o.unique || k.isSet then dedupInto (if o.clear then [] else init) (vals E k o (if o.clear then [] else init) [] (elements cuts))
         else vals E k o (if o.clear then [] else init) [] (elements cuts))) ∧
      ∀ x, x ∈ s'.content ↔ x ∈ (if o.clear then [] else init) ∨ x ∈ vals E k o (if o.clear then [] else init) [] (elements cuts) := by
  refine ⟨_, C06_fold E hl k o hcfg init hwf cuts hne hsep hacc hdup, finalSpec_perm init _, ?_⟩
  intro x
  rw [(finalSpec_perm (E := E) (k := k) (o := o) init _).mem_iff]
  unfold keepOf
  by_cases h : (o.unique || k.isSet) = true
  · rw [if_pos h]; exact mem_append_dedupInto
  · rw [if_neg h]; exact List.mem_append

/-- **Unique drops only duplicates**: the spec function `dedupInto seen vs` of `finalSpec` (what is kept of the
    values `vs` when `seen` is already in the destination), characterised without reference to the model: it is a
    subsequence of `vs` (order kept, nothing invented) without repetition; a value is kept iff it was given and
    is not in the destination yet; value by value: the next value is kept iff it is neither in the destination
    nor among the values before it (this equation and `dedupInto seen [] = []` determine the function); and
    when nothing repeats, nothing is dropped. -/
theorem C06_drops_only_duplicates {α : Type} [DecidableEq α] (seen vs : List α) :
    (dedupInto seen vs).Sublist vs ∧ (dedupInto seen vs).Nodup ∧
    (∀ x, x ∈ dedupInto seen vs ↔ x ∈ vs ∧ x ∉ seen) ∧
    dedupInto seen ([] : List α) = [] ∧
    (∀ a v, dedupInto seen (a ++ [v]) = dedupInto seen a ++ (if v ∈ seen ∨ v ∈ a then [] else [v])) ∧
    (vs.Nodup → (∀ v ∈ vs, v ∉ seen) → dedupInto seen vs = vs) :=
  ⟨dedupInto_sublist seen vs, dedupInto_nodup, fun _ => mem_dedupInto, rfl, fun a v => dedupInto_snoc seen a v,
    dedupInto_eq_self⟩

/-- **stack / queue / priority_queue, as seen by popping** (`observe`: a stack is popped from the end it was
    pushed to, a priority queue largest first, a queue in arrival order).  Under the hypotheses of `C06_fold`
    (sort and unique cannot be configured for these kinds): a stack delivers the values given in reverse order,
    then what it delivered before; a queue what it delivered before, then the values in order; a priority queue
    delivers a descending rearrangement of previous content and values, and that list is the only such one. -/
theorem C06_adapter_pop_order {α : Type} [DecidableEq α] (E : Elem α) (hl : LawfulLe E.le) (k : SeqKind) (o : Opts)
    (hcfg : configure k o = .ok ()) (hk : k.hasIterators = false) (init : List α)
    (hwf : WF (E := E) (k := k) init)
    (cuts : List (List (List Char))) (hne : cuts ≠ []) (hsep : ∀ e ∈ cuts.flatten, o.sep ∉ e)
    (hacc : AccAll E k o (if o.clear then [] else init) [] (elements cuts)) :
    ∃ s', run E k o (SeqState.start init o) (usesOf o.sep cuts) = .ok s' ∧
      (k = .stack → observe k s'.content
          = (vals E k o (if o.clear then [] else init) [] (elements cuts)).reverse ++ observe k (if o.clear then [] else init)) ∧
      (k = .queue → observe k s'.content
          = observe k (if o.clear then [] else init) ++ vals E k o (if o.clear then [] else init) [] (elements cuts)) ∧
      (k = .prioq → Descending E.le (observe k s'.content) ∧
        (observe k s'.content).Perm (observe k (if o.clear then [] else init) ++ vals E k o (if o.clear then [] else init) [] (elements cuts)) ∧
        ∀ c, Descending E.le c →
          c.Perm (observe k (if o.clear then [] else init) ++ vals E k o (if o.clear then [] else init) [] (elements cuts)) →
          c = observe k s'.content) := by
  obtain ⟨hs, hu⟩ := adapter_opts hcfg hk
  have hdup : DupFree o (if o.clear then [] else init) (vals E k o (if o.clear then [] else init) [] (elements cuts)) := by
    intro h; rw [hu] at h; cases h
  refine ⟨_, C06_fold E hl k o hcfg init hwf cuts hne hsep hacc hdup, ?_, ?_, ?_⟩
  · rintro rfl; exact finalSpec_stack E o hs hu init _
  · rintro rfl; exact finalSpec_queue E o hs hu init _
  · rintro rfl; exact finalSpec_prioq E hl o hu init _

/-- **Unique ⇒ no duplicates**: with `setUniqueData` (and always for a set) the closed form has no value twice,
    provided the content that was kept had none. -/
theorem C06_unique {α : Type} [DecidableEq α] (E : Elem α) (k : SeqKind) (o : Opts) (init vs : List α)
    (hu : (o.unique || k.isSet) = true) (hb : (if o.clear then [] else init).Nodup) :
    (finalSpec E k o init vs).Nodup := by
  rw [(finalSpec_perm (E := E) (k := k) (o := o) init vs).nodup_iff]
  unfold keepOf
  rw [if_pos hu]
  refine List.nodup_append.mpr ⟨hb, dedupInto_nodup, ?_⟩
  intro a ha b hb' hab
  exact (mem_dedupInto.mp hb').2 (hab ▸ ha)

/-- **Duplicates are errors**: with `setUniqueData( true)`, if all elements are acceptable but some value is
    already in the destination or is given twice — in the same use or in different ones —, the evaluation throws
    `std::runtime_error`. -/
theorem C06_dup_error {α : Type} [DecidableEq α] (E : Elem α) (hl : LawfulLe E.le) (k : SeqKind) (o : Opts)
    (hcfg : configure k o = .ok ()) (hu : o.unique = true) (he : o.dupErr = true) (init : List α)
    (hwf : WF (E := E) (k := k) init) (cuts : List (List (List Char))) (hsep : ∀ e ∈ cuts.flatten, o.sep ∉ e)
    (hacc : AccAll E k o (if o.clear then [] else init) [] (elements cuts))
    (hdup : HasDup (if o.clear then [] else init) (vals E k o (if o.clear then [] else init) [] (elements cuts))) :
    run E k o (SeqState.start init o) (usesOf o.sep cuts) = .throw .runtime_error := by
  have htok := allTokens_usesOf o.sep cuts hsep
  have hi0 := inv_start (E := E) (k := k) (o := o) init hwf
  obtain ⟨s', hs'⟩ := runP_dup hl (valid_of_configure k o hcfg) hu he _ (usesOf o.sep cuts) (SeqState.start init o) []
    hi0 (by rw [htok]; exact hacc) (by simp) (by rw [htok]; simpa using hdup)
  unfold run
  rw [hs']
  rfl

/-- **Every element is checked and formatted and converted**: whatever was given and however it was cut, if the
    evaluation went through then every non-empty element passed all checks (on the text as given) and converted
    after the general format and — vectors — the formatters of the position it arrived at (`AccAll`: position =
    number of elements in the destination at that moment); in particular, elementwise, every element passed all
    checks and converted under the formatters of some position. -/
theorem C06_element_checked {α : Type} [DecidableEq α] (E : Elem α) (hl : LawfulLe E.le) (k : SeqKind) (o : Opts)
    (init : List α) (hwf : WF (E := E) (k := k) init) (s' : SeqState α)
    (cuts : List (List (List Char))) (hsep : ∀ e ∈ cuts.flatten, o.sep ∉ e)
    (h : run E k o (SeqState.start init o) (usesOf o.sep cuts) = .ok s') :
    AccAll E k o (if o.clear then [] else init) [] (elements cuts) ∧
    ∀ e ∈ elements cuts, runChecks o.checks e = none ∧ ∃ p, Accepts E k o p e := by
  have key : AccAll E k o (if o.clear then [] else init) [] (elements cuts) := by
    unfold run at h
    cases hrp : runP E k o (SeqState.start init o) (usesOf o.sep cuts) with
    | mk s1 st =>
      rw [hrp] at h
      cases st with
      | none =>
        have := runP_ok_accepts hl _ (usesOf o.sep cuts) (SeqState.start init o) s1 [] (inv_start init hwf) hrp
        rwa [allTokens_usesOf o.sep cuts hsep] at this
      | some x => cases x <;> simp [Out.toRes] at h
  exact ⟨key, accAll_elementwise _ _ _ key⟩

/-- **Position formatters: element at index i was formatted with the formatters of position i** (vectors, the only
    sequence kind that accepts `addFormatPos`; arrays: `C06_position_format_array`; tuples: `C06_tuple_partial`,
    whose three fields are the elements formatted for positions 0, 1, 2 in every cut).  Under the hypotheses of
    `C06_fold`, for a vector without sort, every cut gives the same content `c` and
    * the previous content is in front, unformatted: `c.take base.length = base`;
    * every element behind it is the image of one of the elements given under the general format followed by the
      formatters *of its own index* `j` (and `lexical_cast`) — also with unique-data, where a dropped duplicate does
      not use up a position;
    * without unique-data nothing is dropped: `c[base.length + i]` comes from element number `i`.
    With sort the reading "index in the final content" is false (the position is the index at the time of the
    store, `C06_fold` keeps that statement); that is how the code is written and it is cut independent. -/
theorem C06_position_format {α : Type} [DecidableEq α] (E : Elem α) (hl : LawfulLe E.le) (o : Opts)
    (hcfg : configure .vec o = .ok ()) (hs : o.sort = false) (init : List α)
    (cuts : List (List (List Char))) (hne : cuts ≠ []) (hsep : ∀ e ∈ cuts.flatten, o.sep ∉ e)
    (hacc : AccAll E .vec o (if o.clear then [] else init) [] (elements cuts))
    (hdup : DupFree o (if o.clear then [] else init) (vals E .vec o (if o.clear then [] else init) [] (elements cuts))) :
    ∃ c, run E .vec o (SeqState.start init o) (usesOf o.sep cuts) = .ok ⟨c, false⟩ ∧
      c.take (if o.clear then [] else init).length = (if o.clear then [] else init) ∧
      (∀ (j : Nat) (hj : j < c.length), (if o.clear then [] else init).length ≤ j →
        ∃ e ∈ elements cuts, valOf E .vec o j e = some c[j]) ∧
      (o.unique = false → c.length = (if o.clear then [] else init).length + (elements cuts).length ∧
        ∀ (i : Nat) (hi : i < (elements cuts).length),
          c[(if o.clear then [] else init).length + i]? =
            valOf E .vec o ((if o.clear then [] else init).length + i) (elements cuts)[i]) := by
  have hwf : WF (E := E) (k := .vec) init := fun h => by cases h
  have hrun := C06_fold E hl .vec o hcfg init hwf cuts hne hsep hacc hdup
  have hfs : finalSpec E .vec o init (vals E .vec o (if o.clear then [] else init) [] (elements cuts))
      = (if o.clear then [] else init) ++
        keepOf .vec o (if o.clear then [] else init) (vals E .vec o (if o.clear then [] else init) [] (elements cuts)) := by
    unfold finalSpec keepOf
    simp [hs, SeqKind.ordered, SeqKind.prepend]
  refine ⟨_, hrun, ?_, ?_, ?_⟩
  · rw [hfs]; exact List.take_left' rfl
  · intro j hj hle
    have hj' := hj
    simp only [hfs, List.length_append] at hj'
    have := kept_formatted (E := E) (k := .vec) (o := o) (if o.clear then [] else init) (elements cuts) [] hacc
      (j - (if o.clear then [] else init).length) (by simp [keepOf, dedupInto]) (by simp only [List.nil_append]; omega)
    obtain ⟨e, he, hv⟩ := this
    refine ⟨e, he, ?_⟩
    rw [show (if o.clear then [] else init).length + (j - (if o.clear then [] else init).length) = j by omega] at hv
    rw [hv]
    congr 1
    simp only [hfs, List.nil_append]
    rw [List.getElem_append_right hle]
  · intro hu
    have hnu : (o.unique || SeqKind.vec.isSet) = false := by simp [hu, SeqKind.isSet]
    obtain ⟨hlen, hidx⟩ := vals_nounique (E := E) hnu (if o.clear then [] else init) (elements cuts) [] hacc
    have hk : keepOf .vec o (if o.clear then [] else init) (vals E .vec o (if o.clear then [] else init) [] (elements cuts))
        = vals E .vec o (if o.clear then [] else init) [] (elements cuts) := by
      unfold keepOf; rw [hnu]; simp
    refine ⟨by simp only [hfs, hk, List.length_append, hlen], ?_⟩
    intro i hi
    have := hidx i hi
    simp only [List.length_nil, Nat.add_zero] at this
    rw [← this]
    simp only [hfs, hk]
    rw [List.getElem?_append_right (by omega)]
    congr 1
    omega

/-- **Fold, fixed-size arrays** (`T[N]`, `std::array<T,N>`, the repaired code; any element type with a lawful
    order, in particular `int` and `std::string`): if the elements are acceptable, do not repeat when duplicates are
    errors, and there is room whenever an element arrives, the kept values (sorted if sort) fill the array from the
    front, the remaining slots keep what they held, `mIndex` is the number of kept values — for every cut.
    Each element is formatted with the general format and then with the formatters of the slot it is stored in
    (= number of values kept before it), see `C06_position_format`: `valsI E o [] ts` threads the values kept so
    far through the tokens, `AccI E o [] ts` says every element passes the checks (on the text as given) and
    converts after being formatted for the slot it arrives at. -/
theorem C06_array_fold {α : Type} [DecidableEq α] (E : Elem α) (hl : LawfulLe E.le) (o : Opts) (init : List α)
    (cuts : List (List (List Char))) (hne : cuts ≠ [])
    (hsep : ∀ e ∈ cuts.flatten, o.sep ∉ e) (hacc : AccI E o [] (elements cuts))
    (hdup : DupFreeI o (valsI E o [] (elements cuts)))
    (hfit : Fits o init.length [] (valsI E o [] (elements cuts))) :
    arrRunP E o false ⟨init, 0⟩ (usesOf o.sep cuts) = (arrFinalSpec E o init (valsI E o [] (elements cuts)), none) := by
  have htok := allTokens_usesOf o.sep cuts hsep
  have := arrRunP_finalSpec E hl o init (usesOf o.sep cuts) (usesOf_ne_nil hne) (by rw [htok]; exact hacc)
    (by rw [htok]; exact hdup) (by rw [htok]; exact hfit)
  rw [this, htok]

/-- **Position formatters, arrays**: under the hypotheses of `C06_array_fold`, without unique-data and sort, slot
    `i` of the result holds exactly the value of element `i` formatted with the general format and then with the
    formatters of position `i` (`valI E o i`) — for every cut, so the position of an element is its index in the
    whole element sequence, not its index within the use it was given in. -/
theorem C06_position_format_array {α : Type} [DecidableEq α] (E : Elem α) (hl : LawfulLe E.le) (o : Opts)
    (init : List α) (cuts : List (List (List Char))) (hne : cuts ≠ [])
    (hsep : ∀ e ∈ cuts.flatten, o.sep ∉ e) (hacc : AccI E o [] (elements cuts))
    (hdup : DupFreeI o (valsI E o [] (elements cuts)))
    (hfit : Fits o init.length [] (valsI E o [] (elements cuts)))
    (hu : o.unique = false) (hs : o.sort = false) (i : Nat) (hi : i < (elements cuts).length) :
    (arrRunP E o false ⟨init, 0⟩ (usesOf o.sep cuts)).1.slots[i]? = valI E o i ((elements cuts)[i]) ∧
      (valI E o i ((elements cuts)[i])).isSome = true := by
  rw [C06_array_fold E hl o init cuts hne hsep hacc hdup hfit]
  have hlen := valsI_length E o (elements cuts) [] hacc
  have hget := valsI_getElem? E o hu (elements cuts) [] hacc i
  rw [List.getElem?_eq_getElem hi] at hget
  simp only [List.length_nil, Nat.zero_add, Option.bind_some] at hget
  have hlt : i < (valsI E o [] (elements cuts)).length := by omega
  have heq : (arrFinalSpec E o init (valsI E o [] (elements cuts))).slots[i]? = valI E o i ((elements cuts)[i]) := by
    unfold arrFinalSpec
    simp only [hu, hs, Bool.false_eq_true, if_false]
    rw [List.getElem?_append_left hlt]
    exact hget
  refine ⟨heq, ?_⟩
  rw [← hget, List.getElem?_eq_getElem hlt]
  rfl

/-- **Capacity, arrays, whole evaluations: the (N+1)-th element is refused and the first N stay.**
    `elements cuts = pre ++ t :: post` where the elements `pre` are acceptable (no repeat if duplicates are
    errors), there was room for each of them (`Fits`) and together they left exactly N kept values; `t` — any
    text at all, acceptable or not, new or duplicate — and what follows are arbitrary.  Then, however the sequence is
    cut into uses, the evaluation ends with `std::runtime_error`, `mIndex` is N, and the N slots hold the kept
    values of `pre`: exactly in arrival order without sort; with sort as a rearrangement (the use that is
    interrupted is not sorted, so the order on this error path depends on the cut).
    Each element of `pre` is formatted with the general format and then with the formatters of the slot it is
    stored in (= number of values kept before it), see `C06_position_format`. -/
theorem C06_array_overflow {α : Type} [DecidableEq α] (E : Elem α) (hl : LawfulLe E.le) (o : Opts) (init : List α)
    (cuts : List (List (List Char))) (hsep : ∀ e ∈ cuts.flatten, o.sep ∉ e)
    (pre post : List (List Char)) (t : List Char) (hsplit : elements cuts = pre ++ t :: post)
    (hacc : AccI E o [] pre) (hdup : DupFreeI o (valsI E o [] pre))
    (hfit : Fits o init.length [] (valsI E o [] pre))
    (hfull : (keepA o (valsI E o [] pre)).length = init.length) :
    ∃ s', arrRunP E o false ⟨init, 0⟩ (usesOf o.sep cuts) = (s', some (.exc .runtime_error)) ∧
      s'.idx = init.length ∧ s'.slots.Perm (keepA o (valsI E o [] pre)) ∧
      (o.sort = false → s'.slots = keepA o (valsI E o [] pre)) := by
  have htok := allTokens_usesOf o.sep cuts hsep
  obtain ⟨s', hs', hi'⟩ := arrRunP_overflow E hl o init (usesOf o.sep cuts) ⟨init, 0⟩ [] pre post t
    (arrInv_start o init) (by rw [htok]; exact hsplit) hacc (by simpa using hdup) (by simpa using hfit)
    (by simpa using hfull)
  rw [List.nil_append] at hi'
  exact ⟨s', hs', full_of_inv hi' hfull⟩

/-- **Capacity, arrays: `¬ Fits` ⇒ the evaluation throws and the slots hold the first N kept values.**
    All elements acceptable (no repeat if duplicates are errors) but at some point an element arrives at a full
    array: `std::runtime_error`, and the N slots hold the first N kept values — `(keepA o vs).take N`, in arrival
    order without sort, as a rearrangement with sort.  Together with `C06_array_fold` (`Fits` ⇒ success) this
    decides every acceptable element sequence.
    Each element is formatted with the general format and then with the formatters of the slot it is stored in
    (= number of values kept before it), see `C06_position_format`; acceptability (`AccI`) of the elements behind
    the first refused one is read as if the array had room for them. -/
theorem C06_array_not_fits {α : Type} [DecidableEq α] (E : Elem α) (hl : LawfulLe E.le) (o : Opts) (init : List α)
    (cuts : List (List (List Char))) (hsep : ∀ e ∈ cuts.flatten, o.sep ∉ e)
    (hacc : AccI E o [] (elements cuts)) (hdup : DupFreeI o (valsI E o [] (elements cuts)))
    (hnf : ¬ Fits o init.length [] (valsI E o [] (elements cuts))) :
    ∃ s', arrRunP E o false ⟨init, 0⟩ (usesOf o.sep cuts) = (s', some (.exc .runtime_error)) ∧
      s'.idx = init.length ∧
      s'.slots.Perm ((keepA o (valsI E o [] (elements cuts))).take init.length) ∧
      (o.sort = false → s'.slots = (keepA o (valsI E o [] (elements cuts))).take init.length) := by
  obtain ⟨a, x, b, hsplit, hfa, hge⟩ := not_fits_split o init.length _ [] hnf
  rw [List.nil_append] at hge
  have hfull := fits_full_eq o _ a hfa hge
  obtain ⟨pre, t, post, hts, hpre, haccp⟩ := valsI_split E o (elements cuts) [] hacc a x b hsplit
  subst hpre
  have hdup' : DupFreeI o (valsI E o [] pre) := by rw [hsplit] at hdup; exact hdup.left
  obtain ⟨r, hr⟩ := keepA_append_prefix o (valsI E o [] pre) (x :: b)
  have htake : (keepA o (valsI E o [] (elements cuts))).take init.length = keepA o (valsI E o [] pre) := by
    rw [hsplit, hr]; exact List.take_left' hfull
  rw [htake]
  exact C06_array_overflow E hl o init cuts hsep pre post t hts haccp hdup' hfa hfull

/-- **Capacity, arrays, one step and memory safety** (lemma level; the clause "the (N+1)-th element is refused"
    over whole evaluations is `C06_array_overflow` / `C06_array_not_fits`): an element that arrives when all N slots
    are filled is refused with `std::runtime_error` and the array is unchanged; and for *every* input (any uses, any
    options, even the unrepaired duplicate search) the model never stores outside the N slots and the array keeps
    its size. -/
theorem C06_capacity_array {α : Type} [DecidableEq α] (E : Elem α) (o : Opts) (w : Bool) (s : ArrState α)
    (t : List Char) (ts : List (List Char)) (uses : List (List Char)) :
    (s.idx = s.slots.length → arrElems E o w s (t :: ts) = (s, some (.exc .runtime_error))) ∧
    (s.idx ≤ s.slots.length → (∀ x, (arrRunP E o w s uses).2 ≠ some (.oob x)) ∧
      (arrRunP E o w s uses).1.slots.length = s.slots.length) := by
  constructor
  · intro h
    rw [arrElems, arrStep_full E o w s t h]
  · exact arrRunP_safe E o w uses s

/-- **Fold, bitsets**: if every element passes the checks and converts to a position below N, the result is
    the previous bits (all clear if clear-before-assign) with these positions set — for every cut; bit `i`
    afterwards is "was set before or is among the positions". -/
theorem C06_bitset_fold (o : Opts) (init : List Bool) (cuts : List (List (List Char))) (hne : cuts ≠ [])
    (hsep : ∀ e ∈ cuts.flatten, o.sep ∉ e) (hacc : ∀ e ∈ elements cuts, AcceptsP o init.length e) :
    bitRunP o ⟨init, o.clear⟩ (usesOf o.sep cuts)
      = (⟨setAll (if o.clear then init.map (fun _ => false) else init) (valsP o (elements cuts)), false⟩, none) ∧
    ∀ i, i < init.length →
      (setAll (if o.clear then init.map (fun _ => false) else init) (valsP o (elements cuts))).getD i false
        = (((!o.clear) && init.getD i false) || decide (i ∈ valsP o (elements cuts))) := by
  have htok := allTokens_usesOf o.sep cuts hsep
  constructor
  · have := bitRunP_spec o init (usesOf o.sep cuts) (usesOf_ne_nil hne) (by rw [htok]; exact hacc)
    rw [this, htok]
  · intro i hi
    rw [setAll_getD _ _ i (by cases o.clear <;> simpa using hi)]
    cases o.clear
    · simp
    · simp [List.getD_eq_getElem?_getD, hi]

/-- **Capacity, bitsets, one step and memory safety** (whole evaluations: `C06_bitset_outside`): a position ≥ N
    is refused with `std::runtime_error` (the bits keep their value); no input makes the model write outside the
    bits, and their number never changes. -/
theorem C06_capacity_bitset (o : Opts) (b : List Bool) (t : List Char) (p : Nat)
    (hchk : runChecks o.checks t = none) (hv : valP o t = some p) (hp : b.length ≤ p) (ts : List (List Char)) :
    bitElems o b (t :: ts) = (b, some (.exc .runtime_error)) ∧
    (∀ t' x, bitStep o b t' ≠ .oob x) ∧ (∀ t' b', bitStep o b t' = .ok b' → b'.length = b.length) := by
  refine ⟨?_, fun t' x => (bitStep_safe o b t').1 x, fun t' b' => (bitStep_safe o b t').2 b'⟩
  rw [bitElems, bitStep_outside o b t p hchk hv hp]

/-- **Capacity, bitsets, whole evaluations**: `elements cuts = pre ++ t :: post`, the elements `pre` are
    acceptable positions below N, `t` passes the checks and converts to a position ≥ N (what follows is
    arbitrary).  Then, however the sequence is cut into uses, the evaluation ends with `std::runtime_error` and the
    bits are the previous bits (all clear if clear-before-assign) with exactly the positions of `pre` set. -/
theorem C06_bitset_outside (o : Opts) (init : List Bool) (cuts : List (List (List Char)))
    (hsep : ∀ e ∈ cuts.flatten, o.sep ∉ e) (pre post : List (List Char)) (t : List Char) (p : Nat)
    (hsplit : elements cuts = pre ++ t :: post) (hacc : ∀ e ∈ pre, AcceptsP o init.length e)
    (hchk : runChecks o.checks t = none) (hv : valP o t = some p) (hp : init.length ≤ p) :
    bitRunP o ⟨init, o.clear⟩ (usesOf o.sep cuts)
      = (⟨setAll (if o.clear then init.map (fun _ => false) else init) (valsP o pre), false⟩,
         some (.exc .runtime_error)) := by
  have htok := allTokens_usesOf o.sep cuts hsep
  exact bitRunP_outside_start o init (usesOf o.sep cuts) pre post t p (by rw [htok]; exact hsplit) hacc hchk hv hp

/-- **Fold, key-value destinations** (`std::map<int,std::string>`): if every element is a well-formed pair
    that passes the checks (and no key repeats when duplicates are errors), the content is the previous content
    (nothing if clear) with every pair inserted in order, an existing key keeping its value — for every cut; the
    keys stay strictly ascending.  `mapFinalSpec` folds the model's own `mapInsert`; the statement that does not
    depend on it ("first value per key wins", as seen by `find`) is `C06_map_lookup` + `C06_map_determined`. -/
theorem C06_map_fold (o : MapOpts) (init : List Pair) (hwf : KeysSorted init) (cuts : List (List (List Char)))
    (hne : cuts ≠ []) (hsep : ∀ e ∈ cuts.flatten, o.sep ∉ e) (hacc : ∀ e ∈ elements cuts, AcceptsM o e)
    (hdup : DupFreeM o (if o.clear then [] else init) (pairsOf o (elements cuts))) :
    mapRunP o ⟨init, o.clear⟩ (usesOf o.sep cuts)
      = (⟨mapFinalSpec o init (pairsOf o (elements cuts)), false⟩, none) ∧
    KeysSorted (mapFinalSpec o init (pairsOf o (elements cuts))) := by
  have htok := allTokens_usesOf o.sep cuts hsep
  constructor
  · have := mapRunP_spec o init hwf (usesOf o.sep cuts) (usesOf_ne_nil hne) (by rw [htok]; exact hacc)
      (by rw [htok]; exact hdup)
    rw [this, htok]
  · apply insertAll_sorted
    cases o.clear
    · exact hwf
    · simp [KeysSorted, keysOf]

/-- **Key-value destinations at lookup level: the first value per key wins** (stated through `valueAt` =
    what `find( key)` shows, not through the model's `mapInsert`).  Under the hypotheses of `C06_map_fold` the
    evaluation succeeds, the keys of the result are strictly ascending, and for every key the result shows the value
    of the first pair with that key in "previous content (nothing if clear), then the pairs given, in order":
    a key that was there keeps its value, a new key gets the value it was given first. -/
theorem C06_map_lookup (o : MapOpts) (init : List Pair) (hwf : KeysSorted init) (cuts : List (List (List Char)))
    (hne : cuts ≠ []) (hsep : ∀ e ∈ cuts.flatten, o.sep ∉ e) (hacc : ∀ e ∈ elements cuts, AcceptsM o e)
    (hdup : DupFreeM o (if o.clear then [] else init) (pairsOf o (elements cuts))) :
    ∃ c, mapRunP o ⟨init, o.clear⟩ (usesOf o.sep cuts) = (⟨c, false⟩, none) ∧ KeysSorted c ∧
      ∀ key, valueAt key c = valueAt key ((if o.clear then [] else init) ++ pairsOf o (elements cuts)) := by
  obtain ⟨hrun, hsorted⟩ := C06_map_fold o init hwf cuts hne hsep hacc hdup
  refine ⟨_, hrun, hsorted, ?_⟩
  intro key
  have hb : KeysSorted (if o.clear then [] else init) := by
    cases o.clear
    · exact hwf
    · simp [KeysSorted, keysOf]
  show valueAt key (insertAll _ _) = _
  rw [valueAt_insertAll key _ _ hb, valueAt_append]

/-- **The lookup view determines the map**: two contents with strictly ascending keys that show the same value
    for every key are equal — so `C06_map_lookup` fixes the content completely. -/
theorem C06_map_determined (c₁ c₂ : List Pair) (h₁ : KeysSorted c₁) (h₂ : KeysSorted c₂)
    (h : ∀ key, valueAt key c₁ = valueAt key c₂) : c₁ = c₂ :=
  keysSorted_ext c₁ c₂ h₁ h₂ h

/-- **Tuples, partial.**  A `std::tuple<int,std::string,int>` destination given exactly its three elements —
    in one list, or split `1+2`, `2+1`, `1+1+1` over uses, every use carrying at least one element; empty elements
    anywhere — holds exactly these three values afterwards and the cardinality end check passes.  Each element is
    formatted with the formatters added for *its position in the tuple* (`addFormatPos( i, …)`; a tuple has no
    general format), whichever list it came in: field 0 is `lexical_cast<int>` of `t1` formatted for position 0,
    field 1 is `t2` formatted for position 1, field 2 comes from `t3` formatted for position 2 — the same in all cuts.
    *Missing for the full statement*: uses whose value has no element at all (`-v ,`), which the cardinality
    counts (known finding `tuple-empty-use`, `C06_finding_tuple_empty_use`). -/
theorem C06_tuple_partial (o : Opts) (t1 t2 t3 : List Char) (a b : Int) (s0 : TupState)
    (h0 : s0.numSet = 0 ∧ s0.card = 0)
    (hc1 : runChecks o.checks t1 = none) (hc2 : runChecks o.checks t2 = none) (hc3 : runChecks o.checks t3 = none)
    (hv1 : convInt (applyPos o.fmtPos 0 t1) = some a) (hv3 : convInt (applyPos o.fmtPos 2 t3) = some b)
    (uses : List (List Char))
    (hcut : (uses.map (tokens o.sep)) ∈ [[[t1, t2, t3]], [[t1], [t2, t3]], [[t1, t2], [t3]], [[t1], [t2], [t3]]]) :
    tupRunP o s0 uses = ({ s0 with a := a, s := applyPos o.fmtPos 1 t2, b := b, numSet := 3, card := 3 }, none) ∧
    ({ s0 with a := a, s := applyPos o.fmtPos 1 t2, b := b, numSet := 3, card := 3 } : TupState).finish.2 = none := by
  refine ⟨?_, by simp [TupState.finish, tupLen]⟩
  simp only [List.mem_cons, List.not_mem_nil, or_false] at hcut
  rcases hcut with h | h | h | h
  · obtain ⟨u, rfl, hu⟩ := map_eq_one _ _ _ h
    exact tup_run_1 o t1 t2 t3 a b s0 h0 hc1 hc2 hc3 hv1 hv3 u hu
  · obtain ⟨u1, u2, rfl, hu1, hu2⟩ := map_eq_two _ _ _ _ h
    exact tup_run_12 o t1 t2 t3 a b s0 h0 hc1 hc2 hc3 hv1 hv3 u1 u2 hu1 hu2
  · obtain ⟨u1, u2, rfl, hu1, hu2⟩ := map_eq_two _ _ _ _ h
    exact tup_run_21 o t1 t2 t3 a b s0 h0 hc1 hc2 hc3 hv1 hv3 u1 u2 hu1 hu2
  · obtain ⟨u1, u2, u3, rfl, hu1, hu2, hu3⟩ := map_eq_three _ _ _ _ _ h
    exact tup_run_111 o t1 t2 t3 a b s0 h0 hc1 hc2 hc3 hv1 hv3 u1 u2 u3 hu1 hu2 hu3

/-- **Capacity, tuples**: once three values are counted, a further use is refused with `std::runtime_error`
    before anything is touched, so is a further element inside a list; and a store beyond the last position
    (reachable only with the cardinality switched off) throws `std::out_of_range` instead of writing. -/
theorem C06_capacity_tuple (o : Opts) (s : TupState) (v t : List Char) (ts : List (List Char)) (i : Nat)
    (h : s.card = tupLen) :
    tupAssignP o s v = (s, some (.exc .runtime_error)) ∧
    tupElems o s (i + 1) (t :: ts) = (s, some (.exc .runtime_error)) ∧
    (s.numSet ≥ tupLen → s.put t = .throw .out_of_range) :=
  ⟨tup_full_refuses o s v h, tup_full_refuses_in_list o s i t ts h, tup_put_outside s t⟩

/-- **Known finding `tuple-empty-use`** (the unchanged tree): for tuples the result is *not* determined by the
    element sequence alone.  `-v 1,a,2` is accepted, `-v , -v 1,a,2` — the same three elements — is refused
    ("too many values"): a use without any element is counted by the cardinality. -/
theorem C06_finding_tuple_empty_use :
    ¬ ((tupRunP {} ⟨0, [], 0, 0, 0⟩ [[','], ['1', ',', 'a', ',', '2']]).2
        = (tupRunP {} ⟨0, [], 0, 0, 0⟩ [['1', ',', 'a', ',', '2']]).2) := by
  decide

/-! ## the hypotheses are satisfiable, the statements are not vacuous -/

/-- `-v 3,,1 -v 2,3` into a vector [9] with sort + unique: [1,2,3,9] -/
example : run intElem .vec { sort := true, unique := true } (SeqState.start [9] { sort := true, unique := true })
    (usesOf ',' [[['3'], [], ['1']], [['2'], ['3']]]) = .ok ⟨[1, 2, 3, 9], false⟩ := by rfl

example : elements [[['3'], [], ['1']], [['2'], ['3']]] = [['3'], ['1'], ['2'], ['3']] := by decide
example : vals intElem .vec {} [] [] [['3'], ['1'], ['2'], ['3']] = [3, 1, 2, 3] := by decide
example : finalSpec intElem .vec { sort := true, unique := true } [9] [3, 1, 2, 3] = [1, 2, 3, 9] := by decide
example : configure .vec { sort := true, unique := true } = .ok () := by rfl
example : Accepts intElem .vec { checks := [.lower 1] } 0 ['3'] := ⟨by rfl, by rfl⟩
example : ¬ Accepts intElem .vec { checks := [.lower 1] } 0 ['0'] := fun h => by
  have := h.1; revert this; decide
example : DupFree { unique := true, dupErr := true } [9] [3, 1, 2] := by
  intro _ _; decide
example : HasDup [9] [3, 1, 3] := by unfold HasDup; decide
/-- forward list: values are prepended one by one -/
example : finalSpec intElem .fwdlist {} [1, 7] [3, 4] = [4, 3, 1, 7] := by decide
/-- set: ordered, duplicates of what is there are dropped -/
example : finalSpec intElem .set {} [1, 5] [3, 5, 3] = [1, 3, 5] := by decide
/-- clear-before-assign -/
example : finalSpec strElem .vec { clear := true } [['x']] [['b'], ['a']] = [['b'], ['a']] := by decide
/-- arrays: `-v 0,1 -v 9` into int[4] = {9,9,0,0} with unique: the zero is stored (repaired code) -/
example : arrRunP intElem { unique := true } false ⟨[9, 9, 0, 0], 0⟩ [['0', ',', '1'], ['9']] = (⟨[0, 1, 9, 0], 3⟩, none) := by
  decide
/-- the code before the repair dropped the zero and the nine -/
example : arrRunP intElem { unique := true } true ⟨[9, 9, 0, 0], 0⟩ [['0', ',', '1'], ['9']] = (⟨[1, 9, 0, 0], 1⟩, none) := by
  decide
example : Fits {} 4 [] ([0, 1, 9] : List Int) := by intro j hj; simp at hj; rcases j with _ | _ | _ | j <;> simp [keepA] <;> omega
example : arrElems intElem {} false ⟨[1, 2], 2⟩ [['3']] = (⟨[1, 2], 2⟩, some (.exc .runtime_error)) := by decide
/-- arrays of strings, sorted -/
example : arrRunP strElem { sort := true } false ⟨[[], []], 0⟩ [['b', ',', 'a']] = (⟨[['a'], ['b']], 2⟩, none) := by
  decide
/-- position formatters on a `std::string[2]`, `addFormatPos( 0, uppercase())`, `addFormatPos( 1, lowercase())`:
    `-v aB -v aB` — the second use continues at slot 1 -/
example : arrRunP strElem { fmtPos := [(0, .upper), (1, .lower)] } false ⟨[[], []], 0⟩ [['a', 'B'], ['a', 'B']]
    = (⟨[['A', 'B'], ['a', 'b']], 2⟩, none) := by decide
/-- the same elements in one use `-v aB,aB` -/
example : arrRunP strElem { fmtPos := [(0, .upper), (1, .lower)] } false ⟨[[], []], 0⟩ [['a', 'B', ',', 'a', 'B']]
    = (⟨[['A', 'B'], ['a', 'b']], 2⟩, none) := by decide
/-- unique-data and position formatters, `-v 1 -v 1 -v Cd` into `std::string[3]`: the second `1` is formatted for
    slot 1, found in the array and dropped; it does not advance the slot, so `Cd` is formatted for slot 1 too
    (lower case) and slot 2 is untouched -/
example : arrRunP strElem { unique := true, fmtPos := [(0, .upper), (1, .lower)] } false ⟨[[], [], []], 0⟩
    [['1'], ['1'], ['C', 'd']] = (⟨[['1'], ['c', 'd'], []], 2⟩, none) := by decide
/-- without unique-data the same input fills all three slots and `Cd` (slot 2, no formatter) keeps its case -/
example : arrRunP strElem { fmtPos := [(0, .upper), (1, .lower)] } false ⟨[[], [], []], 0⟩
    [['1'], ['1'], ['C', 'd']] = (⟨[['1'], ['1'], ['C', 'd']], 3⟩, none) := by decide
/-- `valsI` / `AccI` thread the slot through the tokens -/
example : valsI strElem { fmtPos := [(0, .upper), (1, .lower)] } [] [['a', 'B'], ['a', 'B']]
    = [['A', 'B'], ['a', 'b']] := by decide
example : valsI strElem { unique := true, fmtPos := [(0, .upper), (1, .lower)] } [] [['1'], ['1'], ['C', 'd']]
    = [['1'], ['1'], ['c', 'd']] := by decide
example : AccI strElem { fmtPos := [(0, .upper), (1, .lower)] } [] [['a', 'B'], ['a', 'B']] := by decide
example : ¬ AccI intElem {} [] [['1'], ['x']] := by decide
/-- `C06_position_format_array` on `-v aB -v aB`: slot 1 holds element 1 formatted for position 1 -/
example : valI strElem { fmtPos := [(0, .upper), (1, .lower)] } 1 ['a', 'B'] = some ['a', 'b'] := by decide
/-- all hypotheses of `C06_position_format_array` together: `-v aB -v aB` into `std::string[2]`, slot 1 -/
example : (arrRunP strElem { fmtPos := [(0, .upper), (1, .lower)] } false ⟨[[], []], 0⟩
      (usesOf ',' [[['a', 'B']], [['a', 'B']]])).1.slots[1]? = some ['a', 'b'] := by
  have hv : valsI strElem { fmtPos := [(0, .upper), (1, .lower)] } [] [['a', 'B'], ['a', 'B']]
      = [['A', 'B'], ['a', 'b']] := by decide
  exact (C06_position_format_array strElem strLe_lawful { fmtPos := [(0, .upper), (1, .lower)] } [[], []]
    [[['a', 'B']], [['a', 'B']]] (by decide) (by decide) (by decide) (by intro h; cases h)
    (by
      show Fits _ 2 [] (valsI strElem _ [] [['a', 'B'], ['a', 'B']])
      rw [hv]; intro j hj; simp at hj; rcases j with _ | _ | j <;> simp [keepA] <;> omega)
    rfl rfl 1 (by decide)).1
/-- all hypotheses of `C06_array_overflow` together: `-v 1,2 -v 3` into int[2] -/
example : ∃ s', arrRunP intElem {} false ⟨[0, 0], 0⟩ (usesOf ',' [[['1'], ['2']], [['3']]])
      = (s', some (.exc .runtime_error)) ∧ s'.idx = 2 ∧ s'.slots.Perm [1, 2] ∧ (true → s'.slots = [1, 2]) := by
  have hv : valsI intElem {} [] [['1'], ['2']] = [1, 2] := by decide
  have := C06_array_overflow intElem intLe_lawful {} [0, 0] [[['1'], ['2']], [['3']]] (by decide)
    [['1'], ['2']] [] ['3'] (by decide) (by decide)
    (by intro h; cases h)
    (by rw [hv]; intro j hj; simp at hj; rcases j with _ | _ | j <;> simp [keepA] <;> omega)
    (by rw [hv]; rfl)
  rw [hv] at this
  simpa [keepA] using this
example : ¬ Fits {} 2 [] ([1, 2, 3] : List Int) := fun h => by
  have := h 2 (by simp)
  simp [keepA] at this
/-- bitset<4>, `-v 1,4`: position 4 is refused, bit 1 stays set -/
example : bitRunP {} ⟨[false, false, false, false], false⟩ [['1', ',', '4']]
    = (⟨[false, true, false, false], false⟩, some (.exc .runtime_error)) := by rfl
example : valP {} ['4'] = some 4 := by decide
/-- pop order: a stack [1,2] (2 on top) given 3,4 pops 4,3,2,1; a priority queue pops descending -/
example : observe .stack (finalSpec intElem .stack {} [1, 2] [3, 4]) = [4, 3] ++ observe .stack [1, 2] := by decide
example : observe .prioq (finalSpec intElem .prioq {} [1, 5] [3]) = [5, 3, 1] := by decide
example : configure .prioq {} = .ok () ∧ SeqKind.prioq.hasIterators = false := ⟨rfl, rfl⟩
/-- lookup view: key 1 keeps 'a' although 1,z is given; key 2 is new -/
example : valueAt 1 (mapFinalSpec {} [(1, ['a'])] [(2, ['b']), (1, ['z'])]) = some ['a'] ∧
    valueAt 2 (mapFinalSpec {} [(1, ['a'])] [(2, ['b']), (1, ['z'])]) = some ['b'] ∧
    valueAt 1 ([(1, ['a'])] ++ [(2, ['b']), (1, ['z'])]) = some ['a'] := by decide
/-- unique keeps first occurrences only, in order -/
example : dedupInto [9] [3, 9, 1, 3] = ([3, 1] : List Int) := by decide
example : AcceptsP {} 8 ['7'] := ⟨rfl, 7, by decide, by decide⟩
example : KeysSorted [(1, ['a']), (3, ['c'])] := by simp [KeysSorted, keysOf]
example : mapPairOf {} ['2', ',', 'b'] = some (2, ['b']) := by decide
example : mapFinalSpec {} [(1, ['a'])] [(2, ['b']), (1, ['z'])] = [(1, ['a']), (2, ['b'])] := by decide
example : (tupRunP {} ⟨0, [], 0, 0, 0⟩ [['1', ',', 'a'], ['2']]) = (⟨1, ['a'], 2, 3, 3⟩, none) := by decide

/-- two different position formatters on a vector of strings: `-v aB -v aB` and `-v aB,aB` both give [AB, ab] -/
example : runP strElem .vec { fmtPos := [(0, .upper), (1, .lower)] } (SeqState.start [] {}) [['a', 'B'], ['a', 'B']]
    = (⟨[['A', 'B'], ['a', 'b']], false⟩, none) ∧
    runP strElem .vec { fmtPos := [(0, .upper), (1, .lower)] } (SeqState.start [] {}) [['a', 'B', ',', 'a', 'B']]
    = (⟨[['A', 'B'], ['a', 'b']], false⟩, none) := by decide
/-- the position counts the previous content: into [x] the first value goes to position 1 -/
example : runP strElem .vec { fmtPos := [(0, .upper), (1, .lower)] } (SeqState.start [['x']] {}) [['a', 'B'], ['a', 'B']]
    = (⟨[['x'], ['a', 'b'], ['a', 'B']], false⟩, none) := by decide
/-- general format first, then the position's: lower then upper at position 0 -/
example : runP strElem .vec { fmt := .lower, fmtPos := [(0, .upper)] } (SeqState.start [] {}) [['a', 'B', ',', 'a', 'B']]
    = (⟨[['A', 'B'], ['a', 'b']], false⟩, none) := by decide
/-- unique-data: the dropped duplicate `AB` does not use up position 1 -/
example : runP strElem .vec { unique := true, fmtPos := [(0, .upper), (1, .upper), (2, .lower)] } (SeqState.start [] {})
      [['a', 'b'], ['A', 'b'], ['C', 'd'], ['C', 'd']]
    = (⟨[['A', 'B'], ['C', 'D'], ['c', 'd']], false⟩, none) := by decide
example : vals strElem .vec { fmtPos := [(0, .upper), (1, .lower)] } [] [] [['a', 'B'], ['a', 'B']] = [['A', 'B'], ['a', 'b']] := by
  decide
example : AccAll strElem .vec { fmtPos := [(0, .upper), (1, .lower)] } [] [] [['a', 'B'], ['a', 'B']] :=
  ⟨rfl, _, rfl, rfl, _, rfl, trivial⟩
/-- position formatters are refused at definition time by every sequence kind but the vector -/
example : configure .deque { fmtPos := [(0, .upper)] } = .throw .logic_error ∧
    configure .vec { fmtPos := [(0, .upper)] } = .ok () := ⟨rfl, rfl⟩
/-- the tuple of the seeded change C06-3: formatters lower / upper / lower, `-v 1 Beta 2` (three uses of one
    element): the middle field is formatted for tuple position 1, not for its index 0 in its own list -/
example : tupRunP { fmtPos := [(0, .lower), (1, .upper), (2, .lower)] } ⟨0, [], 0, 0, 0⟩ [['1'], ['B', 'e', 't', 'a'], ['2']]
    = (⟨1, ['B', 'E', 'T', 'A'], 2, 3, 3⟩, none) ∧
    tupRunP { fmtPos := [(0, .lower), (1, .upper), (2, .lower)] } ⟨0, [], 0, 0, 0⟩ [['1', ',', 'B', 'e', 't', 'a', ',', '2']]
    = (⟨1, ['B', 'E', 'T', 'A'], 2, 3, 3⟩, none) := by decide
example : tupConfigure { fmtPos := [(3, .upper)] } = .throw .range_error ∧ tupConfigure { fmt := .upper } = .throw .logic_error :=
  ⟨rfl, rfl⟩

end CelmaVerif.Props.C06
