import CelmaVerif.Lemmas.Spelling
import CelmaVerif.Lemmas.FileLines
import CelmaVerif.Lemmas.SourcesSim
import CelmaVerif.Lemmas.SourcesWords
import CelmaVerif.Lemmas.SourcesBridge
import CelmaVerif.Lemmas.SourcesSound
import CelmaVerif.Lemmas.RulesComplete
import CelmaVerif.Lemmas.RulesExample
import CelmaVerif.Props.C07
import CelmaVerif.Model.ProgArgs.SubGroups
/-
  C07, second half — arguments from an argument file or the environment variable are evaluated by
  the same rules as command-line words, produce the same destination values, and can be overridden
  on the command line.  (First half — splitting inverts quoting — in Props/C07.lean.)

  The clause theorems are, end to end on `evalArguments` with its `Sources`:
  * `C07_sources_are_uses`   — file lines (comment and empty lines interspersed, any quoting), then
    the environment value, then argv are ONE abstract command line, applied in that order; the
    "from a source" flag is set for the first two and reset before argv;
  * `C07_same_as_argv`       — an accepted evaluation leaves in every destination what that abstract
    command line denotes, which is what the same line leaves when it is given on argv alone;
  * `C07_valid_line_through_sources` — a line that is valid on argv is accepted when delivered
    wholly or partly through the sources (same destinations), and how the flag changes the rules;
  * `C07_override`, `C07_override_value` — a scalar given by a source and again on argv: no
    exception, the destination holds the argv value.
  `C07_file_comment_lines`, `C07_file_line_is_words`, `C07_env_is_words` only unfold the model's
  definitions (kept as lemmas), `C07_escaped_line_same_uses_partial` and
  `C07_source_values_not_counted` are single-step facts; none of them is the clause.
-/
namespace CelmaVerif.Props.C07b
open CelmaVerif CelmaVerif.ProgArgs CelmaVerif.Keys

/-- (definitional, one unfolding of `readFileLines`) empty lines and lines starting with `#` of the
    argument file are skipped -/
theorem C07_file_comment_lines (cfg : Cfg) (line : Word) (rest : List Word) (h : HState)
    (hc : line = [] ∨ line.head? = some '#') :
    readFileLines cfg (line :: rest) h = readFileLines cfg rest h := by
  simp only [readFileLines]
  rcases hc with e | e
  · subst e; simp
  · simp [e]

/-- (definitional, one unfolding of `readFileLines`) every other line is split into words by
    `splitString` and the words go through the very same element loop as the command line, then the
    next line -/
theorem C07_file_line_is_words (cfg : Cfg) (line : Word) (rest : List Word) (h : HState)
    (hc : ¬ (line = [] ∨ line.head? = some '#')) :
    readFileLines cfg (line :: rest) h =
      (iterateArguments cfg h (ArgString.defaultProgName :: ArgString.splitString line) >>=
        fun h' => readFileLines cfg rest h') := by
  simp only [readFileLines]
  have : (line.isEmpty || line.head? == some '#') = false := by
    cases line with
    | nil => exact absurd (Or.inl rfl) hc
    | cons c cs =>
      have : c ≠ '#' := fun e => hc (Or.inr (by rw [e]; rfl))
      simp [this]
  simp [this]

/-- (definitional, `rfl`) the environment variable likewise: its value is split by `splitString` and
    evaluated by the same loop -/
theorem C07_env_is_words (cfg : Cfg) (e : Word) (h : HState) :
    evalEnvSource cfg (some e) h =
      (iterateArguments cfg { h with fromSrc := true } (ArgString.defaultProgName :: ArgString.splitString e) >>=
        fun h' => pure { h' with fromSrc := false }) := rfl

/-- **One escaped line, one loop** (PARTIAL: a single call of the element loop, the same handler state —
    hence the same from-source flag — on both sides; after `C07_split_join` this is independence of
    `argv[0]`.  Missing here and proved in `C07_sources_are_uses` / `C07_same_as_argv`: the flag set on
    the source side only, several lines, comment lines, the environment value, the order, the final
    checks, the destinations).  Take command-line words `ws` (all non-empty) that spell the uses `us`;
    write them into a file line or the environment value with each word escaped (backslash before
    blank, both quotes and backslash).  The element loop then sees exactly the same words and
    applies exactly the same uses as for `ws` on argv. -/
theorem C07_escaped_line_same_uses_partial (cfg : Cfg) (h : HState) (us : List Use) (ws : List Word) (prog : Word)
    (hne : ∀ w ∈ ws, w ≠ []) (sp : Spells cfg h.lastArg us ws) :
    iterateArguments cfg h (ArgString.defaultProgName :: ArgString.splitString (ArgString.joinSp (ws.map ArgString.escape)))
      = iterateArguments cfg h (prog :: ws) := by
  rw [C07.C07_split_join ws hne, spells_iterate cfg h _ sp, spells_iterate cfg h prog sp]

/-- **Values from a source do not count towards the cardinality** of a scalar argument (one
    `assignValue` step, statement about the counter; the end-to-end override statement is
    `C07_override`). -/
theorem C07_source_values_not_counted (h h' : HState) (i : Nat) (d : ArgDef) (v : Word) (f : Bool)
    (hsrc : h.fromSrc = true) (hk : d.kind ≠ .vecInt) (hlt : i < h.args.length)
    (he : assignValue h i d v f = .ok h') :
    (h'.args.getD i default).cnt = (h.args.getD i default).cnt :=
  assignValue_fromSrc_cnt hsrc hk hlt he

/-- **The file is its lines, with or without a final newline.**  `readArgumentFile` evaluates the
    lines `fileLines content` of the file's bytes (the `std::getline` loop).  For a file whose lines
    are all terminated these are exactly the lines; for a file whose last line is *not* terminated
    (written by `printf`, by an editor without final newline, or a one-line file) they are too — the
    arguments of the last line are evaluated like all others. -/
theorem C07_file_is_its_lines (ls : List Word) (last : Word) (h : ∀ l ∈ ls, '\n' ∉ l)
    (hl : '\n' ∉ last) (hne : last ≠ []) :
    fileLines (unlines (ls ++ [last])) = ls ++ [last] ∧ fileLines (unlines ls ++ last) = ls ++ [last] :=
  ⟨fileLines_terminated _ (by
      intro l hm
      rcases List.mem_append.mp hm with m | m
      · exact h l m
      · rw [List.mem_singleton.mp m]; exact hl),
   fileLines_unterminated ls last h hl hne⟩

/-- the pinned loop `while (!std::getline( f, line).eof())` lost the unterminated last line (repaired
    by the `fix:` commit "the last line of an argument file was ignored …"): witness kept -/
theorem C07_head_unterminated_last_line_lost (ls : List Word) (last : Word) (h : ∀ l ∈ ls, '\n' ∉ l)
    (hl : '\n' ∉ last) : fileLinesHead (unlines ls ++ last) = ls :=
  fileLinesHead_unterminated ls last h hl

example : fileLines "-n 5\n-f".toList = ["-n 5".toList, "-f".toList] ∧
    fileLines "-n 5\n-f\n".toList = ["-n 5".toList, "-f".toList] ∧
    fileLinesHead "-n 5\n-f".toList = ["-n 5".toList] ∧
    fileLines "".toList = [] ∧ fileLines "\n".toList = [[]] := by decide

/-! ### end to end: sources and argv are one abstract command line -/

/-- **The sources are evaluated before argv, in the order file, environment, argv, by the same rules.**
    Let the lines of the argument file spell the uses `usF` (`FileSpells`: comment and empty lines
    spell nothing, every other line — any text, quoted in any way — is split by `splitString` and its
    words spell uses by the same grammar `Spells` as command-line words; several lines follow each
    other), the environment value spell `usE` and the words on argv spell `usA`; a source that is
    absent delivers no uses.  Then for every handler state in command-line mode
    `evalArguments` is: apply `usF ++ usE` with the from-source flag set, *reset the flag*, apply
    `usA`, run the final checks (`evalUsesSrc`) — as an equation of results: the same final state when
    accepted, the same exception otherwise.  The last-argument marker is carried across lines and
    sources (`lastAfter`), as in the code. -/
theorem C07_sources_are_uses (cfg : Cfg) (h : HState) (src : Sources) (prog : Word) (ws : List Word)
    {usF usE usA : List Use} (hcmd : h.fromSrc = false)
    (hF : FileSrcSpells cfg h.lastArg usF src.file)
    (hE : EnvSrcSpells cfg (lastAfter h.lastArg usF) usE src.env)
    (hA : Spells cfg (lastAfter h.lastArg (usF ++ usE)) usA ws) :
    evalArguments cfg h src (prog :: ws) = evalUsesSrc cfg h (usF ++ usE) usA :=
  evalArguments_sources cfg h src prog ws hcmd hF hE hA

/-- every way of quoting the words in a file line or the environment value: if `qs` are quoted
    spellings (`AllQuotes`: plain characters, backslash pairs, `'…'` and `"…"` segments) of non-empty
    words that spell `us`, the text `qs` joined by blanks spells `us` -/
theorem C07_quoted_text_spells (cfg : Cfg) (l : Option Nat) (us : List Use) (qs ws : List Word)
    (hq : ArgString.AllQuotes qs ws) (hne : ∀ w ∈ ws, w ≠ []) (sp : Spells cfg l us ws) :
    Spells cfg l us (ArgString.splitString (ArgString.joinSp qs)) := by
  rw [C07.C07_split_quoted qs ws hq hne]; exact sp

/-- **Same destination values as on the command line.**  Whenever an evaluation with sources is
    accepted, every destination holds `denote` of the values its argument was given, in the order
    file, environment, argv (unused ⇒ initial value; flag ⇒ set; int / string ⇒ the last value,
    converted; list ⇒ initial content followed by all elements; LevelCounter ⇒ increments and
    assignments in order) — and that is, destination by destination, what every accepted evaluation
    of the same abstract command line given on argv alone leaves (any spelling `ws'` of it). -/
theorem C07_same_as_argv (cfg : Cfg) (inits : List DVal) (hin : cfg.args.length ≤ inits.length)
    (src : Sources) (prog : Word) (ws : List Word) {usF usE usA : List Use}
    (hF : FileSrcSpells cfg none usF src.file)
    (hE : EnvSrcSpells cfg (lastAfter none usF) usE src.env)
    (hA : Spells cfg (lastAfter none (usF ++ usE)) usA ws)
    {hf : HState} (e : evalArguments cfg (cfg.initState inits) src (prog :: ws) = .ok hf)
    {i : Nat} {d : ArgDef} {v : DVal} (hi : cfg.args[i]? = some d) (hv : inits[i]? = some v)
    (ht : d.kind = .vecInt → ∃ l, v = .vec l) :
    (∃ st, hf.args[i]? = some st ∧ st.dest = denote d v (valsOf i (usF ++ usE ++ usA))) ∧
    ∀ (prog' : Word) (ws' : List Word) (hf' : HState), Spells cfg none (usF ++ usE ++ usA) ws' →
      evalArguments cfg (cfg.initState inits) {} (prog' :: ws') = .ok hf' →
      ∃ st st', hf.args[i]? = some st ∧ hf'.args[i]? = some st' ∧ st.dest = st'.dest := by
  rw [evalArguments_sources cfg (cfg.initState inits) src prog ws rfl hF hE hA] at e
  obtain ⟨st, hst, hd⟩ := sources_dests_denote hin e hi hv ht
  refine ⟨⟨st, hst, hd⟩, ?_⟩
  intro prog' ws' hf' hs' e'
  rw [spells_eval cfg (cfg.initState inits) prog' hs'] at e'
  obtain ⟨st', hst', hd'⟩ := dests_denote hin e' hi hv ht
  exact ⟨st, st', hst, hst', by rw [hd, hd']⟩

/-- **A valid command line stays valid when it is delivered through the sources** — and what the
    from-source flag changes.  The flag is read in one place: `assignValue` skips the cardinality
    object's `gotValue()`.  So the evaluation with sources goes through the same states as the
    evaluation of the same line on argv, up to the counters, which are smaller.  Hence: if the
    abstract command line `usF ++ usE ++ usA`, in some spelling `ws'`, is accepted on argv alone, it
    is accepted with `usF` in the file, `usE` in the environment variable and `usA` on argv, and
    every destination ends with the same value — provided every argument used by a source has a
    cardinality without a condition at the end (`unlimited` or `max n`; the default of every scalar
    argument is `max 1`, of a list `unlimited`).  For `exact`/`range` cardinalities the smaller count
    can fail the final check: `C07_finding_list_cardinality_from_file` (lists) is such a case. -/
theorem C07_valid_line_through_sources (cfg : Cfg) (inits : List DVal)
    (src : Sources) (prog : Word) (ws : List Word) {usF usE usA : List Use}
    (hF : FileSrcSpells cfg none usF src.file)
    (hE : EnvSrcSpells cfg (lastAfter none usF) usE src.env)
    (hA : Spells cfg (lastAfter none (usF ++ usE)) usA ws)
    (prog' : Word) (ws' : List Word) (hw : Spells cfg none (usF ++ usE ++ usA) ws') {hArgv : HState}
    (eA : evalArguments cfg (cfg.initState inits) {} (prog' :: ws') = .ok hArgv)
    (hS : ∀ i d, UsedBy (usF ++ usE) i → cfg.args[i]? = some d → d.card.NoEnd) :
    ∃ hf, evalArguments cfg (cfg.initState inits) src (prog :: ws) = .ok hf ∧
      hf.args.map (·.dest) = hArgv.args.map (·.dest) := by
  rw [spells_eval cfg (cfg.initState inits) prog' hw] at eA
  rw [evalArguments_sources cfg (cfg.initState inits) src prog ws rfl hF hE hA]
  obtain ⟨hf, e, hE'⟩ := evalUsesSrc_sim (relaxed_refl cfg) (h0 := cfg.initState inits) (usS := usF ++ usE)
    (usA := usA) rfl eA (fun _ _ _ c => absurd c id) (fun i d hu _ hd => hS i d hu hd)
  exact ⟨hf, e, hE'.dests⟩

/-- **Override.**  Let `O` select non-list arguments with a cardinality `max n` (every int / string /
    flag argument has `max 1` unless told otherwise).  Suppose the abstract command line
    `usF ++ usE ++ usA` obeys every rule of the configuration *except* those cardinalities — i.e. it
    is accepted under `cfg.relax O`, the configuration without the cardinality objects of `O`
    (`rules_complete` derives this from the declarative rules `Obeys`) — and each argument in `O` is
    used at most `n` times *on argv*, however often the sources give it; the other arguments the
    sources use have `unlimited`/`max` cardinalities.  Then the evaluation with `usF` in the file,
    `usE` in the environment variable and `usA` on argv throws nothing: it is accepted, and every
    destination holds `denote` of all its values in the order file, environment, argv — for an int
    or string argument the last one, which is the argv value whenever argv gives one
    (`C07_override_value`).  On argv alone the same line is refused as soon as a source value and an
    argv value of a `max 1` argument meet (`C07_override_needs_source`). -/
theorem C07_override (cfg : Cfg) (inits : List DVal) (hin : cfg.args.length ≤ inits.length) (O : Nat → Bool)
    (hsc : ∀ i d, O i = true → cfg.args[i]? = some d → d.kind ≠ .vecInt ∧ ∃ n, d.card = .max n)
    (src : Sources) (prog : Word) (ws : List Word) {usF usE usA : List Use}
    (hF : FileSrcSpells cfg none usF src.file)
    (hE : EnvSrcSpells cfg (lastAfter none usF) usE src.env)
    (hA : Spells cfg (lastAfter none (usF ++ usE)) usA ws)
    {hR : HState} (eR : evalUses (cfg.relax O) (cfg.initState inits) (usF ++ usE ++ usA) = .ok hR)
    (hb : ∀ i d n, O i = true → cfg.args[i]? = some d → d.card = .max n → n = -1 ∨ (usesOf i usA : Int) ≤ n)
    (hS : ∀ i d, UsedBy (usF ++ usE) i → O i = false → cfg.args[i]? = some d → d.card.NoEnd) :
    ∃ hf, evalArguments cfg (cfg.initState inits) src (prog :: ws) = .ok hf ∧
      ∀ i d v, cfg.args[i]? = some d → inits[i]? = some v → (d.kind = .vecInt → ∃ l, v = .vec l) →
        ∃ st, hf.args[i]? = some st ∧ st.dest = denote d v (valsOf i (usF ++ usE ++ usA)) := by
  rw [evalArguments_sources cfg (cfg.initState inits) src prog ws rfl hF hE hA]
  obtain ⟨hf, e, _⟩ := evalUsesSrc_sim (relaxed_relax cfg O hsc) (h0 := cfg.initState inits) (usS := usF ++ usE)
    (usA := usA) rfl eR
    (fun i d n hO hd hn => by
      have hc : cntOf (cfg.initState inits) i = 0 := by
        unfold cntOf Cfg.initState
        simp only [List.getD_eq_getElem?_getD, List.getElem?_map]
        cases ((cfg.args.zip inits)[i]?) <;> rfl
      rw [hc]; simpa using hb i d n hO hd hn)
    (fun i d hu hO hd => hS i d hu (by cases h : O i <;> simp_all) hd)
  refine ⟨hf, e, fun i d v hi hv ht => ?_⟩
  exact sources_dests_denote hin e hi hv ht

/-- the value an overridden int or string destination ends with: the last value given on argv (a string
    destination: that value as formatted by the argument's formatter, `d.fmt`; no formatter: as typed) -/
theorem C07_override_value (d : ArgDef) (init : DVal) (i : Nat) (usS usA : List Use) (vs : List Word) (last : Word)
    (hv : valsOf i usA = vs ++ [last]) :
    (d.kind = .int → denote d init (valsOf i (usS ++ usA)) = .int (castOr0 last)) ∧
    (d.kind = .str → denote d init (valsOf i (usS ++ usA)) = .str (d.fmt.apply last)) := by
  have : valsOf i (usS ++ usA) = (valsOf i usS ++ vs) ++ [last] := by
    unfold valsOf at hv ⊢
    rw [List.filter_append, List.map_append, hv, List.append_assoc]
  rw [this]
  constructor <;> intro hk <;> simp [denote, hk]

/-! ### the recorded finding `list-cardinality-from-file` -/

namespace Finding
def mArg : ArgDef := { key := ⟨some 'm', []⟩, kind := .vecInt, vmode := .required, card := .exact 2 }
def cfg : Cfg := { args := [mArg] }
def h0 : HState := cfg.initState [.vec []]
end Finding

/-- `-m 1,2` for a list argument with cardinality exact:2 is accepted on the command line … -/
theorem C07_finding_list_cardinality_argv_ok :
    (evalArguments Finding.cfg Finding.h0 {} ["p".toList, "-m".toList, "1,2".toList]).isOk = true := by
  decide +kernel

/-- … and rejected when the same words come from the argument file: the list elements after the
    first are counted although they come from a source (negation of "same result as on argv") -/
theorem C07_finding_list_cardinality_from_file :
    (evalArguments Finding.cfg Finding.h0 { file := some ["-m 1,2".toList] } ["p".toList]).isOk = false := by
  decide +kernel

/-! ### non-vacuity: all hypotheses of the end-to-end theorems together

  `-n,--num` (int, at most once), `-f` (flag), `-l` (list of int, takes free values).  The file
  holds a comment line, an empty line, `-n 5`, `-l 1`, and a line with the free value `2` (which
  continues `-l` of the line before); the environment variable holds `-f`; argv is `-n 7`. -/

namespace Ex
def nArg : ArgDef := { key := ⟨some 'n', ['n', 'u', 'm']⟩, kind := .int, vmode := .required, card := .max 1 }
def fArg : ArgDef := { key := ⟨some 'f', []⟩, kind := .flag, vmode := .none, card := .max 1 }
def lArg : ArgDef := { key := ⟨some 'l', []⟩, kind := .vecInt, vmode := .required, card := .unlimited, multi := true }
def cfg : Cfg := { args := [nArg, fArg, lArg] }
def inits : List DVal := [.int 0, .flag false, .vec []]
def lines : List Word := [['#', ' ', 'x'], [], ['-', 'n', ' ', '5'], ['-', 'l', ' ', '1'], ['2']]
def src : Sources := { file := some lines, env := some ['-', 'f'] }
def argv : List Word := [['-', 'n'], ['7']]
def usF : List Use := [⟨0, ['5'], true⟩, ⟨2, ['1'], true⟩, ⟨2, ['2'], false⟩]
def usE : List Use := [⟨1, [], true⟩]
def usA : List Use := [⟨0, ['7'], true⟩]
def O : Nat → Bool := fun i => i == 0

theorem plain (c : Char) (h : c ≠ '-' ∧ c ≠ '(' ∧ c ≠ ')' ∧ c ≠ '!') : PlainWord [c] := by
  unfold PlainWord
  obtain ⟨h1, h2, h3, h4⟩ := h
  simp [h1, h2, h3, h4]

theorem hF : FileSrcSpells cfg none usF src.file := by
  show FileSpells cfg none usF lines
  refine .skip (Or.inr rfl) (.skip (Or.inl rfl) ?_)
  have s1 : ArgString.splitString ['-', 'n', ' ', '5'] = [['-', 'n'], ['5']] := by decide
  have s2 : ArgString.splitString ['-', 'l', ' ', '1'] = [['-', 'l'], ['1']] := by decide
  have s3 : ArgString.splitString ['2'] = [['2']] := by decide
  refine FileSpells.line (us1 := [⟨0, ['5'], true⟩]) (us2 := [⟨2, ['1'], true⟩, ⟨2, ['2'], false⟩])
    (by unfold SkippedLine; decide) ?_ ?_
  · rw [s1]
    exact .shortVal (d := nArg) (by decide) rfl (by decide) (plain '5' (by decide)) (.nil _)
  · refine FileSpells.line (us1 := [⟨2, ['1'], true⟩]) (us2 := [⟨2, ['2'], false⟩])
      (by unfold SkippedLine; decide) ?_ ?_
    · rw [s2]
      exact .shortVal (d := lArg) (by decide) rfl (by decide) (plain '1' (by decide)) (.nil _)
    · refine FileSpells.line (us1 := [⟨2, ['2'], false⟩]) (us2 := []) (by unfold SkippedLine; decide) ?_ (.nil _)
      rw [s3]
      exact .free (d := lArg) rfl rfl (plain '2' (by decide)) (.nil _)

theorem hE : EnvSrcSpells cfg (lastAfter none usF) usE src.env := by
  show Spells cfg (some 2) usE (ArgString.splitString ['-', 'f'])
  have s1 : ArgString.splitString ['-', 'f'] = [['-', 'f']] := by decide
  rw [s1]
  exact .shortFlag (d := fArg) (by decide) rfl rfl (.nil _)

theorem hA : Spells cfg (lastAfter none (usF ++ usE)) usA argv :=
  .shortVal (d := nArg) (by decide) rfl (by decide) (plain '7' (by decide)) (.nil _)

theorem hsc : ∀ i d, O i = true → cfg.args[i]? = some d → d.kind ≠ .vecInt ∧ ∃ n, d.card = .max n := by
  intro i d hO hd
  have : i = 0 := by simpa [O] using hO
  subst this
  have : d = nArg := by simpa [cfg] using hd.symm
  subst this
  exact ⟨by decide, 1, rfl⟩

theorem hb : ∀ i d n, O i = true → cfg.args[i]? = some d → d.card = .max n → n = -1 ∨ (usesOf i usA : Int) ≤ n := by
  intro i d n hO hd hn
  have : i = 0 := by simpa [O] using hO
  subst this
  have : d = nArg := by simpa [cfg] using hd.symm
  subst this
  have : n = 1 := by simpa [nArg] using hn.symm
  subst this
  exact Or.inr (by decide)

theorem hS : ∀ i d, UsedBy (usF ++ usE) i → O i = false → cfg.args[i]? = some d → d.card.NoEnd := by
  intro i d ⟨u, hu, hi⟩ hO hd
  simp only [usF, usE, List.cons_append, List.nil_append, List.mem_cons, List.not_mem_nil, or_false] at hu
  rcases hu with rfl | rfl | rfl | rfl <;> simp only at hi <;> subst hi
  · simp [O] at hO
  · have : d = lArg := by simpa [cfg] using hd.symm
    subst this; trivial
  · have : d = lArg := by simpa [cfg] using hd.symm
    subst this; trivial
  · have : d = fArg := by simpa [cfg] using hd.symm
    subst this; trivial

/-- the line obeys every rule except the cardinality of `-n`: accepted once that is dropped -/
theorem eR : ∃ hR, evalUses (cfg.relax O) (cfg.initState inits) (usF ++ usE ++ usA) = .ok hR := ⟨_, rfl⟩
end Ex

/-- `C07_override` applies: `-n 5` from the file is overridden by `-n 7` on argv without an
    exception, the list collected its elements across two file lines, the flag came from the
    environment variable -/
example : ∃ hf, evalArguments Ex.cfg (Ex.cfg.initState Ex.inits) Ex.src (['p'] :: Ex.argv) = .ok hf ∧
    (∃ st, hf.args[0]? = some st ∧ st.dest = .int 7) ∧ (∃ st, hf.args[1]? = some st ∧ st.dest = .flag true) ∧
    (∃ st, hf.args[2]? = some st ∧ st.dest = .vec [1, 2]) := by
  obtain ⟨hR, eR⟩ := Ex.eR
  obtain ⟨hf, e, hd⟩ := C07_override Ex.cfg Ex.inits (by decide) Ex.O Ex.hsc Ex.src ['p'] Ex.argv Ex.hF Ex.hE Ex.hA eR
    Ex.hb Ex.hS
  have d0 : denote Ex.nArg (.int 0) (valsOf 0 (Ex.usF ++ Ex.usE ++ Ex.usA)) = .int 7 := by decide
  have d1 : denote Ex.fArg (.flag false) (valsOf 1 (Ex.usF ++ Ex.usE ++ Ex.usA)) = .flag true := by decide
  have d2 : denote Ex.lArg (.vec []) (valsOf 2 (Ex.usF ++ Ex.usE ++ Ex.usA)) = .vec [1, 2] := by decide
  refine ⟨hf, e, ?_, ?_, ?_⟩
  · rw [← d0]; exact hd 0 Ex.nArg (.int 0) rfl rfl (fun h => by cases h)
  · rw [← d1]; exact hd 1 Ex.fArg (.flag false) rfl rfl (fun h => by cases h)
  · rw [← d2]; exact hd 2 Ex.lArg (.vec []) rfl rfl (fun _ => ⟨[], rfl⟩)

/-- the same abstract command line given on argv alone is refused (`-n` twice, `max 1`): the override
    needs the source -/
theorem C07_override_needs_source :
    (evalArguments Ex.cfg (Ex.cfg.initState Ex.inits) {}
      [['p'], ['-', 'n'], ['5'], ['-', 'l'], ['1'], ['2'], ['-', 'f'], ['-', 'n'], ['7']]).isOk = false := by
  decide +kernel

/-- `C07_valid_line_through_sources` and `C07_same_as_argv` apply: the valid line `-l 1 2 -f -n 7` with
    `-l 1` / `2` in the file, `-f` in the environment and `-n 7` on argv -/
example : ∃ hf, evalArguments Ex.cfg (Ex.cfg.initState Ex.inits)
      { file := some [['-', 'l', ' ', '1'], ['#'], ['2']], env := some ['-', 'f'] } (['p'] :: Ex.argv) = .ok hf ∧
    hf.args.map (·.dest) = [.int 7, .flag true, .vec [1, 2]] := by
  have s2 : ArgString.splitString ['-', 'l', ' ', '1'] = [['-', 'l'], ['1']] := by decide
  have s3 : ArgString.splitString ['2'] = [['2']] := by decide
  have s1 : ArgString.splitString ['-', 'f'] = [['-', 'f']] := by decide
  have hF : FileSrcSpells Ex.cfg none [⟨2, ['1'], true⟩, ⟨2, ['2'], false⟩]
      (some [['-', 'l', ' ', '1'], ['#'], ['2']]) := by
    show FileSpells _ _ _ _
    refine FileSpells.line (us1 := [⟨2, ['1'], true⟩]) (us2 := [⟨2, ['2'], false⟩])
      (by unfold SkippedLine; decide) ?_ (.skip (Or.inr rfl) ?_)
    · rw [s2]
      exact .shortVal (d := Ex.lArg) (by decide) rfl (by decide) (Ex.plain '1' (by decide)) (.nil _)
    · refine FileSpells.line (us1 := [⟨2, ['2'], false⟩]) (us2 := []) (by unfold SkippedLine; decide) ?_ (.nil _)
      rw [s3]
      exact .free (d := Ex.lArg) rfl rfl (Ex.plain '2' (by decide)) (.nil _)
  have hE : EnvSrcSpells Ex.cfg (some 2) Ex.usE (some ['-', 'f']) := by
    show Spells _ _ _ _
    rw [s1]
    exact .shortFlag (d := Ex.fArg) (by decide) rfl rfl (.nil _)
  have hw : Spells Ex.cfg none ([⟨2, ['1'], true⟩, ⟨2, ['2'], false⟩] ++ Ex.usE ++ Ex.usA)
      [['-', 'l'], ['1'], ['2'], ['-', 'f'], ['-', 'n'], ['7']] :=
    .shortVal (d := Ex.lArg) (by decide) rfl (by decide) (Ex.plain '1' (by decide))
      (.free (d := Ex.lArg) rfl rfl (Ex.plain '2' (by decide))
        (.shortFlag (d := Ex.fArg) (by decide) rfl rfl Ex.hA))
  have eA : ∃ hArgv, evalArguments Ex.cfg (Ex.cfg.initState Ex.inits) {}
      (['q'] :: [['-', 'l'], ['1'], ['2'], ['-', 'f'], ['-', 'n'], ['7']]) = .ok hArgv ∧
      hArgv.args.map (·.dest) = [.int 7, .flag true, .vec [1, 2]] := by
    rw [spells_eval _ _ _ hw]; exact ⟨_, rfl, rfl⟩
  obtain ⟨hArgv, eA, hdA⟩ := eA
  obtain ⟨hf, e, hd⟩ := C07_valid_line_through_sources Ex.cfg Ex.inits
    { file := some [['-', 'l', ' ', '1'], ['#'], ['2']], env := some ['-', 'f'] } ['p'] Ex.argv hF hE Ex.hA
    ['q'] _ hw eA
    (by
      intro i d ⟨u, hu, hi⟩ hd
      simp only [Ex.usE, List.cons_append, List.nil_append, List.mem_cons, List.not_mem_nil, or_false] at hu
      rcases hu with rfl | rfl | rfl <;> simp only at hi <;> subst hi
      · have : d = Ex.lArg := by simpa [Ex.cfg] using hd.symm
        subst this; trivial
      · have : d = Ex.lArg := by simpa [Ex.cfg] using hd.symm
        subst this; trivial
      · have : d = Ex.fArg := by simpa [Ex.cfg] using hd.symm
        subst this; trivial)
  exact ⟨hf, e, by rw [hd, hdA]⟩

/-! ### non-vacuity -/
example : ArgString.splitString "-m 1,2".toList = ["-m".toList, "1,2".toList] := by decide

/-! ## Second audit follow-up: the same WORDS, the line-end condition, override from the declarative rules -/

/-- **Sources and argv are one command line of words — under the line-end condition.**  Every file line,
    the environment value and argv are read by a parser of their own.  Inside the grammar `Spells` the
    only thing read across a word boundary that a line end cuts off is the value of a key whose value
    is OPTIONAL (`-v` of a LevelCounter: `-v 3` on one line is the value 3, the two lines `-v` / `3` are
    a use without value and a free value; replayed on the real code).  `BoundaryOk` — where a line
    (the file, the environment value) ends, the words that follow (`fileWords` of the remaining lines,
    then the environment words, then argv) do not begin with a value word, or the line does not end in
    a value-less use of an optional-value argument — is required at the end of every file line that is
    not skipped (`FileSpellsC`) and at the end of the environment value (`hEb`).  Then the words of the
    non-skipped file lines, followed by the words of the environment value, followed by argv
    (`src.words ++ ws`) spell, as ONE command line, the uses the sources spell line by line. -/
theorem C07_sources_are_their_words (cfg : Cfg) (src : Sources) (ws : List Word) {usF usE usA : List Use}
    (hF : FileSrcSpellsC cfg (src.envWordList ++ ws) none usF src.file)
    (hE : EnvSrcSpells cfg (lastAfter none usF) usE src.env)
    (hEb : BoundaryOk cfg usE ws)
    (hA : Spells cfg (lastAfter none (usF ++ usE)) usA ws) :
    Spells cfg none (usF ++ usE ++ usA) (src.words ++ ws) :=
  sources_words_spell cfg none src ws hF hE hEb hA

/-- **Same destination values as the same words on the command line.**  Under the line-end condition:
    whenever the evaluation with sources is accepted and the evaluation of THE SAME WORDS — file words,
    then environment words, then argv — given on argv alone is accepted, every destination holds the
    same value in both (`C07_same_as_argv` instantiated with `ws' := src.words ++ ws`). -/
theorem C07_same_as_the_words_on_argv (cfg : Cfg) (inits : List DVal) (hin : cfg.args.length ≤ inits.length)
    (src : Sources) (prog : Word) (ws : List Word) {usF usE usA : List Use}
    (hF : FileSrcSpellsC cfg (src.envWordList ++ ws) none usF src.file)
    (hE : EnvSrcSpells cfg (lastAfter none usF) usE src.env)
    (hEb : BoundaryOk cfg usE ws)
    (hA : Spells cfg (lastAfter none (usF ++ usE)) usA ws)
    {hf : HState} (e : evalArguments cfg (cfg.initState inits) src (prog :: ws) = .ok hf)
    (prog' : Word) {hf' : HState} (e' : evalArguments cfg (cfg.initState inits) {} (prog' :: (src.words ++ ws)) = .ok hf')
    {i : Nat} {d : ArgDef} {v : DVal} (hi : cfg.args[i]? = some d) (hv : inits[i]? = some v)
    (ht : d.kind = .vecInt → ∃ l, v = .vec l) :
    ∃ st st', hf.args[i]? = some st ∧ hf'.args[i]? = some st' ∧ st.dest = st'.dest :=
  (C07_same_as_argv cfg inits hin src prog ws hF.toFileSrcSpells hE hA e hi hv ht).2 prog' _ hf'
    (C07_sources_are_their_words cfg src ws hF hE hEb hA) e'

/-- **The words accepted on argv are accepted through the sources, with the same destinations** (under
    the line-end condition, and `NoEnd` cardinalities for the arguments the sources use — both necessary:
    the replayed `-v` / `3`, and `C07_finding_list_cardinality_from_file`). -/
theorem C07_valid_words_through_sources (cfg : Cfg) (inits : List DVal)
    (src : Sources) (prog : Word) (ws : List Word) {usF usE usA : List Use}
    (hF : FileSrcSpellsC cfg (src.envWordList ++ ws) none usF src.file)
    (hE : EnvSrcSpells cfg (lastAfter none usF) usE src.env)
    (hEb : BoundaryOk cfg usE ws)
    (hA : Spells cfg (lastAfter none (usF ++ usE)) usA ws)
    (prog' : Word) {hArgv : HState}
    (eA : evalArguments cfg (cfg.initState inits) {} (prog' :: (src.words ++ ws)) = .ok hArgv)
    (hS : ∀ i d, UsedBy (usF ++ usE) i → cfg.args[i]? = some d → d.card.NoEnd) :
    ∃ hf, evalArguments cfg (cfg.initState inits) src (prog :: ws) = .ok hf ∧
      hf.args.map (·.dest) = hArgv.args.map (·.dest) :=
  C07_valid_line_through_sources cfg inits src prog ws hF.toFileSrcSpells hE hA prog' _
    (C07_sources_are_their_words cfg src ws hF hE hEb hA) eA hS

/-- **Override, from the declarative rules.**  `C07_override` with its hypothesis "accepted under
    `cfg.relax O`" (a run of the abstract model) replaced by what `rules_complete` needs: the
    configuration without the overridden cardinality objects is well formed, and the abstract line
    `usF ++ usE ++ usA` OBEYS its rules (`Obeys (cfg.relax O)`: every rule of `cfg` except the
    cardinalities selected by `O`), uses no deprecated argument and respects the LevelCounter value
    rules. -/
theorem C07_override_obeys (cfg : Cfg) (inits : List DVal) (hin : cfg.args.length ≤ inits.length) (O : Nat → Bool)
    (hsc : ∀ i d, O i = true → cfg.args[i]? = some d → d.kind ≠ .vecInt ∧ ∃ n, d.card = .max n)
    (wfR : (cfg.relax O).WellFormed)
    (src : Sources) (prog : Word) (ws : List Word) {usF usE usA : List Use}
    (hF : FileSrcSpells cfg none usF src.file)
    (hE : EnvSrcSpells cfg (lastAfter none usF) usE src.env)
    (hA : Spells cfg (lastAfter none (usF ++ usE)) usA ws)
    (ob : Obeys (cfg.relax O) inits (usF ++ usE ++ usA))
    (notDeprecated : ∀ u ∈ usF ++ usE ++ usA, ∀ d, (cfg.relax O).args[u.arg]? = some d → d.deprecated = false)
    (levels : ∀ (i : Nat) (d : ArgDef) (v : DVal), (cfg.relax O).args[i]? = some d → d.kind = .level →
      inits[i]? = some v → LevelValuesOk d (levelOf v) false false (valsOf i (usF ++ usE ++ usA)))
    (hb : ∀ i d n, O i = true → cfg.args[i]? = some d → d.card = .max n → n = -1 ∨ (usesOf i usA : Int) ≤ n)
    (hS : ∀ i d, UsedBy (usF ++ usE) i → O i = false → cfg.args[i]? = some d → d.card.NoEnd) :
    ∃ hf, evalArguments cfg (cfg.initState inits) src (prog :: ws) = .ok hf ∧
      ∀ i d v, cfg.args[i]? = some d → inits[i]? = some v → (d.kind = .vecInt → ∃ l, v = .vec l) →
        ∃ st, hf.args[i]? = some st ∧ st.dest = denote d v (valsOf i (usF ++ usE ++ usA)) := by
  have hlen : (cfg.relax O).args.length = cfg.args.length := by simp [Cfg.relax]
  obtain ⟨hR, eR⟩ := rules_complete wfR (inits := inits) (by rw [hlen]; exact hin) ob notDeprecated levels
  have hinit := relax_initState cfg O inits
  rw [hinit] at eR
  exact C07_override cfg inits hin O hsc src prog ws hF hE hA eR hb hS

/-- non-vacuity of the line-end condition and of `C07_override_obeys`: the `Ex` file obeys it — `-n 5`
    ends in a use WITH value, `-l 1` likewise (so the line `2` may follow), the environment value `-f`
    is followed by the key word `-n` -/
theorem Ex.hFC : FileSrcSpellsC Ex.cfg (Ex.src.envWordList ++ Ex.argv) none Ex.usF Ex.src.file := by
  show FileSpellsC Ex.cfg _ none Ex.usF Ex.lines
  have s1 : ArgString.splitString ['-', 'n', ' ', '5'] = [['-', 'n'], ['5']] := by decide
  have s2 : ArgString.splitString ['-', 'l', ' ', '1'] = [['-', 'l'], ['1']] := by decide
  have s3 : ArgString.splitString ['2'] = [['2']] := by decide
  have closed : ∀ (u : Use) (next : List Word), u.val ≠ [] → BoundaryOk Ex.cfg [u] next := by
    intro u next hu
    refine Or.inr ?_
    intro u' hu' d _ _
    simp only [List.getLast?_singleton, Option.some.injEq] at hu'
    subst hu'
    exact hu
  refine .skip (Or.inr rfl) (.skip (Or.inl rfl) ?_)
  refine FileSpellsC.line (us1 := [⟨0, ['5'], true⟩]) (us2 := [⟨2, ['1'], true⟩, ⟨2, ['2'], false⟩])
    (by unfold SkippedLine; decide) ?_ (closed _ _ (by decide)) ?_
  · rw [s1]
    exact .shortVal (d := Ex.nArg) (by decide) rfl (by decide) (Ex.plain '5' (by decide)) (.nil _)
  · refine FileSpellsC.line (us1 := [⟨2, ['1'], true⟩]) (us2 := [⟨2, ['2'], false⟩])
      (by unfold SkippedLine; decide) ?_ (closed _ _ (by decide)) ?_
    · rw [s2]
      exact .shortVal (d := Ex.lArg) (by decide) rfl (by decide) (Ex.plain '1' (by decide)) (.nil _)
    · refine FileSpellsC.line (us1 := [⟨2, ['2'], false⟩]) (us2 := []) (by unfold SkippedLine; decide) ?_
        (closed _ _ (by decide)) (.nil _)
      rw [s3]
      exact .free (d := Ex.lArg) rfl rfl (Ex.plain '2' (by decide)) (.nil _)

/-- … so the words of the example's sources followed by argv spell its uses as one command line:
    `-n 5 -l 1 2 -f -n 7` -/
example : Ex.src.words ++ Ex.argv = [['-', 'n'], ['5'], ['-', 'l'], ['1'], ['2'], ['-', 'f'], ['-', 'n'], ['7']] ∧
    Spells Ex.cfg none (Ex.usF ++ Ex.usE ++ Ex.usA) (Ex.src.words ++ Ex.argv) :=
  ⟨by decide, C07_sources_are_their_words Ex.cfg Ex.src Ex.argv Ex.hFC Ex.hE
    (Or.inl (Or.inr ⟨['n'], [['7']], rfl, by decide, by decide⟩)) Ex.hA⟩

/-- without a line-end condition the English sentence "same as the words on the command line" is false
    in general: LevelCounter `-v` (optional value) — the words `-v 3` on argv give level 3, the same
    words as two file lines are refused (the second line is a free value nobody takes); replayed on
    the real code (corpus/progargs/grammar_quirks.ops).  This witness lies OUTSIDE `FileSpells` (the
    line `3` has no `Spells` derivation for a non-multi-value `-v`), so it does not show that
    `BoundaryOk` cannot be dropped from the theorems; `C07_witness_line_end_in_fragment` does, for the
    spelling statement. -/
theorem C07_witness_line_end :
    (match evalArguments { args := [{ key := ⟨some 'v', []⟩, kind := .level, vmode := .optional, card := .unlimited }] }
        (Cfg.initState { args := [{ key := ⟨some 'v', []⟩, kind := .level, vmode := .optional, card := .unlimited }] } [.level 0])
        {} [['p'], ['-', 'v'], ['3']] with | .ok h => h.args.map (·.dest) | _ => []) = [.level 3] ∧
    (evalArguments { args := [{ key := ⟨some 'v', []⟩, kind := .level, vmode := .optional, card := .unlimited }] }
        (Cfg.initState { args := [{ key := ⟨some 'v', []⟩, kind := .level, vmode := .optional, card := .unlimited }] } [.level 0])
        { file := some [['-', 'v'], ['3']] } [['p']]).isOk = false := by decide +kernel

/-- non-vacuity of `C07_override_obeys`: the relaxed example configuration is well formed, the example
    line obeys its rules (obtained from `rules_sound` on the accepted relaxed run), no argument is
    deprecated, there is no LevelCounter -/
theorem Ex.relaxed : Ex.cfg.relax Ex.O = { args := [Ex.nArg.noCard, Ex.fArg, Ex.lArg] } := rfl

theorem Ex.wfR : (Ex.cfg.relax Ex.O).WellFormed := by
  rw [Ex.relaxed]
  refine ⟨by unfold Disjoint; decide, ?_, by decide, ?_, ?_⟩
  · intro d hd c hc
    simp only [List.mem_cons, List.not_mem_nil, or_false] at hd
    rcases hd with rfl | rfl | rfl <;> cases hc
  · intro g hg; cases hg
  · intro g hg; cases hg

example : ∃ hf, evalArguments Ex.cfg (Ex.cfg.initState Ex.inits) Ex.src (['p'] :: Ex.argv) = .ok hf ∧
    (∃ st, hf.args[0]? = some st ∧ st.dest = .int 7) := by
  obtain ⟨hR, eR⟩ := Ex.eR
  have eR' : evalUses (Ex.cfg.relax Ex.O) ((Ex.cfg.relax Ex.O).initState Ex.inits) (Ex.usF ++ Ex.usE ++ Ex.usA) = .ok hR := by
    rw [relax_initState]; exact eR
  have hlen : (Ex.cfg.relax Ex.O).args.length ≤ Ex.inits.length := by decide
  have ob : Obeys (Ex.cfg.relax Ex.O) Ex.inits (Ex.usF ++ Ex.usE ++ Ex.usA) := rules_sound Ex.wfR hlen eR'
  have hargs : ∀ (i : Nat) (d : ArgDef), (Ex.cfg.relax Ex.O).args[i]? = some d →
      d.deprecated = false ∧ d.kind ≠ .level := by
    intro i d hd
    rw [Ex.relaxed] at hd
    match i, hd with
    | 0, hd => cases hd; exact ⟨rfl, by decide⟩
    | 1, hd => cases hd; exact ⟨rfl, by decide⟩
    | 2, hd => cases hd; exact ⟨rfl, by decide⟩
    | n + 3, hd => simp at hd
  obtain ⟨hf, e, hd⟩ := C07_override_obeys Ex.cfg Ex.inits (by decide) Ex.O Ex.hsc Ex.wfR Ex.src ['p'] Ex.argv
    Ex.hF Ex.hE Ex.hA ob (fun u _ d hd => (hargs _ d hd).1) (fun i d v hd hk _ => absurd hk (hargs i d hd).2) Ex.hb Ex.hS
  have d0 : denote Ex.nArg (.int 0) (valsOf 0 (Ex.usF ++ Ex.usE ++ Ex.usA)) = .int 7 := by decide
  exact ⟨hf, e, by rw [← d0]; exact hd 0 Ex.nArg (.int 0) rfl rfl (fun h => by cases h)⟩

/-! ## Third audit follow-up (audit3, section 1a b–d): the bridge to `C02_parse_faithful_sources`, an
    instance of `C07_same_as_the_words_on_argv`, a line-end witness INSIDE `FileSpells` -/

/-- **Bridge: on the fragment, the derivations an accepted run delivers are the fragment derivations.**
    `C02_parse_faithful_sources` delivers, for an accepted run, derivations in the wide grammar
    (`FileSrcSpellsPlus`, `EnvSrcSpellsPlus`, `LineSpells`); the theorems of this file take derivations
    in the fragment `Spells` (`hF hE hA`).  If file, environment value and argv ARE in the fragment —
    i.e. such derivations exist, for uses `usF`, `usE`, `usA` — then
    * the log of every accepted run is `usF ++ usE ++ usA` (the fragment derivations are not an extra
      assumption about the run: they describe what it logged), and
    * every triple of wide derivations of the same input — in particular the one
      `C02_parse_faithful_sources` delivers — spells exactly `usF`, `usE`, `usA`
      (functionality of the wide grammar, `sources_functional`; `spells_SPE`: a `Spells` line is a line
      of the wide grammar with end marker `lastAfter`).
    The direction "wide derivation whose words avoid `--`, `!`, positional values ⇒ a `Spells`
    derivation exists" is NOT proved: membership in the fragment is shown by exhibiting `hF hE hA`. -/
theorem C07_fragment_is_what_the_run_spells (cfg : Cfg) (inits : List DVal) (src : Sources) (prog : Word)
    (ws : List Word) {usF usE usA : List Use}
    (hF : FileSrcSpells cfg none usF src.file)
    (hE : EnvSrcSpells cfg (lastAfter none usF) usE src.env)
    (hA : Spells cfg (lastAfter none (usF ++ usE)) usA ws)
    {hf : HState} (e : evalArguments cfg (cfg.initState inits) src (prog :: ws) = .ok hf) :
    hf.uses = usF ++ usE ++ usA ∧
    ∀ (usF' usE' usA' : List Use) (lF lE lA : Option Nat) (iF iE iA : Bool),
      FileSrcSpellsPlus cfg none false usF' src.file lF iF → EnvSrcSpellsPlus cfg lF iF usE' src.env lE iE →
      LineSpells cfg lE iE usA' ws lA iA → usF' = usF ∧ usE' = usE ∧ usA' = usA := by
  have key : ∀ (usF' usE' usA' : List Use) (lF lE lA : Option Nat) (iF iE iA : Bool),
      FileSrcSpellsPlus cfg none false usF' src.file lF iF → EnvSrcSpellsPlus cfg lF iF usE' src.env lE iE →
      LineSpells cfg lE iE usA' ws lA iA → usF' = usF ∧ usE' = usE ∧ usA' = usA := by
    intro usF' usE' usA' lF lE lA iF iE iA pF pE pA
    obtain ⟨a, b, c, _⟩ := fragment_is_the_spelling hF hE hA pF pE pA
    exact ⟨a, b, c⟩
  refine ⟨?_, key⟩
  obtain ⟨usF', usE', usA', lF, iF, lE, iE, lA, iA, sF, sE, sA, hu⟩ :=
    sources_faithful cfg (cfg.initState inits) hf src prog ws e
  obtain ⟨a, b, c⟩ := key _ _ _ _ _ _ _ _ _ sF sE sA
  rw [hu, a, b, c]
  rfl

namespace Ex2
/-- a second example on the configuration of `Ex`: file `-l 1` / `#` / `2`, environment value `-f`,
    argv `-n 7` — here the same words on argv (`-l 1 2 -f -n 7`) are accepted as well -/
def src : Sources := { file := some [['-', 'l', ' ', '1'], ['#'], ['2']], env := some ['-', 'f'] }
def usF : List Use := [⟨2, ['1'], true⟩, ⟨2, ['2'], false⟩]

theorem hFC : FileSrcSpellsC Ex.cfg (src.envWordList ++ Ex.argv) none usF src.file := by
  show FileSpellsC Ex.cfg _ none usF [['-', 'l', ' ', '1'], ['#'], ['2']]
  have s2 : ArgString.splitString ['-', 'l', ' ', '1'] = [['-', 'l'], ['1']] := by decide
  have s3 : ArgString.splitString ['2'] = [['2']] := by decide
  have closed : ∀ (u : Use) (next : List Word), u.val ≠ [] → BoundaryOk Ex.cfg [u] next := by
    intro u next hu
    refine Or.inr ?_
    intro u' hu' d _ _
    simp only [List.getLast?_singleton, Option.some.injEq] at hu'
    subst hu'
    exact hu
  refine FileSpellsC.line (us1 := [⟨2, ['1'], true⟩]) (us2 := [⟨2, ['2'], false⟩])
    (by unfold SkippedLine; decide) ?_ (closed _ _ (by decide)) (.skip (Or.inr rfl) ?_)
  · rw [s2]
    exact .shortVal (d := Ex.lArg) (by decide) rfl (by decide) (Ex.plain '1' (by decide)) (.nil _)
  · refine FileSpellsC.line (us1 := [⟨2, ['2'], false⟩]) (us2 := []) (by unfold SkippedLine; decide) ?_
      (closed _ _ (by decide)) (.nil _)
    rw [s3]
    exact .free (d := Ex.lArg) rfl rfl (Ex.plain '2' (by decide)) (.nil _)

theorem hE : EnvSrcSpells Ex.cfg (lastAfter none usF) Ex.usE src.env := by
  show Spells Ex.cfg (some 2) Ex.usE (ArgString.splitString ['-', 'f'])
  have s1 : ArgString.splitString ['-', 'f'] = [['-', 'f']] := by decide
  rw [s1]
  exact .shortFlag (d := Ex.fArg) (by decide) rfl rfl (.nil _)

theorem hEb : BoundaryOk Ex.cfg Ex.usE Ex.argv := Or.inl (Or.inr ⟨['n'], [['7']], rfl, by decide, by decide⟩)

theorem hA : Spells Ex.cfg (lastAfter none (usF ++ Ex.usE)) Ex.usA Ex.argv :=
  .shortVal (d := Ex.nArg) (by decide) rfl (by decide) (Ex.plain '7' (by decide)) (.nil _)

theorem words : src.words ++ Ex.argv = [['-', 'l'], ['1'], ['2'], ['-', 'f'], ['-', 'n'], ['7']] := by decide

/-- the same words on argv are accepted -/
theorem onArgv : ∃ hArgv, evalArguments Ex.cfg (Ex.cfg.initState Ex.inits) {} (['q'] :: (src.words ++ Ex.argv)) = .ok hArgv ∧
    hArgv.args.map (·.dest) = [.int 7, .flag true, .vec [1, 2]] := by
  have hw := C07_sources_are_their_words Ex.cfg src Ex.argv hFC hE hEb hA
  rw [spells_eval _ _ _ hw]
  exact ⟨_, rfl, rfl⟩

theorem hS : ∀ i d, UsedBy (usF ++ Ex.usE) i → Ex.cfg.args[i]? = some d → d.card.NoEnd := by
  intro i d ⟨u, hu, hi⟩ hd
  simp only [usF, Ex.usE, List.cons_append, List.nil_append, List.mem_cons, List.not_mem_nil, or_false] at hu
  rcases hu with rfl | rfl | rfl <;> simp only at hi <;> subst hi
  · have : d = Ex.lArg := by simpa [Ex.cfg] using hd.symm
    subst this; trivial
  · have : d = Ex.lArg := by simpa [Ex.cfg] using hd.symm
    subst this; trivial
  · have : d = Ex.fArg := by simpa [Ex.cfg] using hd.symm
    subst this; trivial
end Ex2

/-- **Instance of `C07_valid_words_through_sources` and of `C07_same_as_the_words_on_argv`**, every
    hypothesis discharged (file `-l 1` / `#` / `2`, environment value `-f`, argv `-n 7` against the one
    command line `-l 1 2 -f -n 7`): the run with sources is accepted, and the list destination holds
    the same value in both runs — `[1, 2]`. -/
theorem C07_same_as_the_words_on_argv_instance :
    ∃ hf hf', evalArguments Ex.cfg (Ex.cfg.initState Ex.inits) Ex2.src (['p'] :: Ex.argv) = .ok hf ∧
      evalArguments Ex.cfg (Ex.cfg.initState Ex.inits) {} (['q'] :: (Ex2.src.words ++ Ex.argv)) = .ok hf' ∧
      ∃ st st', hf.args[2]? = some st ∧ hf'.args[2]? = some st' ∧ st.dest = st'.dest ∧ st'.dest = .vec [1, 2] := by
  obtain ⟨hArgv, eA, hdA⟩ := Ex2.onArgv
  obtain ⟨hf, e, _⟩ := C07_valid_words_through_sources Ex.cfg Ex.inits Ex2.src ['p'] Ex.argv Ex2.hFC Ex2.hE Ex2.hEb
    Ex2.hA ['q'] eA Ex2.hS
  obtain ⟨st, st', h1, h2, h3⟩ := C07_same_as_the_words_on_argv Ex.cfg Ex.inits (by decide) Ex2.src ['p'] Ex.argv
    Ex2.hFC Ex2.hE Ex2.hEb Ex2.hA e ['q'] eA (i := 2) (d := Ex.lArg) (v := .vec []) rfl rfl (fun _ => ⟨[], rfl⟩)
  refine ⟨hf, hArgv, e, eA, st, st', h1, h2, h3, ?_⟩
  have : (hArgv.args.map (·.dest))[2]? = some (.vec [1, 2]) := by rw [hdA]; rfl
  rw [List.getElem?_map, h2] at this
  simpa using this

/-- … and the bridge on the same instance: the log of that accepted run is the fragment's uses -/
example (hf : HState) (e : evalArguments Ex.cfg (Ex.cfg.initState Ex.inits) Ex2.src (['p'] :: Ex.argv) = .ok hf) :
    hf.uses = Ex2.usF ++ Ex.usE ++ Ex.usA :=
  (C07_fragment_is_what_the_run_spells Ex.cfg Ex.inits Ex2.src ['p'] Ex.argv Ex2.hFC.toFileSrcSpells Ex2.hE Ex2.hA e).1

/-! ### the line-end condition is needed — a witness INSIDE `FileSpells` -/

namespace LineEnd
/-- `-v`: a list whose value is OPTIONAL and which takes multiple values
    (`setValueMode( optional)` + `setTakesMultiValue()` on a container destination) -/
def vArg : ArgDef := { key := ⟨some 'v', []⟩, kind := .vecInt, vmode := .optional, card := .unlimited, multi := true }
def cfg : Cfg := { args := [vArg] }
/-- the two file lines `-v` and `3` -/
def src : Sources := { file := some [['-', 'v'], ['3']] }
/-- what the two lines spell: a use of `-v` without value, then the FREE value 3 -/
def usF : List Use := [⟨0, [], true⟩, ⟨0, ['3'], false⟩]

/-- the file IS in the fragment (`FileSpells`): line 1 is `-v` without value, line 2 the free value 3
    of the multi-value argument used last -/
theorem hF : FileSrcSpells cfg none usF src.file := by
  show FileSpells cfg none usF [['-', 'v'], ['3']]
  have s1 : ArgString.splitString ['-', 'v'] = [['-', 'v']] := by decide
  have s2 : ArgString.splitString ['3'] = [['3']] := by decide
  refine FileSpells.line (us1 := [⟨0, [], true⟩]) (us2 := [⟨0, ['3'], false⟩]) (by unfold SkippedLine; decide) ?_ ?_
  · rw [s1]
    exact .shortOpt (d := vArg) (by decide) rfl rfl (Or.inl rfl) (.nil _)
  · refine FileSpells.line (us1 := [⟨0, ['3'], false⟩]) (us2 := []) (by unfold SkippedLine; decide) ?_ (.nil _)
    rw [s2]
    exact .free (d := vArg) rfl rfl (Ex.plain '3' (by decide)) (.nil _)

/-- the same words on ONE line spell something else: the value 3 given BY KEY -/
theorem oneLine : Spells cfg none [⟨0, ['3'], true⟩] [['-', 'v'], ['3']] :=
  .shortVal (d := vArg) (by decide) rfl (by decide) (Ex.plain '3' (by decide)) (.nil _)
end LineEnd

/-- **`BoundaryOk` cannot be dropped from `C07_sources_are_their_words`** (witness inside the
    fragment: every other hypothesis holds).  The file `-v` / `3` for a multi-value argument with
    optional value is a `FileSpells` file spelling `[-v without value, free value 3]`; no environment
    value, no argv words; but the words of the file, `-v 3`, do NOT spell these uses as one command
    line (they spell "3 by key", and the grammar is a function of the words) — and the line-end
    condition is exactly what fails: line 1 ends in a value-less use of an optional-value argument and
    the next line begins with a value word.  This is necessity for the SPELLING statement
    (`C07_sources_are_their_words`), through which `C07_same_as_the_words_on_argv` and
    `C07_valid_words_through_sources` are proved; on DESTINATIONS this witness shows no difference
    (the model gives `[9, 3]` from `[9]` both ways: a list treats "3 by key" and "free value 3"
    alike).  `C07_witness_line_end` below shows the English sentence failing on destinations, with a
    LevelCounter; that witness lies outside `FileSpells` (its `-v` is not multi-value, so the line `3`
    has no `Spells` derivation). -/
theorem C07_witness_line_end_in_fragment :
    FileSrcSpells LineEnd.cfg none LineEnd.usF LineEnd.src.file ∧
    EnvSrcSpells LineEnd.cfg (lastAfter none LineEnd.usF) [] LineEnd.src.env ∧
    Spells LineEnd.cfg (lastAfter none (LineEnd.usF ++ [])) [] [] ∧
    BoundaryOk LineEnd.cfg [] [] ∧
    ¬ Spells LineEnd.cfg none (LineEnd.usF ++ [] ++ []) (LineEnd.src.words ++ []) ∧
    ¬ BoundaryOk LineEnd.cfg [⟨0, [], true⟩] (fileWords [['3']] ++ (LineEnd.src.envWordList ++ [])) := by
  refine ⟨LineEnd.hF, rfl, .nil _, Or.inl (Or.inl rfl), ?_, ?_⟩
  · intro h
    have hw : LineEnd.src.words ++ [] = [['-', 'v'], ['3']] := by decide
    rw [hw] at h
    have := SpellsPlus_functional (spells_sub_spellsPlus h) (spells_sub_spellsPlus LineEnd.oneLine)
    revert this
    decide
  · intro h
    have hw : fileWords [['3']] ++ (LineEnd.src.envWordList ++ []) = [['3']] := by decide
    rw [hw] at h
    rcases h with h | h
    · rcases h with h | ⟨t, rest, h1, h2, h3⟩
      · cases h
      · cases h1
    · exact h ⟨0, [], true⟩ rfl LineEnd.vArg rfl rfl rfl

/-! ### the recorded finding `sub-handler-source-value-counted` (handler trees) -/

namespace FindingSub
def mArg : ArgDef := { key := ⟨some 'm', []⟩, kind := .int, vmode := .required, card := .max 1 }
def nArg : ArgDef := { key := ⟨some 'n', "num".toList⟩, kind := .int, vmode := .required, card := .max 1 }
/-- main handler: `-m` (int); sub-group argument `-s,--output` whose handler defines `-n,--num` (int) -/
def tcfg : TCfg :=
  { main := { args := [mArg], abbr := false },
    subs := [{ key := ⟨some 's', "output".toList⟩, sub := { args := [nArg], abbr := false } }] }
def t0 : TState := tcfg.initState { main := [.int 0], subs := [[.int 0]] }
def mainDest (r : Res TState) : Option (List DVal) :=
  match r with | .ok t => some (t.main.args.map (·.dest)) | _ => none
def subDest (r : Res TState) : Option (List (List DVal)) :=
  match r with | .ok t => some (t.subs.map (fun h => h.args.map (·.dest))) | _ => none
end FindingSub

/-- **Known finding `sub-handler-source-value-counted`** (the unchanged tree, C07 "can be overridden by a
    later value on the real command line", handler trees): an argument of the MAIN handler given in the
    argument file is overridden on argv (`-m 5` in the file, `-m 7` on argv ⇒ 7); an argument of the
    handler behind a SUB-GROUP argument is not — `-s -n 5` in the file is accepted, and with `-s -n 7` on
    argv the evaluation is refused (cardinality): the sub handler's read mode stays "command line" while
    the main handler reads the file, so the value from the file is counted.  Real code = model (replayed). -/
theorem C07_finding_sub_handler_source_value_counted :
    FindingSub.mainDest (evalArgumentsT FindingSub.tcfg FindingSub.t0 { file := some ["-m 5".toList] }
      ["p".toList, "-m".toList, "7".toList]) = some [.int 7] ∧
    FindingSub.subDest (evalArgumentsT FindingSub.tcfg FindingSub.t0 { file := some ["-s -n 5".toList] }
      ["p".toList]) = some [[.int 5]] ∧
    (evalArgumentsT FindingSub.tcfg FindingSub.t0 { file := some ["-s -n 5".toList] }
      ["p".toList, "-s".toList, "-n".toList, "7".toList]).isOk = false := by decide +kernel

/-- the configuration of the next witness: a multi-value list argument `-v` and a flag `-f` -/
def Continued.cfg : Cfg :=
  { args := [{ key := ⟨some 'v', []⟩, kind := .vecInt, vmode := .required, card := .unlimited, multi := true },
             { key := ⟨some 'f', []⟩, kind := .flag, vmode := .none, card := .unlimited }] }

/-- **A value list that begins in a source is continued by the free values that follow in the next source and at
    the start of the command line** (the last-argument marker survives the end of the argument file and of the
    environment value: the words are ONE sequence): file line `-v 1`, environment value `2`, argv `3 -f` give the
    same destinations as `-v 1 2 3 -f` on the command line.  A concrete instance of "same as the words on argv"
    at a cut INSIDE a separate-value list — the place the seeded change C07-5 (reset of `mpLastArg` when the
    environment value ends) breaks; the generated `source-continued` cases tie it to the real code. -/
theorem C07_witness_list_continues_across_sources :
    (match evalArguments Continued.cfg (Cfg.initState Continued.cfg [.vec [], .flag false])
        { file := some [['-', 'v', ' ', '1']], env := some ['2'] } [['p'], ['3'], ['-', 'f']] with
      | .ok h => h.args.map (·.dest) | _ => []) = [.vec [1, 2, 3], .flag true] ∧
    (match evalArguments Continued.cfg (Cfg.initState Continued.cfg [.vec [], .flag false])
        {} [['p'], ['-', 'v'], ['1'], ['2'], ['3'], ['-', 'f']] with
      | .ok h => h.args.map (·.dest) | _ => []) = [.vec [1, 2, 3], .flag true] := by decide +kernel

end CelmaVerif.Props.C07b
