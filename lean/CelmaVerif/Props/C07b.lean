import CelmaVerif.Lemmas.Spelling
import CelmaVerif.Lemmas.FileLines
import CelmaVerif.Props.C07
/-
  C07, second half — arguments from an argument file or the environment variable are evaluated by
  the same rules as command-line words.  (First half — splitting inverts quoting — in Props/C07.lean.)
-/
namespace CelmaVerif.Props.C07b
open CelmaVerif CelmaVerif.ProgArgs CelmaVerif.Keys

/-- empty lines and lines starting with `#` of the argument file are skipped -/
theorem C07_file_comment_lines (cfg : Cfg) (line : Word) (rest : List Word) (h : HState)
    (hc : line = [] ∨ line.head? = some '#') :
    readFileLines cfg (line :: rest) h = readFileLines cfg rest h := by
  simp only [readFileLines]
  rcases hc with e | e
  · subst e; simp
  · simp [e]

/-- every other line is split into words by `splitString` and the words go through the very same
    element loop as the command line (with the "from a source" flag set), then the next line -/
theorem C07_file_line_is_words (cfg : Cfg) (line : Word) (rest : List Word) (h : HState)
    (hc : ¬ (line = [] ∨ line.head? = some '#')) :
    readFileLines cfg (line :: rest) h =
      (iterateArguments cfg h (ArgString.defaultProgName :: ArgString.splitString line) >>=
        fun h' => readFileLines cfg rest h') := by
  simp only [readFileLines]
  have : (line.isEmpty || line.head? == some '#') = false := by
    cases line with
    | nil => exact absurd (Or.inl rfl) hc
    | cons c cs =>
      have : c ≠ '#' := fun e => hc (Or.inr (by rw [e]; rfl))
      simp [this]
  simp [this]

/-- the environment variable likewise: its value is split by `splitString` and evaluated by the same
    loop -/
theorem C07_env_is_words (cfg : Cfg) (e : Word) (h : HState) :
    evalEnvSource cfg (some e) h =
      (iterateArguments cfg { h with fromSrc := true } (ArgString.defaultProgName :: ArgString.splitString e) >>=
        fun h' => pure { h' with fromSrc := false }) := rfl

/-- **Same uses as on the command line.**  Take command-line words `ws` (all non-empty) that spell the
    uses `us`; write them into a file line or the environment value with each word escaped
    (backslash before blank, both quotes and backslash).  The handler then sees exactly the same
    words and applies exactly the same uses as for `ws` on argv. -/
theorem C07_escaped_line_same_uses_partial (cfg : Cfg) (h : HState) (us : List Use) (ws : List Word) (prog : Word)
    (hne : ∀ w ∈ ws, w ≠ []) (sp : Spells cfg h.lastArg us ws) :
    iterateArguments cfg h (ArgString.defaultProgName :: ArgString.splitString (ArgString.joinSp (ws.map ArgString.escape)))
      = iterateArguments cfg h (prog :: ws) := by
  rw [C07.C07_split_join ws hne, spells_iterate cfg h _ sp, spells_iterate cfg h prog sp]

/-- **Values from a source do not count towards the cardinality** of a scalar argument — which is what
    lets a later value on the real command line override them. -/
theorem C07_source_values_not_counted (h h' : HState) (i : Nat) (d : ArgDef) (v : Word) (f : Bool)
    (hsrc : h.fromSrc = true) (hk : d.kind ≠ .vecInt) (hlt : i < h.args.length)
    (he : assignValue h i d v f = .ok h') :
    (h'.args.getD i default).cnt = (h.args.getD i default).cnt :=
  assignValue_fromSrc_cnt hsrc hk hlt he

/-- **The file is its lines, with or without a final newline.**  `readArgumentFile` evaluates the
    lines `fileLines content` of the file's bytes (the `std::getline` loop).  For a file whose lines
    are all terminated these are exactly the lines; for a file whose last line is *not* terminated
    (written by `printf`, by an editor without final newline, or a one-line file) they are too — the
    arguments of the last line are evaluated like all others. -/
theorem C07_file_is_its_lines (ls : List Word) (last : Word) (h : ∀ l ∈ ls, '\n' ∉ l)
    (hl : '\n' ∉ last) (hne : last ≠ []) :
    fileLines (unlines (ls ++ [last])) = ls ++ [last] ∧ fileLines (unlines ls ++ last) = ls ++ [last] :=
  ⟨fileLines_terminated _ (by
      intro l hm
      rcases List.mem_append.mp hm with m | m
      · exact h l m
      · rw [List.mem_singleton.mp m]; exact hl),
   fileLines_unterminated ls last h hl hne⟩

/-- the pinned loop `while (!std::getline( f, line).eof())` lost the unterminated last line (repaired
    by the `fix:` commit "the last line of an argument file was ignored …"): witness kept -/
theorem C07_head_unterminated_last_line_lost (ls : List Word) (last : Word) (h : ∀ l ∈ ls, '\n' ∉ l)
    (hl : '\n' ∉ last) : fileLinesHead (unlines ls ++ last) = ls :=
  fileLinesHead_unterminated ls last h hl

example : fileLines "-n 5\n-f".toList = ["-n 5".toList, "-f".toList] ∧
    fileLines "-n 5\n-f\n".toList = ["-n 5".toList, "-f".toList] ∧
    fileLinesHead "-n 5\n-f".toList = ["-n 5".toList] ∧
    fileLines "".toList = [] ∧ fileLines "\n".toList = [[]] := by decide

/-! ### the recorded finding `list-cardinality-from-file` -/

namespace Finding
def mArg : ArgDef := { key := ⟨some 'm', []⟩, kind := .vecInt, vmode := .required, card := .exact 2 }
def cfg : Cfg := { args := [mArg] }
def h0 : HState := cfg.initState [.vec []]
end Finding

/-- `-m 1,2` for a list argument with cardinality exact:2 is accepted on the command line … -/
theorem C07_finding_list_cardinality_argv_ok :
    (evalArguments Finding.cfg Finding.h0 {} ["p".toList, "-m".toList, "1,2".toList]).isOk = true := by
  decide +kernel

/-- … and rejected when the same words come from the argument file: the list elements after the
    first are counted although they come from a source (negation of "same result as on argv") -/
theorem C07_finding_list_cardinality_from_file :
    (evalArguments Finding.cfg Finding.h0 { file := some ["-m 1,2".toList] } ["p".toList]).isOk = false := by
  decide +kernel

/-! ### non-vacuity -/
example : ArgString.splitString "-m 1,2".toList = ["-m".toList, "1,2".toList] := by decide

end CelmaVerif.Props.C07b
