import CelmaVerif.Lemmas.Pairing
import CelmaVerif.Lemmas.RulesSound
import CelmaVerif.Lemmas.ParseFaithful
import CelmaVerif.Lemmas.ParseRefuse
import CelmaVerif.Lemmas.ParseSpells
import CelmaVerif.Lemmas.RulesExample
import CelmaVerif.Lemmas.SourcesFaithful
import CelmaVerif.Lemmas.ParseRefuseWide
import CelmaVerif.Lemmas.SourcesSound
import CelmaVerif.Lemmas.SourcesFunctional
/-
  C02 — no command line that breaks a declared rule is silently accepted, at the level of argument
  vectors.  Three layers are composed:

  * parse faithfulness (Lemmas/ParseCursor.lean, ParseFaithful.lean): an accepted argument vector has
    a derivation in the declarative word grammar `SpellsPlus` (Lemmas/ParseGrammar.lean — defined over
    the words only, without the cursor model) of exactly the uses the evaluation logged;
  * the grammar itself (Lemmas/ParseRefuse.lean): every key in a derivation resolves, every key whose
    argument requires a value is followed by a value element;
  * the rules layer (Lemmas/RulesSound.lean, per-rule statements in Props/C02.lean): accepted uses
    obey every declared rule.
-/
namespace CelmaVerif.Props.C02b
open CelmaVerif CelmaVerif.ProgArgs CelmaVerif.Keys

/-- **Parse faithfulness.**  If evaluating the argument vector `prog :: ws` returns normally, the words
    `ws` spell — in the declarative grammar `SpellsPlus`, which is defined over the words alone — exactly
    the uses the evaluation logged (`hf.uses`: which argument got which value, by key or as a free
    value, in order).  `SpellsPlus` contains every form of `Spells` (`C02_grammar_extends_spells`) and
    the forms `Spells` leaves out: the separator `--`, `!` (accepted only when no use follows),
    values of the positional argument, `--flag=value` read as flag + value element, a dash inside a
    group of short keys (`-a-` = `-a --`, `-a-name` = `-a --name`).  Nothing reaches the log that the
    words do not spell: a handler that skipped a word with an unknown key, or invented a value for a key
    that needs one, would violate this theorem. -/
theorem C02_parse_faithful (cfg : Cfg) (inits : List DVal) (prog : Word) (ws : List Word) (hf : HState)
    (he : evalArguments cfg (cfg.initState inits) {} (prog :: ws) = .ok hf) : SpellsPlus cfg hf.uses ws := by
  obtain ⟨us, sp, hu⟩ := parse_faithful cfg (cfg.initState inits) hf prog ws rfl rfl he
  have : hf.uses = us := by rw [hu]; rfl
  rw [this]; exact sp

/-- **Soundness of acceptance, stated over the words.**  For every well-formed configuration of the
    modelled fragment and EVERY argument vector: if the evaluation returns normally then there is an
    abstract command line `us` that the words spell (`SpellsPlus`) and that obeys every declared rule
    (`Obeys`: mandatory arguments present, every value converted and checked, cardinalities respected,
    no key occurrence after an excluding argument, every requirement met by a later key occurrence,
    every all-of / any-of / one-of / differ / disjoint constraint met) — and it is the one the handler
    acted on.  Every other command line ends with an exception (`C04_eval_safe`: never anything else). -/
theorem C02_sound_words (cfg : Cfg) (wf : cfg.WellFormed) (inits : List DVal) (hin : cfg.args.length ≤ inits.length)
    (prog : Word) (ws : List Word) (hf : HState)
    (he : evalArguments cfg (cfg.initState inits) {} (prog :: ws) = .ok hf) :
    ∃ us, SpellsPlus cfg us ws ∧ Obeys cfg inits us ∧ hf.uses = us := by
  obtain ⟨us, hu, g, hg, _⟩ := evalArguments_replays cfg (cfg.initState inits) hf (prog :: ws) rfl he
  have hus : hf.uses = us := by rw [hu]; rfl
  exact ⟨us, hus ▸ C02_parse_faithful cfg inits prog ws hf he, rules_sound wf hin hg, hus⟩

/-- **Soundness of acceptance for the use log** (the rules half of `C02_sound_words`, kept under its
    old name): if evaluating ANY argument vector returns normally, the uses the evaluation LOGGED
    (`hf.uses`, a ghost field of the model written by `assignValue`) obey every declared rule.  On its
    own this says nothing about the relation between the log and the words of `argv`; that relation is
    `C02_parse_faithful`. -/
theorem C02_sound (cfg : Cfg) (wf : cfg.WellFormed) (inits : List DVal) (hin : cfg.args.length ≤ inits.length)
    (argv : List Word) (hf : HState)
    (he : evalArguments cfg (cfg.initState inits) {} argv = .ok hf) : Obeys cfg inits hf.uses := by
  obtain ⟨us, hu, g, hg, _⟩ := evalArguments_replays cfg (cfg.initState inits) hf argv rfl he
  have : hf.uses = us := by rw [hu]; rfl
  rw [this]
  exact rules_sound wf hin hg

/-- **Every key is known (short keys).**  A word `-c…` anywhere on the command line — behind words none
    of which both starts and ends with a dash (such a word can be the separator `--`, behind which
    everything is a value) — whose first key character `c` does not resolve to an argument (`findArg`
    answers "none", or "ambiguous") makes the evaluation end with an exception: it never returns
    normally, whatever else is on the line. -/
theorem C02_unknown_short_key_refused (cfg : Cfg) (inits : List DVal) (prog : Word) (pre post : List Word)
    (c : Char) (t : Word) (hpre : ∀ u ∈ pre, NoSep u) (hc : c ≠ '-')
    (hunk : ∀ i d, findArg cfg.abbr cfg.table (Key.ofChar c) ≠ .ok (some (i, d))) (hf : HState) :
    evalArguments cfg (cfg.initState inits) {} (prog :: (pre ++ ('-' :: c :: t) :: post)) ≠ .ok hf := by
  intro he
  exact SpellsPlus_unknown_short cfg pre post c t hf.uses hpre hc hunk (C02_parse_faithful cfg inits prog _ hf he)

/-- … in particular when no defined argument has the short key `c` (declarative reason for "does not
    resolve", abbreviations on or off) -/
theorem C02_undefined_short_key_refused (cfg : Cfg) (inits : List DVal) (prog : Word) (pre post : List Word)
    (c : Char) (t : Word) (hpre : ∀ u ∈ pre, NoSep u) (hc : c ≠ '-') (hc0 : c ≠ '\x00')
    (hno : ∀ d ∈ cfg.args, d.key.short ≠ some c) (hf : HState) :
    evalArguments cfg (cfg.initState inits) {} (prog :: (pre ++ ('-' :: c :: t) :: post)) ≠ .ok hf := by
  apply C02_unknown_short_key_refused cfg inits prog pre post c t hpre hc
  intro i d h
  rw [findArg_short_unknown cfg c hc0 hno] at h
  cases h

/-- **Every key is known (long keys).**  A word `--name` or `--name=value` (same positions as above)
    whose name is not a key specification, or is one that does not resolve to an argument (unknown, or
    an ambiguous abbreviation, or abbreviations are off), makes the evaluation end with an exception.
    `wordKey name` is the key the handler looks the name up with: `Key.parse name`, and for a name of
    one character `Key.parse "--c"`, the LONG key `c` (`fix:` for the finding one-char-long-key). -/
theorem C02_unknown_long_key_refused (cfg : Cfg) (inits : List DVal) (prog : Word) (pre post : List Word)
    (b : Char) (r : Word) (hpre : ∀ u ∈ pre, NoSep u)
    (hunk : ∀ k i d, wordKey ((b :: r).takeWhile (· != '=')) = .ok k → findArg cfg.abbr cfg.table k ≠ .ok (some (i, d)))
    (hf : HState) :
    evalArguments cfg (cfg.initState inits) {} (prog :: (pre ++ ('-' :: '-' :: b :: r) :: post)) ≠ .ok hf := by
  intro he
  exact SpellsPlus_unknown_long cfg pre post b r hf.uses hpre hunk (C02_parse_faithful cfg inits prog _ hf he)

/-- **Every argument that needs a value has one (short key).**  A word `-c` whose argument requires a
    value and that is the last word, or is followed by a word that starts with a dash and is not the
    separator `--`, makes the evaluation end with an exception (never a normal return with an invented
    or empty value). -/
theorem C02_missing_value_refused_short (cfg : Cfg) (inits : List DVal) (prog : Word) (pre post : List Word)
    (c : Char) (i : Nat) (d : ArgDef) (hpre : ∀ u ∈ pre, NoSep u) (hc : c ≠ '-')
    (hr : findArg cfg.abbr cfg.table (Key.ofChar c) = .ok (some (i, d))) (hm : d.vmode = .required)
    (hpost : NoValueWord post) (hf : HState) :
    evalArguments cfg (cfg.initState inits) {} (prog :: (pre ++ ['-', c] :: post)) ≠ .ok hf := by
  intro he
  exact SpellsPlus_missing_value_short cfg pre post c i d hf.uses hpre hc hr hm hpost
    (C02_parse_faithful cfg inits prog _ hf he)

/-- **Every argument that needs a value has one (long key).**  The same for a word `--name` (without
    `=`), exact or abbreviated. -/
theorem C02_missing_value_refused_long (cfg : Cfg) (inits : List DVal) (prog : Word) (pre post : List Word)
    (b : Char) (r : Word) (k : Key) (i : Nat) (d : ArgDef) (hpre : ∀ u ∈ pre, NoSep u) (hne : '=' ∉ b :: r)
    (hk : wordKey (b :: r) = .ok k) (hr : findArg cfg.abbr cfg.table k = .ok (some (i, d)))
    (hm : d.vmode = .required) (hpost : NoValueWord post) (hf : HState) :
    evalArguments cfg (cfg.initState inits) {} (prog :: (pre ++ ('-' :: '-' :: b :: r) :: post)) ≠ .ok hf := by
  intro he
  exact SpellsPlus_missing_value_long cfg pre post b r k i d hf.uses hpre hne hk hr hm hpost
    (C02_parse_faithful cfg inits prog _ hf he)

/-- the grammar of `C02_parse_faithful` contains the grammar `Spells` of C01/C03 -/
theorem C02_grammar_extends_spells (cfg : Cfg) (us : List Use) (ws : List Word) (hs : Spells cfg none us ws) :
    SpellsPlus cfg us ws :=
  spells_sub_spellsPlus hs

/-- Loop-level lemma (definitional: one unfolding of `iterateLoop`; the statements about unknown keys
    on a command line are `C02_unknown_short_key_refused` / `C02_unknown_long_key_refused`): an element
    that `evalSingleArgument` classifies as unknown ends the loop with std::invalid_argument. -/
theorem C02_unknown_element_refused (cfg : Cfg) (fuel : Nat) (h h' : HState) (ai ai' : It)
    (hne : ai.atEnd = false) (he : evalSingleArgument cfg h ai = .ok (h', ai', .unknown)) :
    iterateLoop cfg (fuel + 1) h ai = .throw .invalid_argument := by
  unfold iterateLoop
  simp [hne, he]

/-! ### non-vacuity (`RulesExample.cfg`: `-v,--verbose` flag; `-n,--num` int, value required;
    `-o,--out`; `-q,--quiet`; `-l,--list`) -/

section Examples
open CelmaVerif.ProgArgs.RulesExample

/-- the argument `-n,--num` of `RulesExample.cfg` (index 1) -/
def argN : ArgDef := RulesExample.cfg.args.getD 1 default

/-- an accepted line with the separator: `-q -n -- 5` -/
example : (evalArguments RulesExample.cfg (RulesExample.cfg.initState RulesExample.inits) {}
    ["p".toList, "-q".toList, "-n".toList, "--".toList, "5".toList]).isOk = true := by decide +kernel

/-- … and `C02_sound_words` applies to it: it spells uses that obey the rules -/
example : ∃ us, SpellsPlus RulesExample.cfg us ["-q".toList, "-n".toList, "--".toList, "5".toList] ∧
    Obeys RulesExample.cfg RulesExample.inits us := by
  cases e : evalArguments RulesExample.cfg (RulesExample.cfg.initState RulesExample.inits) {}
      ["p".toList, "-q".toList, "-n".toList, "--".toList, "5".toList] with
  | ok hf =>
    obtain ⟨us, h1, h2, _⟩ := C02_sound_words _ cfg_wf _ (by decide) _ _ hf e
    exact ⟨us, h1, h2⟩
  | throw x =>
    exact absurd (show (evalArguments RulesExample.cfg (RulesExample.cfg.initState RulesExample.inits) {}
      ["p".toList, "-q".toList, "-n".toList, "--".toList, "5".toList]).isOk = true by decide +kernel) (by rw [e]; simp [Res.isOk])
  | oob x =>
    exact absurd (show (evalArguments RulesExample.cfg (RulesExample.cfg.initState RulesExample.inits) {}
      ["p".toList, "-q".toList, "-n".toList, "--".toList, "5".toList]).isOk = true by decide +kernel) (by rw [e]; simp [Res.isOk])

/-- `-q -x`: no argument has the short key `x` — refused by `C02_undefined_short_key_refused`
    (`pre = ["-q"]`, all hypotheses by `decide`) -/
example (hf : HState) : evalArguments RulesExample.cfg (RulesExample.cfg.initState RulesExample.inits) {}
    ("p".toList :: (["-q".toList] ++ ('-' :: 'x' :: []) :: [])) ≠ .ok hf :=
  C02_undefined_short_key_refused RulesExample.cfg RulesExample.inits "p".toList ["-q".toList] [] 'x' []
    (by decide) (by decide) (by decide) (by decide) hf

/-- `-q --nosuch`: refused by `C02_unknown_long_key_refused` -/
example (hf : HState) : evalArguments RulesExample.cfg (RulesExample.cfg.initState RulesExample.inits) {}
    ("p".toList :: (["-q".toList] ++ ('-' :: '-' :: 'n' :: "osuch".toList) :: [])) ≠ .ok hf :=
  C02_unknown_long_key_refused RulesExample.cfg RulesExample.inits "p".toList ["-q".toList] [] 'n' "osuch".toList
    (by decide) (by
      intro k i d hk
      have h2 : wordKey (('n' :: "osuch".toList).takeWhile (· != '=')) = .ok ⟨none, "nosuch".toList⟩ := by rfl
      rw [h2] at hk
      cases hk
      intro h
      have h3 : findArg RulesExample.cfg.abbr RulesExample.cfg.table ⟨none, "nosuch".toList⟩ = .ok none := by rfl
      rw [h3] at h
      cases h) hf

/-- `-q -n` (value missing at the end) and `-q -n -v` (a key follows): refused by
    `C02_missing_value_refused_short` -/
example (hf : HState) :
    evalArguments RulesExample.cfg (RulesExample.cfg.initState RulesExample.inits) {}
      ("p".toList :: (["-q".toList] ++ ['-', 'n'] :: [])) ≠ .ok hf ∧
    evalArguments RulesExample.cfg (RulesExample.cfg.initState RulesExample.inits) {}
      ("p".toList :: (["-q".toList] ++ ['-', 'n'] :: ["-v".toList])) ≠ .ok hf :=
  ⟨C02_missing_value_refused_short RulesExample.cfg RulesExample.inits "p".toList ["-q".toList] [] 'n' 1 argN
      (by decide) (by decide) (by rfl) (by rfl) (Or.inl rfl) hf,
   C02_missing_value_refused_short RulesExample.cfg RulesExample.inits "p".toList ["-q".toList] ["-v".toList] 'n' 1 argN
      (by decide) (by decide) (by rfl) (by rfl) (Or.inr ⟨['v'], [], rfl, by decide⟩) hf⟩

/-- `-q --num` (abbreviations: `--nu`) without a value: refused by `C02_missing_value_refused_long` -/
example (hf : HState) :
    evalArguments RulesExample.cfg (RulesExample.cfg.initState RulesExample.inits) {}
      ("p".toList :: (["-q".toList] ++ ('-' :: '-' :: 'n' :: ['u']) :: [])) ≠ .ok hf :=
  C02_missing_value_refused_long RulesExample.cfg RulesExample.inits "p".toList ["-q".toList] [] 'n' ['u']
    ⟨none, "nu".toList⟩ 1 argN (by decide) (by decide) (by rfl) (by rfl) (by rfl) (Or.inl rfl) hf

end Examples

/-! ## Second audit follow-up: argument file and environment value, wide refusal forms, the grammar as a function

  Everything above is stated for an evaluation without sources (`Sources = {}`).  The theorems below are
  stated for `evalArguments` with ANY `Sources` (argument file lines, environment value — absent or
  present) and contain the command-line-only statements as the case `src = {}`. -/

/-- **Parse faithfulness with sources.**  If evaluating `prog :: ws` with an argument file and / or an
    environment value returns normally, then — nothing being assumed about the file — its lines, read
    one after the other by the declarative grammar (`FileSpellsPlus`: comment and empty lines spell
    nothing; every other line is split by `splitString` and read as a line of the command-line grammar
    `SP`, from the last-argument marker and `!` flag the line before left; each line has its own
    parser: a first word `!`/`(`/`)` is a value, "behind `--`" ends with the line), then the words of the
    environment value, then `ws` spell exactly the uses the evaluation logged, in this order
    ("exactly": the spelling is unique, `C02_sources_spelling_unambiguous` below — what file,
    environment value and argv spell is a function of them).  A reader
    that skipped a word with an unknown key, dropped a line it could not evaluate, or invented a value
    would violate this theorem (there would be no derivation for the file). -/
theorem C02_parse_faithful_sources (cfg : Cfg) (inits : List DVal) (src : Sources) (prog : Word) (ws : List Word)
    (hf : HState) (he : evalArguments cfg (cfg.initState inits) src (prog :: ws) = .ok hf) :
    ∃ usF usE usA lF iF lE iE lA iA,
      FileSrcSpellsPlus cfg none false usF src.file lF iF ∧
      EnvSrcSpellsPlus cfg lF iF usE src.env lE iE ∧
      LineSpells cfg lE iE usA ws lA iA ∧
      hf.uses = usF ++ usE ++ usA := by
  obtain ⟨usF, usE, usA, lF, iF, lE, iE, lA, iA, sF, sE, sA, hu⟩ :=
    sources_faithful cfg (cfg.initState inits) hf src prog ws he
  exact ⟨usF, usE, usA, lF, iF, lE, iE, lA, iA, sF, sE, sA, by rw [hu]; rfl⟩

/-- **Soundness of acceptance with sources** (PARTIAL: every rule of `Obeys` except (1) the
    cardinalities — a value that comes from a source is deliberately not counted, C07 "can be
    overridden", so "no argument is used more often than its cardinality allows" does not hold of
    `usF ++ usE ++ usA`; what holds for the values given on argv is not stated here — and (2) the value
    constraints differ / disjoint, whose invariant is only proved for command-line mode).
    For every well-formed configuration, EVERY argument file, environment value and argv: if the
    evaluation returns normally, the uses it logged are spelled by the sources and argv
    (`C02_parse_faithful_sources`) and obey: every mandatory argument is present, every value converts
    and passes all attached checks, no key occurrence after an excluding argument, every requirement
    met by a later key occurrence, every all-of / any-of / one-of constraint met. -/
theorem C02_sound_sources_partial (cfg : Cfg) (wf : cfg.WellFormed) (inits : List DVal)
    (hin : cfg.args.length ≤ inits.length) (src : Sources) (prog : Word) (ws : List Word) (hf : HState)
    (he : evalArguments cfg (cfg.initState inits) src (prog :: ws) = .ok hf) :
    ∃ usF usE usA lF iF lE iE lA iA,
      FileSrcSpellsPlus cfg none false usF src.file lF iF ∧
      EnvSrcSpellsPlus cfg lF iF usE src.env lE iE ∧
      LineSpells cfg lE iE usA ws lA iA ∧
      hf.uses = usF ++ usE ++ usA ∧
      ObeysFromSources cfg inits (usF ++ usE ++ usA) := by
  obtain ⟨usF, usE, usA, lF, iF, lE, iE, lA, iA, sF, sE, sA, hu⟩ :=
    C02_parse_faithful_sources cfg inits src prog ws hf he
  exact ⟨usF, usE, usA, lF, iF, lE, iE, lA, iA, sF, sE, sA, hu, hu ▸ sources_rules_sound wf hin he⟩

/-- **Every key is known — short keys, every source, any position in the word.**  Take any line of
    words the evaluation reads (`InputLine`: argv, the words of a file line that is not skipped, the
    words of the environment value).  If it contains a word `-g…c…` — behind words none of which IS a
    separator (`IsSep`: `--`, `-a-`; `--out=-` is none), the key characters `g` in front of `c` not
    belonging to an argument that requires a value (then the rest of the word would be that value) —
    whose key character `c` does not resolve to an argument, the evaluation never returns normally. -/
theorem C02_unknown_short_key_refused_wide (cfg : Cfg) (inits : List DVal) (src : Sources) (prog : Word)
    (ws line pre post : List Word) (g : Word) (c : Char) (t : Word) (hl : InputLine src ws line)
    (hline : line = pre ++ ('-' :: (g ++ c :: t)) :: post) (hpre : ∀ u ∈ pre, IsSep u = false) (hg : GroupOk cfg g)
    (hc : c ≠ '-') (hunk : ∀ i d, findArg cfg.abbr cfg.table (Key.ofChar c) ≠ .ok (some (i, d))) (hf : HState) :
    evalArguments cfg (cfg.initState inits) src (prog :: ws) ≠ .ok hf := by
  intro he
  obtain ⟨l, inv, us, sp⟩ := input_line_spelled cfg _ hf src prog ws line he hl
  rw [hline] at sp
  exact line_unknown_short cfg l inv pre post g c t us hpre hg hc hunk sp

/-- … in particular when no defined argument has the short key `c` -/
theorem C02_undefined_short_key_refused_wide (cfg : Cfg) (inits : List DVal) (src : Sources) (prog : Word)
    (ws line pre post : List Word) (g : Word) (c : Char) (t : Word) (hl : InputLine src ws line)
    (hline : line = pre ++ ('-' :: (g ++ c :: t)) :: post) (hpre : ∀ u ∈ pre, IsSep u = false) (hg : GroupOk cfg g)
    (hc : c ≠ '-') (hc0 : c ≠ '\x00') (hno : ∀ d ∈ cfg.args, d.key.short ≠ some c) (hf : HState) :
    evalArguments cfg (cfg.initState inits) src (prog :: ws) ≠ .ok hf := by
  apply C02_unknown_short_key_refused_wide cfg inits src prog ws line pre post g c t hl hline hpre hg hc
  intro i d h
  rw [findArg_short_unknown cfg c hc0 hno] at h
  cases h

/-- **Every key is known — long names, every source.**  A word `--name[=v]`, or a name behind a dash
    inside a group of short keys (`-ab-name`), whose name is no key specification or does not resolve. -/
theorem C02_unknown_long_key_refused_wide (cfg : Cfg) (inits : List DVal) (src : Sources) (prog : Word)
    (ws line pre post : List Word) (g : Word) (b : Char) (r : Word) (hl : InputLine src ws line)
    (hline : line = pre ++ ('-' :: (g ++ '-' :: b :: r)) :: post) (hpre : ∀ u ∈ pre, IsSep u = false)
    (hg : GroupOk cfg g)
    (hunk : ∀ k i d, wordKey ((b :: r).takeWhile (· != '=')) = .ok k → findArg cfg.abbr cfg.table k ≠ .ok (some (i, d)))
    (hf : HState) : evalArguments cfg (cfg.initState inits) src (prog :: ws) ≠ .ok hf := by
  intro he
  obtain ⟨l, inv, us, sp⟩ := input_line_spelled cfg _ hf src prog ws line he hl
  rw [hline] at sp
  exact line_unknown_long cfg l inv pre post g b r us hpre hg hunk sp

/-- … declaratively: `--name` (a key word: not empty, no leading dash, no blank, no comma, no `=`) such
    that NO defined long key begins with `name` (so it is neither a long key nor an abbreviation of
    one) is refused — with abbreviations on or off, from every source. -/
theorem C02_undefined_long_key_refused (cfg : Cfg) (inits : List DVal) (src : Sources) (prog : Word)
    (ws line pre post : List Word) (g : Word) (b : Char) (r : Word) (hl : InputLine src ws line)
    (hline : line = pre ++ ('-' :: (g ++ '-' :: b :: r)) :: post) (hpre : ∀ u ∈ pre, IsSep u = false)
    (hg : GroupOk cfg g) (hne : '=' ∉ b :: r) (hw : KeyWord (b :: r))
    (hno : ∀ d ∈ cfg.args, ¬ (b :: r) <+: d.key.long) (hf : HState) :
    evalArguments cfg (cfg.initState inits) src (prog :: ws) ≠ .ok hf :=
  C02_unknown_long_key_refused_wide cfg inits src prog ws line pre post g b r hl hline hpre hg
    (long_name_unresolved cfg b r hne hw hno) hf

/-- **Every argument that needs a value has one — short key, every source.**  A required-value key `c`
    that is the LAST character of its word (`-c`, or at the end of a group `-abc`) and is followed by
    nothing, by a dashed word other than `--`, or by a lone `!`, `(`, `)`. -/
theorem C02_missing_value_refused_short_wide (cfg : Cfg) (inits : List DVal) (src : Sources) (prog : Word)
    (ws line pre post : List Word) (g : Word) (c : Char) (i : Nat) (d : ArgDef) (hl : InputLine src ws line)
    (hline : line = pre ++ ('-' :: (g ++ [c])) :: post) (hpre : ∀ u ∈ pre, IsSep u = false) (hg : GroupOk cfg g)
    (hc : c ≠ '-') (hr : findArg cfg.abbr cfg.table (Key.ofChar c) = .ok (some (i, d))) (hm : d.vmode = .required)
    (hpost : NoValueWordW post) (hf : HState) :
    evalArguments cfg (cfg.initState inits) src (prog :: ws) ≠ .ok hf := by
  intro he
  obtain ⟨l, inv, us, sp⟩ := input_line_spelled cfg _ hf src prog ws line he hl
  rw [hline] at sp
  exact line_missing_value_short cfg l inv pre post g c i d us hpre hg hc hr hm hpost sp

/-- **… long name, every source.** -/
theorem C02_missing_value_refused_long_wide (cfg : Cfg) (inits : List DVal) (src : Sources) (prog : Word)
    (ws line pre post : List Word) (g : Word) (b : Char) (r : Word) (k : Key) (i : Nat) (d : ArgDef)
    (hl : InputLine src ws line) (hline : line = pre ++ ('-' :: (g ++ '-' :: b :: r)) :: post)
    (hpre : ∀ u ∈ pre, IsSep u = false) (hg : GroupOk cfg g) (hne : '=' ∉ b :: r)
    (hk : wordKey (b :: r) = .ok k) (hr : findArg cfg.abbr cfg.table k = .ok (some (i, d)))
    (hm : d.vmode = .required) (hpost : NoValueWordW post) (hf : HState) :
    evalArguments cfg (cfg.initState inits) src (prog :: ws) ≠ .ok hf := by
  intro he
  obtain ⟨l, inv, us, sp⟩ := input_line_spelled cfg _ hf src prog ws line he hl
  rw [hline] at sp
  exact line_missing_value_long cfg l inv pre post g b r k i d us hpre hg hne hk hr hm hpost sp

/-- **The grammar is a function of the words**: two derivations over the same words spell the same uses.
    So in `C02_parse_faithful` / `C02_sound_words` the ghost log `hf.uses` is determined by `ws` alone. -/
theorem C02_spelling_unambiguous (cfg : Cfg) (ws : List Word) (us us' : List Use)
    (h : SpellsPlus cfg us ws) (h' : SpellsPlus cfg us' ws) : us = us' :=
  SpellsPlus_functional h h'

/-- **The grammar of the sources is a function of what is read** (audit3, 1a.a).  Two derivations of
    the same argument file (or none), environment value (or none) and argv, read from the same
    last-argument marker and `!` flag, spell the same three use lists and end in the same state.  For a
    file the state at the end of a line is the start state of the next one, so this needs
    functionality of one line INCLUDING its end state (`SPE_functional`, Lemmas/SourcesFunctional.lean);
    a skipped line and a read line exclude each other (`SkippedLine`).  Hence in
    `C02_parse_faithful_sources` / `C02_sound_sources_partial` the three lists `usF`, `usE`, `usA` — and
    the ghost log `hf.uses` — are determined by file, environment value and argv alone. -/
theorem C02_sources_spelling_unambiguous (cfg : Cfg) (l0 : Option Nat) (inv0 : Bool) (src : Sources) (ws : List Word)
    {usF usE usA usF' usE' usA' : List Use} {lF lE lA lF' lE' lA' : Option Nat} {iF iE iA iF' iE' iA' : Bool}
    (hF : FileSrcSpellsPlus cfg l0 inv0 usF src.file lF iF) (hE : EnvSrcSpellsPlus cfg lF iF usE src.env lE iE)
    (hA : LineSpells cfg lE iE usA ws lA iA)
    (hF' : FileSrcSpellsPlus cfg l0 inv0 usF' src.file lF' iF') (hE' : EnvSrcSpellsPlus cfg lF' iF' usE' src.env lE' iE')
    (hA' : LineSpells cfg lE' iE' usA' ws lA' iA') :
    usF = usF' ∧ usE = usE' ∧ usA = usA' ∧ lA = lA' ∧ iA = iA' :=
  sources_functional hF hE hA hF' hE' hA'

/-- … so the log of an accepted evaluation with sources is a function of file, environment value and
    argv: two accepted evaluations of the same sources and words — whatever the initial destination
    values and the program name — log the same uses. -/
theorem C02_sources_log_determined (cfg : Cfg) (inits inits' : List DVal) (src : Sources) (prog prog' : Word)
    (ws : List Word) (hf hf' : HState)
    (he : evalArguments cfg (cfg.initState inits) src (prog :: ws) = .ok hf)
    (he' : evalArguments cfg (cfg.initState inits') src (prog' :: ws) = .ok hf') : hf.uses = hf'.uses := by
  obtain ⟨usF, usE, usA, lF, iF, lE, iE, lA, iA, sF, sE, sA, hu⟩ := C02_parse_faithful_sources cfg inits src prog ws hf he
  obtain ⟨usF', usE', usA', lF', iF', lE', iE', lA', iA', sF', sE', sA', hu'⟩ :=
    C02_parse_faithful_sources cfg inits' src prog' ws hf' he'
  obtain ⟨a, b, c, _⟩ := C02_sources_spelling_unambiguous cfg none false src ws sF sE sA sF' sE' sA'
  rw [hu, hu', a, b, c]

/-- **The word classifier of C05 is the grammar's tokenizer.**  `classifyWord` (Model/KeysCmdline.lean,
    the hand classifier behind `C05_cmdline_exact`) and `cmdKey` agree with `nextTok` / `KeyTok` on the
    two plain key words `-c` and `--name`: the element is the one announced, the reading stands behind
    the word, and the key attached to the element is `cmdKey`'s. -/
theorem C02_key_word_is_grammar_element (w : List Char) (cw : CmdWord) (f : Bool) (ws : List Word)
    (h : classifyWord w = some cw) :
    nextTok false (.bnd false f (w :: ws)) = .tok (tokOf cw) (.bnd false false ws) ∧
    ∀ k, KeyTok (tokOf cw) k ↔ cmdKey cw = .ok k :=
  ⟨classify_is_nextTok w cw f ws h, keyTok_tokOf cw⟩

/-! ### judgement calls of the grammar, as machine-checked witnesses (each replayed on the real code:
    corpus/progargs/grammar_quirks.ops)

  `QuirkCfg`: `-f` flag, `-b,--beta` flag, `-n,--num` int, positional string argument (key `-`). -/

namespace Quirk
def cfg : Cfg :=
  { args := [ { key := ⟨some 'f', []⟩, kind := .flag, vmode := .none, card := .max 1 },
              { key := ⟨some 'b', "beta".toList⟩, kind := .flag, vmode := .none, card := .max 1 },
              { key := ⟨some 'n', "num".toList⟩, kind := .int, vmode := .required, card := .max 1 },
              { key := Key.pos, kind := .str, vmode := .required, card := .max 1 } ] }
def inits : List DVal := [.flag false, .flag false, .int 0, .str []]
def dests (r : Res HState) : Option (List DVal) := match r with | .ok h => some (h.args.map (·.dest)) | _ => none
def run (ws : List String) : Option (List DVal) :=
  dests (evalArguments cfg (cfg.initState inits) {} ("p".toList :: ws.map String.toList))
def runFile (lines : List String) : Option (List DVal) :=
  dests (evalArguments cfg (cfg.initState inits) { file := some (lines.map String.toList) } ["p".toList])
end Quirk

/-- (a) the FIRST word of a line is never a control character: `! -f` hands `!` to the positional
    argument; a later `!` is the inversion word (accepted when no use follows: `-f !`) -/
theorem C02_witness_first_word_is_value :
    Quirk.run ["!", "-f"] = some [.flag true, .flag false, .int 0, .str "!".toList] ∧
    Quirk.run ["-f", "!"] = some [.flag true, .flag false, .int 0, .str []] ∧
    Quirk.run ["-f", "!", "-b"] = none := by decide +kernel

/-- (b) a dash inside a group of short keys starts a long name, a dash that ends it is the separator:
    `-f-b` = `-f --b` (an abbreviation of `--beta`), `-f- -b` = `-f -- -b` (`-b` is a positional value) -/
theorem C02_witness_dash_in_group :
    Quirk.run ["-f-b"] = some [.flag true, .flag true, .int 0, .str []] ∧
    Quirk.run ["-f-", "-b"] = some [.flag true, .flag false, .int 0, .str "-b".toList] := by decide +kernel

/-- (c) `--flag=value` on an argument that takes no value: the flag is set and `value` is read as a
    separate value element — it goes to the positional argument when one is defined (accepted!), and
    is refused otherwise.  No declared rule of C02 is broken (the abstract line "beta; positional x"
    obeys every rule), but the text `--beta=x` does not reach the argument it names: judgement call,
    see design_notes/parse.md "Judgement calls". -/
theorem C02_witness_flag_eq_value_goes_to_positional :
    Quirk.run ["--beta=x"] = some [.flag false, .flag true, .int 0, .str "x".toList] := by decide +kernel

/-- each file line has its own parser: `--` on one line does not make the next line a value, and a key
    at the end of a line does not take the next line as its value -/
theorem C02_witness_file_lines_are_separate :
    Quirk.runFile ["--", "-f"] = some [.flag true, .flag false, .int 0, .str []] ∧
    Quirk.run ["--", "-f"] = some [.flag false, .flag false, .int 0, .str "-f".toList] ∧
    Quirk.runFile ["-n", "5"] = none ∧
    Quirk.runFile ["-n 5"] = some [.flag false, .flag false, .int 5, .str []] := by decide +kernel

section ExamplesSources
open CelmaVerif.ProgArgs.RulesExample

/-- an accepted evaluation with a file (comment line, `-q`, `-n 5`) and an environment value (`-o f`):
    `C02_sound_sources_partial` applies (non-vacuity of its hypotheses) -/
example : ∃ hf, evalArguments RulesExample.cfg (RulesExample.cfg.initState RulesExample.inits)
      { file := some ["# c".toList, "-q".toList, "-o f".toList], env := some "-n 5".toList } ["p".toList] = .ok hf ∧
    ObeysFromSources RulesExample.cfg RulesExample.inits hf.uses := by
  have hok : (evalArguments RulesExample.cfg (RulesExample.cfg.initState RulesExample.inits)
      { file := some ["# c".toList, "-q".toList, "-o f".toList], env := some "-n 5".toList } ["p".toList]).isOk = true := by
    decide +kernel
  cases e : evalArguments RulesExample.cfg (RulesExample.cfg.initState RulesExample.inits)
      { file := some ["# c".toList, "-q".toList, "-o f".toList], env := some "-n 5".toList } ["p".toList] with
  | ok hf =>
    obtain ⟨_, _, _, _, _, _, _, _, _, _, _, _, hu, ob⟩ := C02_sound_sources_partial _ cfg_wf _ (by decide) _ _ _ hf e
    exact ⟨hf, rfl, hu ▸ ob⟩
  | throw x => rw [e] at hok; simp [Res.isOk] at hok
  | oob x => rw [e] at hok; simp [Res.isOk] at hok

/-- file line `-q -x` (no argument has the short key `x`), for ANY other lines, environment value and
    argv: refused — `C02_undefined_short_key_refused_wide` with `InputLine` = a file line -/
example (before after : List Word) (env : Option Word) (ws : List Word) (hf : HState) :
    evalArguments RulesExample.cfg (RulesExample.cfg.initState RulesExample.inits)
      { file := some (before ++ "-q -x".toList :: after), env := env } ("p".toList :: ws) ≠ .ok hf :=
  C02_undefined_short_key_refused_wide RulesExample.cfg RulesExample.inits _ "p".toList ws
    ["-q".toList, "-x".toList] ["-q".toList] [] [] 'x' []
    (Or.inr (Or.inl ⟨_, "-q -x".toList, rfl, by simp, by unfold SkippedLine; decide, by decide⟩))
    rfl (by decide) (by intro x hx; cases hx) (by decide) (by decide) (by decide) hf

/-- `-qx` on argv (`x` unknown behind the flag `q` in the same word) and `-q --out=- -x` (`--out=-` is
    not a separator): refused by the wide form, not covered by the first-character form -/
example (hf : HState) :
    evalArguments RulesExample.cfg (RulesExample.cfg.initState RulesExample.inits) {} ["p".toList, "-qx".toList] ≠ .ok hf ∧
    evalArguments RulesExample.cfg (RulesExample.cfg.initState RulesExample.inits) {}
      ["p".toList, "-q".toList, "--out=-".toList, "-x".toList] ≠ .ok hf := by
  have hq : GroupOk RulesExample.cfg ['q'] := by
    intro x hx
    simp only [List.mem_singleton] at hx
    subst hx
    refine ⟨by decide, ?_⟩
    intro i d hr
    have h3 : findArg RulesExample.cfg.abbr RulesExample.cfg.table (Key.ofChar 'q') =
        .ok (some (3, RulesExample.cfg.args.getD 3 default)) := by rfl
    unfold Resolves at hr
    rw [h3] at hr
    cases hr
    decide
  exact ⟨C02_undefined_short_key_refused_wide RulesExample.cfg RulesExample.inits {} "p".toList _
      ["-qx".toList] [] [] ['q'] 'x' [] (Or.inl rfl) rfl (by decide) hq (by decide) (by decide) (by decide) hf,
    C02_undefined_short_key_refused_wide RulesExample.cfg RulesExample.inits {} "p".toList _
      ["-q".toList, "--out=-".toList, "-x".toList] ["-q".toList, "--out=-".toList] [] [] 'x' [] (Or.inl rfl) rfl
      (by decide) (by intro x hx; cases hx) (by decide) (by decide) (by decide) hf⟩

/-- environment value `-q --nosuch`: no long key begins with `nosuch` — refused declaratively -/
example (ws : List Word) (hf : HState) :
    evalArguments RulesExample.cfg (RulesExample.cfg.initState RulesExample.inits)
      { env := some "-q --nosuch".toList } ("p".toList :: ws) ≠ .ok hf :=
  C02_undefined_long_key_refused RulesExample.cfg RulesExample.inits _ "p".toList ws
    ["-q".toList, "--nosuch".toList] ["-q".toList] [] [] 'n' "osuch".toList
    (Or.inr (Or.inr ⟨_, rfl, by decide⟩)) rfl (by decide) (by intro x hx; cases hx) (by decide) (by decide)
    (by decide) hf

/-- `C02_sources_log_determined` on the example above: other initial values, another program name —
    the same log -/
example (hf hf' : HState)
    (he : evalArguments RulesExample.cfg (RulesExample.cfg.initState RulesExample.inits)
      { file := some ["# c".toList, "-q".toList, "-o f".toList], env := some "-n 5".toList } ["p".toList] = .ok hf)
    (he' : evalArguments RulesExample.cfg (RulesExample.cfg.initState [])
      { file := some ["# c".toList, "-q".toList, "-o f".toList], env := some "-n 5".toList } ["other".toList] = .ok hf') :
    hf.uses = hf'.uses :=
  C02_sources_log_determined RulesExample.cfg _ _ _ _ _ [] hf hf' he he'

end ExamplesSources

end CelmaVerif.Props.C02b
