import CelmaVerif.Lemmas.Pairing
import CelmaVerif.Lemmas.RulesSound
/-
  C02 — no command line that breaks a declared rule is silently accepted: composition of the
  pairing layer (an accepted argv is the abstract evaluation of its use log) with the rules layer
  (an accepted abstract evaluation obeys every declared rule).  The per-rule statements at the
  abstract level are in Props/C02.lean.
-/
namespace CelmaVerif.Props.C02b
open CelmaVerif CelmaVerif.ProgArgs CelmaVerif.Keys

/-- **Soundness of acceptance.**  For every well-formed configuration of the modelled fragment and
    EVERY argument vector (any words, any forms — not only the ones in `Spells`): if evaluating the
    command line returns normally, then the uses the handler made of its arguments (`hf.uses`: which
    argument got which value, by key or as a free value, in order) obey every declared rule —
    mandatory arguments present, every value converted and checked, cardinalities respected, no key
    occurrence after an excluding argument, every requirement met by a later key occurrence, every
    all-of / any-of / one-of constraint met.  Every other command line ends with an exception. -/
theorem C02_sound (cfg : Cfg) (wf : cfg.WellFormed) (inits : List DVal) (hin : cfg.args.length ≤ inits.length)
    (argv : List Word) (hf : HState)
    (he : evalArguments cfg (cfg.initState inits) {} argv = .ok hf) : Obeys cfg inits hf.uses := by
  obtain ⟨us, hu, g, hg, _⟩ := evalArguments_replays cfg (cfg.initState inits) hf argv rfl he
  have : hf.uses = us := by rw [hu]; rfl
  rw [this]
  exact rules_sound wf hin hg

/-- unknown keys and missing values are refused by the pairing layer itself: an element nobody
    consumes ends the evaluation with std::invalid_argument -/
theorem C02_unknown_element_refused (cfg : Cfg) (fuel : Nat) (h h' : HState) (ai ai' : It)
    (hne : ai.atEnd = false) (he : evalSingleArgument cfg h ai = .ok (h', ai', .unknown)) :
    iterateLoop cfg (fuel + 1) h ai = .throw .invalid_argument := by
  unfold iterateLoop
  simp [hne, he]

end CelmaVerif.Props.C02b
