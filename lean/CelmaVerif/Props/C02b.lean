import CelmaVerif.Lemmas.Pairing
import CelmaVerif.Lemmas.RulesSound
import CelmaVerif.Lemmas.ParseFaithful
import CelmaVerif.Lemmas.ParseRefuse
import CelmaVerif.Lemmas.ParseSpells
import CelmaVerif.Lemmas.RulesExample
/-
  C02 — no command line that breaks a declared rule is silently accepted, at the level of argument
  vectors.  Three layers are composed:

  * parse faithfulness (Lemmas/ParseCursor.lean, ParseFaithful.lean): an accepted argument vector has
    a derivation in the declarative word grammar `SpellsPlus` (Lemmas/ParseGrammar.lean — defined over
    the words only, without the cursor model) of exactly the uses the evaluation logged;
  * the grammar itself (Lemmas/ParseRefuse.lean): every key in a derivation resolves, every key whose
    argument requires a value is followed by a value element;
  * the rules layer (Lemmas/RulesSound.lean, per-rule statements in Props/C02.lean): accepted uses
    obey every declared rule.
-/
namespace CelmaVerif.Props.C02b
open CelmaVerif CelmaVerif.ProgArgs CelmaVerif.Keys

/-- **Parse faithfulness.**  If evaluating the argument vector `prog :: ws` returns normally, the words
    `ws` spell — in the declarative grammar `SpellsPlus`, which is defined over the words alone — exactly
    the uses the evaluation logged (`hf.uses`: which argument got which value, by key or as a free
    value, in order).  `SpellsPlus` contains every form of `Spells` (`C02_grammar_extends_spells`) and
    the forms `Spells` leaves out: the separator `--`, `!` (accepted only when no use follows),
    values of the positional argument, `--flag=value` read as flag + value element, a dash inside a
    group of short keys (`-a-` = `-a --`, `-a-name` = `-a --name`).  Nothing reaches the log that the
    words do not spell: a handler that skipped a word with an unknown key, or invented a value for a key
    that needs one, would violate this theorem. -/
theorem C02_parse_faithful (cfg : Cfg) (inits : List DVal) (prog : Word) (ws : List Word) (hf : HState)
    (he : evalArguments cfg (cfg.initState inits) {} (prog :: ws) = .ok hf) : SpellsPlus cfg hf.uses ws := by
  obtain ⟨us, sp, hu⟩ := parse_faithful cfg (cfg.initState inits) hf prog ws rfl rfl he
  have : hf.uses = us := by rw [hu]; rfl
  rw [this]; exact sp

/-- **Soundness of acceptance, stated over the words.**  For every well-formed configuration of the
    modelled fragment and EVERY argument vector: if the evaluation returns normally then there is an
    abstract command line `us` that the words spell (`SpellsPlus`) and that obeys every declared rule
    (`Obeys`: mandatory arguments present, every value converted and checked, cardinalities respected,
    no key occurrence after an excluding argument, every requirement met by a later key occurrence,
    every all-of / any-of / one-of / differ / disjoint constraint met) — and it is the one the handler
    acted on.  Every other command line ends with an exception (`C04_eval_safe`: never anything else). -/
theorem C02_sound_words (cfg : Cfg) (wf : cfg.WellFormed) (inits : List DVal) (hin : cfg.args.length ≤ inits.length)
    (prog : Word) (ws : List Word) (hf : HState)
    (he : evalArguments cfg (cfg.initState inits) {} (prog :: ws) = .ok hf) :
    ∃ us, SpellsPlus cfg us ws ∧ Obeys cfg inits us ∧ hf.uses = us := by
  obtain ⟨us, hu, g, hg, _⟩ := evalArguments_replays cfg (cfg.initState inits) hf (prog :: ws) rfl he
  have hus : hf.uses = us := by rw [hu]; rfl
  exact ⟨us, hus ▸ C02_parse_faithful cfg inits prog ws hf he, rules_sound wf hin hg, hus⟩

/-- **Soundness of acceptance for the use log** (the rules half of `C02_sound_words`, kept under its
    old name): if evaluating ANY argument vector returns normally, the uses the evaluation LOGGED
    (`hf.uses`, a ghost field of the model written by `assignValue`) obey every declared rule.  On its
    own this says nothing about the relation between the log and the words of `argv`; that relation is
    `C02_parse_faithful`. -/
theorem C02_sound (cfg : Cfg) (wf : cfg.WellFormed) (inits : List DVal) (hin : cfg.args.length ≤ inits.length)
    (argv : List Word) (hf : HState)
    (he : evalArguments cfg (cfg.initState inits) {} argv = .ok hf) : Obeys cfg inits hf.uses := by
  obtain ⟨us, hu, g, hg, _⟩ := evalArguments_replays cfg (cfg.initState inits) hf argv rfl he
  have : hf.uses = us := by rw [hu]; rfl
  rw [this]
  exact rules_sound wf hin hg

/-- **Every key is known (short keys).**  A word `-c…` anywhere on the command line — behind words none
    of which both starts and ends with a dash (such a word can be the separator `--`, behind which
    everything is a value) — whose first key character `c` does not resolve to an argument (`findArg`
    answers "none", or "ambiguous") makes the evaluation end with an exception: it never returns
    normally, whatever else is on the line. -/
theorem C02_unknown_short_key_refused (cfg : Cfg) (inits : List DVal) (prog : Word) (pre post : List Word)
    (c : Char) (t : Word) (hpre : ∀ u ∈ pre, NoSep u) (hc : c ≠ '-')
    (hunk : ∀ i d, findArg cfg.abbr cfg.table (Key.ofChar c) ≠ .ok (some (i, d))) (hf : HState) :
    evalArguments cfg (cfg.initState inits) {} (prog :: (pre ++ ('-' :: c :: t) :: post)) ≠ .ok hf := by
  intro he
  exact SpellsPlus_unknown_short cfg pre post c t hf.uses hpre hc hunk (C02_parse_faithful cfg inits prog _ hf he)

/-- … in particular when no defined argument has the short key `c` (declarative reason for "does not
    resolve", abbreviations on or off) -/
theorem C02_undefined_short_key_refused (cfg : Cfg) (inits : List DVal) (prog : Word) (pre post : List Word)
    (c : Char) (t : Word) (hpre : ∀ u ∈ pre, NoSep u) (hc : c ≠ '-') (hc0 : c ≠ '\x00')
    (hno : ∀ d ∈ cfg.args, d.key.short ≠ some c) (hf : HState) :
    evalArguments cfg (cfg.initState inits) {} (prog :: (pre ++ ('-' :: c :: t) :: post)) ≠ .ok hf := by
  apply C02_unknown_short_key_refused cfg inits prog pre post c t hpre hc
  intro i d h
  rw [findArg_short_unknown cfg c hc0 hno] at h
  cases h

/-- **Every key is known (long keys).**  A word `--name` or `--name=value` (same positions as above)
    whose name is not a key specification, or is one that does not resolve to an argument (unknown, or
    an ambiguous abbreviation, or abbreviations are off), makes the evaluation end with an exception.
    `wordKey name` is the key the handler looks the name up with: `Key.parse name`, and for a name of
    one character `Key.parse "--c"`, the LONG key `c` (`fix:` for the finding one-char-long-key). -/
theorem C02_unknown_long_key_refused (cfg : Cfg) (inits : List DVal) (prog : Word) (pre post : List Word)
    (b : Char) (r : Word) (hpre : ∀ u ∈ pre, NoSep u)
    (hunk : ∀ k i d, wordKey ((b :: r).takeWhile (· != '=')) = .ok k → findArg cfg.abbr cfg.table k ≠ .ok (some (i, d)))
    (hf : HState) :
    evalArguments cfg (cfg.initState inits) {} (prog :: (pre ++ ('-' :: '-' :: b :: r) :: post)) ≠ .ok hf := by
  intro he
  exact SpellsPlus_unknown_long cfg pre post b r hf.uses hpre hunk (C02_parse_faithful cfg inits prog _ hf he)

/-- **Every argument that needs a value has one (short key).**  A word `-c` whose argument requires a
    value and that is the last word, or is followed by a word that starts with a dash and is not the
    separator `--`, makes the evaluation end with an exception (never a normal return with an invented
    or empty value). -/
theorem C02_missing_value_refused_short (cfg : Cfg) (inits : List DVal) (prog : Word) (pre post : List Word)
    (c : Char) (i : Nat) (d : ArgDef) (hpre : ∀ u ∈ pre, NoSep u) (hc : c ≠ '-')
    (hr : findArg cfg.abbr cfg.table (Key.ofChar c) = .ok (some (i, d))) (hm : d.vmode = .required)
    (hpost : NoValueWord post) (hf : HState) :
    evalArguments cfg (cfg.initState inits) {} (prog :: (pre ++ ['-', c] :: post)) ≠ .ok hf := by
  intro he
  exact SpellsPlus_missing_value_short cfg pre post c i d hf.uses hpre hc hr hm hpost
    (C02_parse_faithful cfg inits prog _ hf he)

/-- **Every argument that needs a value has one (long key).**  The same for a word `--name` (without
    `=`), exact or abbreviated. -/
theorem C02_missing_value_refused_long (cfg : Cfg) (inits : List DVal) (prog : Word) (pre post : List Word)
    (b : Char) (r : Word) (k : Key) (i : Nat) (d : ArgDef) (hpre : ∀ u ∈ pre, NoSep u) (hne : '=' ∉ b :: r)
    (hk : wordKey (b :: r) = .ok k) (hr : findArg cfg.abbr cfg.table k = .ok (some (i, d)))
    (hm : d.vmode = .required) (hpost : NoValueWord post) (hf : HState) :
    evalArguments cfg (cfg.initState inits) {} (prog :: (pre ++ ('-' :: '-' :: b :: r) :: post)) ≠ .ok hf := by
  intro he
  exact SpellsPlus_missing_value_long cfg pre post b r k i d hf.uses hpre hne hk hr hm hpost
    (C02_parse_faithful cfg inits prog _ hf he)

/-- the grammar of `C02_parse_faithful` contains the grammar `Spells` of C01/C03 -/
theorem C02_grammar_extends_spells (cfg : Cfg) (us : List Use) (ws : List Word) (hs : Spells cfg none us ws) :
    SpellsPlus cfg us ws :=
  spells_sub_spellsPlus hs

/-- Loop-level lemma (definitional: one unfolding of `iterateLoop`; the statements about unknown keys
    on a command line are `C02_unknown_short_key_refused` / `C02_unknown_long_key_refused`): an element
    that `evalSingleArgument` classifies as unknown ends the loop with std::invalid_argument. -/
theorem C02_unknown_element_refused (cfg : Cfg) (fuel : Nat) (h h' : HState) (ai ai' : It)
    (hne : ai.atEnd = false) (he : evalSingleArgument cfg h ai = .ok (h', ai', .unknown)) :
    iterateLoop cfg (fuel + 1) h ai = .throw .invalid_argument := by
  unfold iterateLoop
  simp [hne, he]

/-! ### non-vacuity (`RulesExample.cfg`: `-v,--verbose` flag; `-n,--num` int, value required;
    `-o,--out`; `-q,--quiet`; `-l,--list`) -/

section Examples
open CelmaVerif.ProgArgs.RulesExample

/-- the argument `-n,--num` of `RulesExample.cfg` (index 1) -/
def argN : ArgDef := RulesExample.cfg.args.getD 1 default

/-- an accepted line with the separator: `-q -n -- 5` -/
example : (evalArguments RulesExample.cfg (RulesExample.cfg.initState RulesExample.inits) {}
    ["p".toList, "-q".toList, "-n".toList, "--".toList, "5".toList]).isOk = true := by decide +kernel

/-- … and `C02_sound_words` applies to it: it spells uses that obey the rules -/
example : ∃ us, SpellsPlus RulesExample.cfg us ["-q".toList, "-n".toList, "--".toList, "5".toList] ∧
    Obeys RulesExample.cfg RulesExample.inits us := by
  cases e : evalArguments RulesExample.cfg (RulesExample.cfg.initState RulesExample.inits) {}
      ["p".toList, "-q".toList, "-n".toList, "--".toList, "5".toList] with
  | ok hf =>
    obtain ⟨us, h1, h2, _⟩ := C02_sound_words _ cfg_wf _ (by decide) _ _ hf e
    exact ⟨us, h1, h2⟩
  | throw x =>
    exact absurd (show (evalArguments RulesExample.cfg (RulesExample.cfg.initState RulesExample.inits) {}
      ["p".toList, "-q".toList, "-n".toList, "--".toList, "5".toList]).isOk = true by decide +kernel) (by rw [e]; simp [Res.isOk])
  | oob x =>
    exact absurd (show (evalArguments RulesExample.cfg (RulesExample.cfg.initState RulesExample.inits) {}
      ["p".toList, "-q".toList, "-n".toList, "--".toList, "5".toList]).isOk = true by decide +kernel) (by rw [e]; simp [Res.isOk])

/-- `-q -x`: no argument has the short key `x` — refused by `C02_undefined_short_key_refused`
    (`pre = ["-q"]`, all hypotheses by `decide`) -/
example (hf : HState) : evalArguments RulesExample.cfg (RulesExample.cfg.initState RulesExample.inits) {}
    ("p".toList :: (["-q".toList] ++ ('-' :: 'x' :: []) :: [])) ≠ .ok hf :=
  C02_undefined_short_key_refused RulesExample.cfg RulesExample.inits "p".toList ["-q".toList] [] 'x' []
    (by decide) (by decide) (by decide) (by decide) hf

/-- `-q --nosuch`: refused by `C02_unknown_long_key_refused` -/
example (hf : HState) : evalArguments RulesExample.cfg (RulesExample.cfg.initState RulesExample.inits) {}
    ("p".toList :: (["-q".toList] ++ ('-' :: '-' :: 'n' :: "osuch".toList) :: [])) ≠ .ok hf :=
  C02_unknown_long_key_refused RulesExample.cfg RulesExample.inits "p".toList ["-q".toList] [] 'n' "osuch".toList
    (by decide) (by
      intro k i d hk
      have h2 : wordKey (('n' :: "osuch".toList).takeWhile (· != '=')) = .ok ⟨none, "nosuch".toList⟩ := by rfl
      rw [h2] at hk
      cases hk
      intro h
      have h3 : findArg RulesExample.cfg.abbr RulesExample.cfg.table ⟨none, "nosuch".toList⟩ = .ok none := by rfl
      rw [h3] at h
      cases h) hf

/-- `-q -n` (value missing at the end) and `-q -n -v` (a key follows): refused by
    `C02_missing_value_refused_short` -/
example (hf : HState) :
    evalArguments RulesExample.cfg (RulesExample.cfg.initState RulesExample.inits) {}
      ("p".toList :: (["-q".toList] ++ ['-', 'n'] :: [])) ≠ .ok hf ∧
    evalArguments RulesExample.cfg (RulesExample.cfg.initState RulesExample.inits) {}
      ("p".toList :: (["-q".toList] ++ ['-', 'n'] :: ["-v".toList])) ≠ .ok hf :=
  ⟨C02_missing_value_refused_short RulesExample.cfg RulesExample.inits "p".toList ["-q".toList] [] 'n' 1 argN
      (by decide) (by decide) (by rfl) (by rfl) (Or.inl rfl) hf,
   C02_missing_value_refused_short RulesExample.cfg RulesExample.inits "p".toList ["-q".toList] ["-v".toList] 'n' 1 argN
      (by decide) (by decide) (by rfl) (by rfl) (Or.inr ⟨['v'], [], rfl, by decide⟩) hf⟩

/-- `-q --num` (abbreviations: `--nu`) without a value: refused by `C02_missing_value_refused_long` -/
example (hf : HState) :
    evalArguments RulesExample.cfg (RulesExample.cfg.initState RulesExample.inits) {}
      ("p".toList :: (["-q".toList] ++ ('-' :: '-' :: 'n' :: ['u']) :: [])) ≠ .ok hf :=
  C02_missing_value_refused_long RulesExample.cfg RulesExample.inits "p".toList ["-q".toList] [] 'n' ['u']
    ⟨none, "nu".toList⟩ 1 argN (by decide) (by decide) (by rfl) (by rfl) (by rfl) (Or.inl rfl) hf

end Examples

end CelmaVerif.Props.C02b
