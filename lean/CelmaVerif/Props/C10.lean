import CelmaVerif.Lemmas.FixedStringStep
import CelmaVerif.Model.FixedStringAlias
/-
  C10 — a fixed-capacity string never touches memory outside itself and stays well-formed.
  Property theorems only; the per-function lemmas are in Lemmas/FixedString{Base,Safe,Safe2,Obs,Step}.lean.

  Reading guide: `step c cu w op` is the model of one public operation of `FixedString<L>` applied to the
  object `w.s` (capacity `c.L`; `w.t` and `w.u` are the other fixed strings an operation may take as
  argument).  All memory accesses of the model go through checked primitives that return `.oob` as soon
  as one index lies outside the `L + 1` byte buffer or outside the source argument, so
  "reads and writes only inside the object and its arguments" is "`step` is never `.oob`".
-/
namespace CelmaVerif.Props.C10
open CelmaVerif CelmaVerif.FixedString

/-- One operation, any arguments.  For every capacity `L` (with `L + 1` representable in `size_t` and `L`
    in the length type), every well-formed state of the three objects, every public operation and every
    argument value — positions and counts up to the maximum of `size_t`, source strings of any length —
    the operation returns normally without any access outside the object or its arguments, and all
    objects are well-formed afterwards: buffer of `L + 1` bytes, `length ≤ L`, NUL at `buffer[length]`.
    The only other outcome is an exception, and only for `at()` / dereferencing `end()`, where
    `std::string`'s counterpart throws too.  `ArgsOK` lists the caller-side contract shared with
    `std::string`: C strings are terminated, `[p, p + n)` is readable for pointer+count overloads,
    iterator pairs are ranges, `operator[]` (of the string and of an iterator) stays inside the buffer.

    Scope of "every operation" (audit item 10).  The operation language contains every public member of
    `FixedString` and, since the audit, the iterator arithmetic of both iterator headers (`Op.itWalk*`: an iterator
    built at any position or `end()`/`rend()`, moved by any sequence of `++ -- += -=` with any operand, then
    `operator *` or `operator[]`; `Op.itRel`: the six relational operators).  NOT representable, hence not covered:
    (1) a source argument that aliases the target (`s.insert( 1, s)`, `s.assign( s.c_str() + 1)`, `s.sprintf( "%s",
    s.c_str())`): a source is a value (`List Byte`, `Sel` = t | u).  Replayed on the real code instead (design note,
    426 sanitizer runs): guards intact and well-formed every time, but `memcpy` on overlapping ranges in 98 of them
    and contents different from `std::string`; (2) iterators that outlive a modification of the string (every
    operation builds its iterators afresh); (3) writes through the `char&` / `char*` handed out by `at`, `operator[]`,
    `front`, `back`, `data`, `*it`: they are the caller's stores, not operations of the class (a store of a non-NUL
    byte at `[length()]`, which `at( length())` permits, destroys the terminator). -/
theorem C10_safe_wf (c cu : Cfg) (hc : CfgOK c) (hcu : CfgOK cu) (w : World) (hw : WFW c cu w) (op : Op)
    (ha : ArgsOK c w op) :
    (∃ w' o, step c cu w op = .ok (w', o) ∧ WFW c cu w') ∨ (∃ e, step c cu w op = .throw e ∧ MayThrow op) :=
  step_safe hc hcu hw op ha

/-- Self-aliasing sources (`stepAliased`: the `FixedString` / iterator-pair argument is the object itself, read as
    a copy of the pre-state): safe and well-formed like every other step.  Instance of `C10_safe_wf` at the
    aliased world.  NOTE: this is a statement about the MODEL's reading (source = value); the real code reaches it
    only because an aliasing source is copied to a temporary first (`unaliasedSource`, `fix:` commit) — that the
    real code never writes outside the object for such calls is checked by the guard bytes / exact-size mirror of
    the correspondence run, not proved. -/
theorem C10_aliased_safe_wf (c cu : Cfg) (hc : CfgOK c) (hcu : CfgOK cu) (w : World) (hw : WFW c cu w) (op : Op)
    (ha : ArgsOK c w.aliased op) :
    (∃ w' o, stepAliased c cu w op = .ok (w', o) ∧ WFW c cu w') ∨
      (∃ e, stepAliased c cu w op = .throw e ∧ MayThrow op) := by
  have hwa : WFW c cu w.aliased := ⟨hw.1, hw.1, hw.2.2⟩
  rcases C10_safe_wf c cu hc hcu w.aliased hwa op ha with ⟨w', o, h, hwf⟩ | ⟨e, h, hm⟩
  · exact Or.inl ⟨{ w' with t := w.t }, o, by unfold stepAliased; rw [h], hwf.1, hw.2.1, hwf.2.2⟩
  · exact Or.inr ⟨e, by unfold stepAliased; rw [h], hm⟩

/-- Histories.  Every sequence of operations of any length, started in a well-formed state, runs to its end
    without an out-of-bounds access and ends in a well-formed state (induction over the history; `HistOK`:
    the caller-side contract `ArgsOK` holds at every step; an exception thrown by `at()` leaves the objects
    unchanged and the history continues). -/
theorem C10_history (c cu : Cfg) (hc : CfgOK c) (hcu : CfgOK cu) (ops : List Op) :
    ∀ w, WFW c cu w → HistOK c cu w ops → ∃ w', run c cu w ops = .ok w' ∧ WFW c cu w' :=
  run_wf hc hcu ops

/-- Iterator arithmetic (fixed_string_iterator.hpp, fixed_string_reverse_iterator.hpp).  An iterator built at any
    position (or `end()` / `rend()`) and moved by any sequence of `++`, `--`, `+= n`, `-= n` with any operands — also
    `SIZE_MAX`, also on the empty string — is again `end()` or an index inside the string, so `operator *` either
    reads a character of the string or throws `range_error`; it never reads outside the buffer.  True of the repaired
    code only (fix 4c194d2): the pinned `--` on `end()` (and `++` on `rend()`) produced the index `SIZE_MAX - 1`,
    which `operator *` then used (example below). -/
theorem C10_iterator_walk (c : Cfg) (hc : CfgOK c) (s : FStr) (hs : WF c s) (rev : Bool) (p : ItArg)
    (ms : List ItMove) :
    (itWalk c s rev (itOf c s p) ms = itEnd c ∨ itWalk c s rev (itOf c s p) ms < s.len) ∧
    ((∃ b, itDeref c s (itWalk c s rev (itOf c s p) ms) = .ok b) ∨
     (∃ e, itDeref c s (itWalk c s rev (itOf c s p) ms) = .throw e)) :=
  ⟨itWalk_inv hc hs rev ms (itOf_inv s p), itDeref_safe hs (itWalk_inv hc hs rev ms (itOf_inv s p))⟩

/-- the three default-constructed objects are well-formed, so histories may start there -/
theorem C10_init (c cu : Cfg) : WFW c cu (World.init c cu) :=
  ⟨fresh_wf c, fresh_wf c, fresh_wf cu⟩

/-- C-string length.  In a well-formed string that stores no NUL character, `strlen( c_str())` is the
    length. -/
theorem C10_strlen (c : Cfg) (s : FStr) (h : WF c s) (hn : (0 : Byte) ∉ s.buf.take s.len) :
    cstrlen s.buf = .ok s.len := by
  obtain ⟨hb, hl, h0⟩ := h
  have gen : ∀ (l : List Byte) (k n : Nat), (0 : Byte) ∉ l.take n → l[n]? = some 0 →
      cstrlenAux l k = .ok (k + n) := by
    intro l
    induction l with
    | nil => intro k n _ h; simp at h
    | cons x xs ih =>
      intro k n hno hz
      cases n with
      | zero =>
        simp at hz
        unfold cstrlenAux; rw [if_pos hz]; rfl
      | succ m =>
        have hx : x ≠ 0 := by
          intro hx; apply hno; simp [hx]
        unfold cstrlenAux; rw [if_neg hx]
        have := ih (k + 1) m (by intro hm; apply hno; simp [hm]) (by simpa using hz)
        rw [this]; congr 1; omega
  have := gen s.buf 0 s.len hn h0
  unfold cstrlen; simpa using this

/-- `sprintf` and the result of the formatter.  `FixedString::sprintf` hands its buffer to `vsnprintf` and trusts nothing
    but the returned `int`.  For EVERY value `vsnprintf` can return — the length of the text, a length beyond the
    capacity or beyond the length type, or a NEGATIVE value (the formatter failed: `%ls` / `%lc` with a wide character
    that has no multibyte form in the current locale, out of memory, `EOVERFLOW`) — and for everything it can have left
    in the `L + 1` bytes it was given (`written`: any bytes, also a partial output without terminator), the string
    is well-formed afterwards, and the last clause of the property holds too:
    * a negative result leaves the EMPTY string (`length() = 0 = strlen( c_str())`), whatever partial output lies
      behind the terminator;
    * a result `≥ 0` leaves `length() = min( L, result)`, and `strlen( c_str()) = length()` whenever the formatter wrote
      that many characters and none of them is a NUL (what `vsnprintf` does for a text without NUL).
    (Seeded defect C10-4 dropped the test `result < 0`: `static_cast< size_t>( -1)` is `SIZE_MAX`, the length became
    `L` with the formatter's NUL inside — second example below.)  The operation language contains the failing case
    since then (`Op.sprintfW`, a case of `C10_safe_wf` / `C10_history`). -/
theorem C10_sprintf_any_result (c : Cfg) (hc : CfgOK c) (s : FStr) (hs : WF c s) (written : Str)
    (hw : written.length ≤ c.L + 1) (result : Int) :
    ∃ s', sprintfV c s written result = .ok s' ∧ WF c s' ∧
      (result < 0 → s'.len = 0 ∧ cstrlen s'.buf = .ok 0) ∧
      (0 ≤ result → s'.len = min c.L result.toNat ∧
        (min c.L result.toNat ≤ written.length → (0 : Byte) ∉ written.take (min c.L result.toNat) →
          cstrlen s'.buf = .ok s'.len)) := by
  obtain ⟨s', h, hwf⟩ := sprintfV_safe hc hs written hw result
  obtain ⟨hlen, hcont⟩ := sprintfV_content hc hs written hw result h
  refine ⟨s', h, hwf, fun hneg => ?_, fun hpos => ?_⟩
  · rw [if_pos hneg] at hlen
    refine ⟨hlen, ?_⟩
    have := C10_strlen c s' hwf (by rw [hlen]; simp)
    rw [hlen] at this; exact this
  · rw [if_neg (by omega)] at hlen
    refine ⟨hlen, fun hle hno => ?_⟩
    exact C10_strlen c s' hwf (by rw [hcont (by rw [hlen]; exact hle), hlen]; exact hno)

/-! ### the hypotheses are satisfiable -/

/-- the configuration of `FixedString<255>` on a 64-bit platform (`uint8_t` length) satisfies `CfgOK` -/
example : CfgOK ⟨255, 2 ^ 64, 256⟩ := ⟨by decide, by decide⟩

/-- a concrete non-trivial well-formed state: "ab" in a `FixedString<3>` with old content behind the NUL -/
example : WF ⟨3, 2 ^ 64, 256⟩ ⟨[97, 98, 0, 120], 2⟩ := by decide

/-- and an operation with hostile arguments on it: `insert( 1, SIZE_MAX, 'x')` gives "axx", well-formed -/
example : insertCh ⟨3, 2 ^ 64, 256⟩ ⟨[97, 98, 0, 120], 2⟩ 1 (2 ^ 64 - 1) 120 = .ok ⟨[97, 120, 120, 0], 3⟩ := by
  rfl

/-- `HistOK` is satisfiable for a non-trivial history -/
example : HistOK ⟨3, 2 ^ 64, 256⟩ ⟨9, 2 ^ 64, 256⟩ (World.init ⟨3, 2 ^ 64, 256⟩ ⟨9, 2 ^ 64, 256⟩)
    [.appendCC (2 ^ 64 - 1) 97, .insertICC 1 7 98, .erase 5 1] := by
  refine ⟨trivial, ?_, ?_⟩ <;> intro p h
  · refine ⟨trivial, ?_, ?_⟩ <;> intro q h2
    · exact ⟨trivial, fun _ _ => trivial, fun _ _ => trivial⟩
    · exact ⟨trivial, fun _ _ => trivial, fun _ _ => trivial⟩
  · refine ⟨trivial, ?_, ?_⟩ <;> intro q h2
    · exact ⟨trivial, fun _ _ => trivial, fun _ _ => trivial⟩
    · exact ⟨trivial, fun _ _ => trivial, fun _ _ => trivial⟩

/-- iterator walks: `--end()` stays at `end()` and the dereference throws; `it( 1) += SIZE_MAX` wraps to index 0 -/
example : step ⟨8, 2 ^ 64, 256⟩ ⟨9, 2 ^ 64, 256⟩ ⟨⟨[97, 98, 99, 0, 0, 0, 0, 0, 0], 3⟩, fresh ⟨8, 2 ^ 64, 256⟩, fresh ⟨9, 2 ^ 64, 256⟩⟩
    (.itWalkDeref false .fin [.dec]) = .throw .range_error := by rfl
example : itWalk ⟨8, 2 ^ 64, 256⟩ ⟨[97, 98, 99, 0, 0, 0, 0, 0, 0], 3⟩ false 1 [.add (2 ^ 64 - 1)] = 0 := by decide
/-- the pinned code: `--` stepped from `EndValue` to `EndValue - 1`, and `operator *` read `mString[ SIZE_MAX - 1]` -/
example : itDeref ⟨8, 2 ^ 64, 256⟩ ⟨[97, 98, 99, 0, 0, 0, 0, 0, 0], 3⟩ (itEnd ⟨8, 2 ^ 64, 256⟩ - 1) = .oob "load" := by rfl
/-- the caller contract of `it[ k]` is satisfiable: `begin()[ 2]` -/
example : ArgsOK ⟨8, 2 ^ 64, 256⟩ ⟨⟨[97, 98, 99, 0, 0, 0, 0, 0, 0], 3⟩, fresh ⟨8, 2 ^ 64, 256⟩, fresh ⟨9, 2 ^ 64, 256⟩⟩
    (.itWalkIdx false (.pos 0) [] 2) := by
  show addW _ (itWalk _ _ false (itOf _ _ (.pos 0)) []) 2 ≤ 8
  decide
/-- `C10_strlen` instantiated, and its hypothesis is needed: with a stored NUL `strlen` is shorter than `length()` -/
example : cstrlen [97, 98, 0, 120] = .ok 2 := C10_strlen ⟨3, 2 ^ 64, 256⟩ ⟨[97, 98, 0, 120], 2⟩ (by decide) (by decide)
example : WF ⟨3, 2 ^ 64, 256⟩ ⟨[97, 0, 99, 0], 3⟩ ∧ cstrlen [97, 0, 99, 0] = .ok 1 := ⟨by decide, rfl⟩

/-- `C10_sprintf_any_result`, the error value: `FixedString< 8>` holding "abcdefgh" (full), then
    `sprintf( "abc%lsdef", L"xy€z")` in the "C" locale — glibc leaves "abc" and a NUL and returns -1: the string is empty,
    the partial output and the old content stay behind the terminator -/
example : sprintfV ⟨8, 2 ^ 64, 256⟩ ⟨[97, 98, 99, 100, 101, 102, 103, 104, 0], 8⟩ [97, 98, 99, 0] (-1)
    = .ok ⟨[0, 98, 99, 0, 101, 102, 103, 104, 0], 0⟩ := by rfl
/-- the same call as an operation of the language (`"%s%ls%lu%s"` with "abc", L"xy€z", 7, "def"): the formatter fails
    at `%ls` after "abc" -/
example : fmtW (decimal 7) [97, 98, 99, 0] (.ls [120, 121, 0x20AC, 122]) [100, 101, 102, 0] = .failed [97, 98, 99] := by rfl
example : step ⟨8, 2 ^ 64, 256⟩ ⟨9, 2 ^ 64, 256⟩
    ⟨⟨[97, 98, 99, 100, 101, 102, 103, 104, 0], 8⟩, fresh ⟨8, 2 ^ 64, 256⟩, fresh ⟨9, 2 ^ 64, 256⟩⟩
    (.sprintfW [97, 98, 99, 0] (.ls [120, 121, 0x20AC, 122]) 7 [100, 101, 102, 0])
    = .ok (⟨⟨[0, 98, 99, 0, 101, 102, 103, 104, 0], 0⟩, fresh ⟨8, 2 ^ 64, 256⟩, fresh ⟨9, 2 ^ 64, 256⟩⟩, .unit) := by rfl
/-- what seeded defect C10-4 (`mLength = std::min( L, static_cast< size_t>( result))`) left instead: length 8 with the
    formatter's NUL at index 3 — `buffer[ length] = 0` holds, but `strlen` is 3, not 8, although no NUL was stored by
    the caller: the hypothesis of `C10_strlen` fails, and so does the third clause of `C10_sprintf_any_result` -/
example : WF ⟨8, 2 ^ 64, 256⟩ ⟨[97, 98, 99, 0, 101, 102, 103, 104, 0], 8⟩ ∧
    cstrlen [97, 98, 99, 0, 101, 102, 103, 104, 0] = .ok 3 := ⟨by decide, rfl⟩
/-- the same format with convertible wide characters succeeds: "abc" ++ "xy" ++ "7" ++ "def" = 9 characters, cut at 8 -/
example : step ⟨8, 2 ^ 64, 256⟩ ⟨9, 2 ^ 64, 256⟩ (World.init ⟨8, 2 ^ 64, 256⟩ ⟨9, 2 ^ 64, 256⟩)
    (.sprintfW [97, 98, 99, 0] (.ls [120, 121]) 7 [100, 101, 102, 0])
    = .ok (⟨⟨[97, 98, 99, 120, 121, 55, 100, 101, 0], 8⟩, fresh ⟨8, 2 ^ 64, 256⟩, fresh ⟨9, 2 ^ 64, 256⟩⟩, .unit) := by rfl
/-- `%.*ls` with a precision that ends before the unconvertible character succeeds, one more fails -/
example : (WArg.lsp 2 [120, 121, 0x20AC, 122]).conv = some [120, 121] ∧ (WArg.lsp 3 [120, 121, 0x20AC, 122]).conv = none :=
  ⟨rfl, rfl⟩

end CelmaVerif.Props.C10
