import CelmaVerif.Lemmas.InterleaveApi
import CelmaVerif.Lemmas.ConcurrencyRace
import CelmaVerif.Lemmas.ConcurrencyHB
/-
  Property C09 — independent argument handlers can be used concurrently.

  "Handlers that share no destination variables may be set up and evaluated concurrently in
   different threads.  For every interleaving each thread observes exactly the results it would
   observe running alone, and no data race occurs on library-internal state."

  Three layers (DESIGN.md C09, design_notes/handlermt.md):
   1. the frame / non-interference theorem of the interleaving model, for every number of
      threads, all programs, all schedules (`C09_noninterference*`, `C09_race_free`);
   2. `C09_inventory_clean`: the inventory of process-wide mutable objects reachable from the
      handler, regenerated from the source on every run, has no entry without a justification;
   3. the link to the handler.  `C09_plain_handler_threads_isolated`: the thread program is
      *derived* from what the thread calls on its handler (`Api`, `threadProg`); its process-wide
      cells are the regenerated inventory, which call reaches them is read from the regenerated
      call-site table with its guards (`C09_singleton_callers_modelled`: the guard in front of
      `Groups::instance()` is `mUsedByGroup` where the model says so); what else of process-wide state
      a call can name is the regenerated per-call table `entryFootprints` (call closure by simple
      function name of the C++ entry point of each of the nine calls), put into the call's steps
      (`Api.generated`) and checked against the model's reading by `C09_call_footprints_modelled`;
      the footprint condition is PROVED for
      plain handler threads (decidable condition `Plain` on the call list) and proved to FAIL for
      a thread that asks for the usage / the group list / standard arguments
      (`C09_plain_is_the_boundary`, `C09_usage_threads_conflict`).  `Plain` is a SUFFICIENT
      condition; the four unconditional callers are proved outside; a group handler without
      add-calls is `Local` but not `Plain` (`C09_plain_is_sufficient_not_necessary`).
      `C09_handler_threads_isolated_partial` is the older form for arbitrary programs; its two
      hypotheses together are equivalent to the footprint condition
      (`C09_hypotheses_are_the_footprint_condition`), so it derives nothing about the handler.
  The claim about the C++ code stays partial: that a call touches, besides the inventory, only
  objects of its own thread (every object is either of static storage duration or reachable from
  the thread's own handler / stack only) is an assumption about C++, supported (never replaced)
  by the ThreadSanitizer runs of the check; the step granularity of `threadProg` is one access
  set per call, not the C++ statements.  Per call, the cells of the thread's OWN objects and
  `Api.prints` are hand-written; the static-storage part is generated (inventory, call-site table
  with guards, per-call closure table) — by NAME: objects reached through pointers / references
  handed in by the application (a stream or a check object shared by two handlers), calls through
  function pointers the application stores, state hidden inside libstdc++ / Boost, and `mutable` /
  `const_cast` on const statics are not seen.
-/
namespace CelmaVerif.Props.C09

open CelmaVerif.Interleave CelmaVerif.Generated.HandlerSharedState

/-- Non-interference, complete schedules: n threads, each a deterministic program; if every
program reads only cells of its own thread or immutable shared cells and writes only cells of
its own thread, then after *every* schedule that runs all threads to completion each thread
has observed (read) exactly the sequence of values it observes when run alone, and every cell
it can see holds the value it holds after the run alone. -/
theorem C09_noninterference {κ V : Type} [DecidableEq κ] (n : Nat) (owner : κ → Owner n)
    (progs : Fin n → Prog κ V) (σ0 : Store κ V) (sched : List (Fin n))
    (hlocal : ∀ i, (progs i).Local owner i)
    (hdone : ((Cfg.init progs σ0).run sched).Complete) :
    ∀ i, ((Cfg.init progs σ0).run sched).obs i = ((progs i).alone σ0 []).2 ∧
      ∀ c, Vis owner i c → ((Cfg.init progs σ0).run sched).store c = ((progs i).alone σ0 []).1 c := by
  intro i
  have inv := inv_run owner progs σ0 sched _ (inv_init owner progs σ0 hlocal)
  have ho := inv.obs i
  have ha := inv.agr i
  rw [hdone i] at ho ha
  exact ⟨ho, ha⟩

/-- Non-interference at every point of every schedule (no fairness or completeness needed):
whatever the other threads have done so far, letting thread `i` finish alone from the
configuration reached yields the observations and the visible final store of its run alone
from the start — the other threads have changed nothing thread `i` can ever see. -/
theorem C09_noninterference_every_prefix {κ V : Type} [DecidableEq κ] (n : Nat) (owner : κ → Owner n)
    (progs : Fin n → Prog κ V) (σ0 : Store κ V) (sched : List (Fin n))
    (hlocal : ∀ i, (progs i).Local owner i) (i : Fin n) :
    let c := (Cfg.init progs σ0).run sched
    ((c.rem i).alone c.store (c.obs i)).2 = ((progs i).alone σ0 []).2 ∧
      ∀ x, Vis owner i x → ((c.rem i).alone c.store (c.obs i)).1 x = ((progs i).alone σ0 []).1 x := by
  intro c
  have inv := inv_run owner progs σ0 sched _ (inv_init owner progs σ0 hlocal)
  exact ⟨inv.obs i, inv.agr i⟩

/-- Race freedom in the model's sense: under the footprint condition no schedule produces two
accesses by different threads to the same cell of which at least one is a write.  (The model has
no synchronisation, so every such pair would be a data race.) -/
theorem C09_race_free {κ V : Type} [DecidableEq κ] (n : Nat) (owner : κ → Owner n)
    (progs : Fin n → Prog κ V) (σ0 : Store κ V) (sched : List (Fin n))
    (hlocal : ∀ i, (progs i).Local owner i) :
    ∀ a ∈ ((Cfg.init progs σ0).run sched).trace, ∀ b ∈ ((Cfg.init progs σ0).run sched).trace,
      ¬ a.Conflict b := by
  intro a ha b hb
  have inv := inv_run owner progs σ0 sched _ (inv_init owner progs σ0 hlocal)
  exact legal_no_conflict owner a b (inv.legal a ha) (inv.legal b hb)

/-- The footprint condition in set form: a program is local exactly when every cell in its
footprint (over all its runs) is, for a write, a cell of its thread and, for a read, a cell of
its thread or an immutable shared one — `Footprint (progs i) ⊆ own i ∪ immutableShared`. -/
theorem C09_footprint_set {κ V : Type} [DecidableEq κ] (n : Nat) (owner : κ → Owner n) (i : Fin n)
    (p : Prog κ V) :
    p.Local owner i ↔
      ∀ c w, p.Footprint c w → (w = true → owner c = .thread i) ∧ (w = false → Vis owner i c) :=
  ⟨footprint_of_local owner i p, local_of_footprint owner i p⟩

/-- The completeness hypothesis of `C09_noninterference` is satisfiable for all programs: from
every initial store there is a schedule that runs every thread to completion. -/
theorem C09_complete_schedule_exists {κ V : Type} [DecidableEq κ] (n : Nat)
    (progs : Fin n → Prog κ V) (σ0 : Store κ V) :
    ∃ sched : List (Fin n), ((Cfg.init progs σ0).run sched).Complete := by
  obtain ⟨s, hs⟩ := finish_all (List.finRange n) (Cfg.init progs σ0)
  exact ⟨s, fun i => hs i (List.mem_finRange i)⟩

/-- The inventory of objects with static storage duration that are mutable, regenerated by
`translate/shared_state.py` from the #include / link closure of `prog_args/handler.hpp` in the
checked working tree, and of mutable static-storage objects declared elsewhere that this code
names, contains no entry without a justification.  A new `static` mutable object anywhere in
the reach makes this fail. -/
theorem C09_inventory_clean : unjustifiedStatics = [] ∧ unjustifiedExternals = [] := by
  decide

/-- What the justification of the `Singleton<Groups>` entries rests on for the threads that DO
reach them.  A plain handler whose own command line contains `-h` / `--help` /
`--list-arg-groups` calls `Handler::usage()`, which starts with
`Groups::instance().evaluatedByArgGroups()` (`Api.usage`, `C09_plain_is_the_boundary`): such a
thread is inside the property's quantifier and touches the process-wide singleton.  It is
harmless only if `Singleton<T>::instance()` is a correct double-checked lock.  This theorem makes
that an obligation of C09: for the configuration regenerated from `singleton.hpp` of the tree
under check (translator `singleton_facts` = the C20 translator; a body it does not recognise
breaks the tie of C09 as well), any number of threads and every schedule — the object is
constructed at most once, every reference handed out is that one object (no thread is handed
an object another thread replaces), no two enabled conflicting accesses to a non-atomic cell
exist, and the construction happens-before every use of the object (mutex or release/acquire
edge; `Concurrency.hbStep`).  What is *not* modelled: that the `Groups` object is only read on
this path (`evaluatedByArgGroups()` reads a flag nobody writes outside `Groups::evalArguments`);
the harness' `help` workloads run it under both sanitizers with the first use forced. -/
theorem C09_singleton_entry_sound (n : Nat) (sched : List Nat) :
    (Concurrency.srun Concurrency.Cfg.current n sched).built ≤ 1 ∧
    (∀ t k, (Concurrency.srun Concurrency.Cfg.current n sched).ret t = some k → k = 0) ∧
    ¬ Concurrency.SRacy Concurrency.Cfg.current n (Concurrency.srun Concurrency.Cfg.current n sched) ∧
    (Concurrency.hrun Concurrency.Cfg.current n sched).2.racyUse = [] :=
  ⟨(Concurrency.sinv_run _ n sched).built_le_one, (Concurrency.sinv_run _ n sched).ret,
   Concurrency.sracy_of_inv_atomic _ n _ (Concurrency.sinv_run _ n sched) (by decide),
   (Concurrency.hinv_run _ ⟨by decide, by decide, by decide⟩ n sched).clean⟩

/-- Every inventory entry carries a justification constant (the form used by the isolation
theorem). -/
theorem C09_inventory_all_justified :
    (∀ e ∈ mutableStatics, (justifyStatic e).isSome = true) ∧
    (∀ x ∈ externalStatics, (justifyExternal x).isSome = true) := by
  decide

/-- The regenerated call-site table of the tree under check (every function of the handler's
reach that calls a member function of `common::Singleton<T>`, the only code that can name the
singleton's private static members; per call site the conjunction of the conditions of the
enclosing `if` statements, `!(c)` for an else-branch, as normalised source text) is covered by the
thread model's reading `modelledCallers`: the same callers, each with the same guards —
`Handler::internAddArgument`, `Handler::addBracketHandler` and (since /repo b870f06) the sub-group
overload of `Handler::addArgument` reach `Groups::instance()` only under `if (mUsedByGroup)` (the flag set from `hfInGroup`, false for every handler not created by
`Groups`), `Handler::usage` once inside the condition of its first `if` and once under it, the
other three unconditionally.  A new call site — e.g. `Groups::instance()` in
`Handler::evalArguments` —, a dropped `if (mUsedByGroup)` or a guard that tests **another
expression** (`if (!mIsSubGroupHandler)`, `if (true)`) makes this fail; the four `have`s only
serve to name the call site in the error message. -/
theorem C09_singleton_callers_modelled : callersModelled = true := by
  have : foundGuards "library/prog_args/handler.cpp" "Handler::internAddArgument" = [["mUsedByGroup"]] := by
    first
      | decide
      | fail "call site Handler::internAddArgument (library/prog_args/handler.cpp): Groups::instance() is not guarded by exactly `if (mUsedByGroup)` (see singleton_callers in the translator report)"
  have : foundGuards "library/prog_args/handler.cpp" "Handler::addBracketHandler" = [["mUsedByGroup"]] := by
    first
      | decide
      | fail "call site Handler::addBracketHandler (library/prog_args/handler.cpp): Groups::instance() is not guarded by exactly `if (mUsedByGroup)` (see singleton_callers in the translator report)"
  have : foundGuards "library/prog_args/handler.cpp" "Handler::addArgument" = [["mUsedByGroup"]] := by
    first
      | decide
      | fail "call site Handler::addArgument (sub-group overload, library/prog_args/handler.cpp): Groups::instance() is not guarded by exactly `if (mUsedByGroup)` (see singleton_callers in the translator report)"
  have : foundGuards "library/prog_args/handler.cpp" "Handler::usage" =
      [[], ["Groups::instance().evaluatedByArgGroups()&&!mIsSubGroupHandler"]] := by
    first
      | decide
      | fail "call sites of Handler::usage (library/prog_args/handler.cpp): not `if (Groups::instance().evaluatedByArgGroups() && !mIsSubGroupHandler) Groups::instance().displayUsage(..)` (see singleton_callers in the translator report)"
  first
    | decide
    | fail "the call-site table of Singleton<T> members has a caller the thread model does not know, or one with other guards (see singleton_callers in the translator report)"

/-- **The per-call footprints on process-wide state, regenerated, are the modelled ones.**
`entryFootprints` (translate/shared_state.py, clang-query matchers 8–10 over the same translation
units as the inventory) lists for each of the nine `Api` calls what the CALL CLOSURE of the C++
function it enters can name: the closure follows, from every function of the repository with the
entry's simple name (`Handler` constructors, `internAddArgument`, `addBracketHandler`,
`addArgument`, `evalArguments`, `usage`, `listArgGroups`, `addStandardArgument`,
`evalArgumentString`), every function *named* in a reached function (callee, constructor, address
taken; lambdas and default arguments belong to the function they are written in) to every function
of the repository with that simple name (virtual calls: all overriders; templates: all targets),
and stops at the other eight entry points (a nested entry is a call of its own in a thread's call
list, e.g. `-h` during `evalArguments` is `Api.usage`), at the members of `Singleton<T>` (their
callers and guards are `singletonCallers`) and at functions outside the repository (counted).
This theorem, by `decide`, says for every call:
every mutable static-storage object of the repository and every external object (`std::cout` …)
*named* anywhere in that closure — guards not evaluated — is a cell `Api.steps` gives that call on
a handler with `mUsedByGroup = false` and streams of its own (for the five plain calls: none);
the standard streams are only *bound* to a reference, and only in the constructors (the flag
`stdStreams`; handler.cpp:87 — the objects are written by whoever writes `mOutput`/`mErrorOutput`,
which is the hand-written `Api.prints`); every caller of a singleton member inside the closure
reaches it only under guards under which the model says the call touches the singleton; and no
function outside the repository named in the closure is on the list of functions with hidden
static state (`strtok`, `localtime`, `setlocale`, `rand` …; accepted with reason: `getenv`).
A `static int counter` used in `Handler::internAddArgument`, a function-local static buffer in a
check / format / the tokenizer reached from `evalArguments`, or `Groups::instance()` added to a
constructor or to `evalArguments` makes this fail; the `have`s name the call in the error message.
It is a generated cross-check of the static-storage part of the per-call access sets and a real
hypothesis of `C09_plain_handler_threads_isolated` (the steps contain `Api.generated`); it is not
a derivation of the cells of the thread's own objects, and it sees names only. -/
theorem C09_call_footprints_modelled : callFootprintsModelled = true := by
  have : footprintModelled (.construct false false) = true := by
    first
      | decide
      | fail "footprint of `construct` (Handler::Handler): its call closure names a process-wide mutable object, reaches a singleton member, or uses a standard stream other than by binding it (see entry_footprints / sites in the translator report)"
  have : footprintModelled (.addListArg 0) = true := by
    first
      | decide
      | fail "footprint of `addListArg` (Handler::internAddArgument): its call closure names a process-wide mutable object the model does not give this call, or reaches a singleton member under another guard than `mUsedByGroup` (see entry_footprints / sites in the translator report)"
  have : footprintModelled .addBracketHandler = true := by
    first
      | decide
      | fail "footprint of `addBracketHandler` (Handler::addBracketHandler): its call closure names a process-wide mutable object the model does not give this call (see entry_footprints / sites in the translator report)"
  have : footprintModelled .addSubGroupArg = true := by
    first
      | decide
      | fail "footprint of `addSubGroupArg` (Handler::addArgument): its call closure names a process-wide mutable object the model does not give this call (see entry_footprints / sites in the translator report)"
  have : footprintModelled (.evalUse 0 0) = true := by
    first
      | decide
      | fail "footprint of `evalUse` (Handler::evalArguments and everything it reaches: assign, checks, formats, constraints, tokenizer): its call closure names a process-wide mutable object, reaches a singleton member, or calls a function with hidden static state (see entry_footprints / sites in the translator report)"
  have : footprintModelled .usage = true := by
    first
      | decide
      | fail "footprint of `usage` (Handler::usage): its call closure names a process-wide mutable object that is not a singleton cell / uses a standard stream directly (see entry_footprints / sites in the translator report)"
  have : footprintModelled .listArgGroups = true ∧ footprintModelled .addStandardArgument = true ∧
      footprintModelled .evalArgumentString = true := by
    first
      | decide
      | fail "footprint of `listArgGroups` / `addStandardArgument` / `evalArgumentString`: the call closure names a process-wide mutable object that is not a singleton cell (see entry_footprints / sites in the translator report)"
  first
    | decide
    | fail "the generated per-call footprints (entryFootprints) are not covered by the model's reading"

/-- **The cut at nested entry points is closed for handlers outside a group.**  The closures of
`C09_call_footprints_modelled` stop where a call enters the entry point of *another* `Api` call
(`nestedEntries` of the regenerated table: e.g. `evalArguments` names `addArgument`, the
constructors name `addArgument` / `internAddArgument` for the help arguments).  What the nested
entry reaches is in *its* row, not in the row of the call that nests it — so `usage()` or
`listArgGroups()` called from somewhere inside `evalArguments` or `internAddArgument`, or
`addStandardArgument()` from a constructor, would reach `Groups::instance()` from a plain thread
with no row saying so.  This theorem, by `decide` over the regenerated table: every nested entry
is the entry of some `Api` call, and with `mUsedByGroup = false` no call with that entry reaches a
singleton member (call-site table and guards of the tree under check) unless the nesting call is
itself said to — except the two accepted pairs of `nestedAccepted` (the constructors take the
*address* of `usage` / `listArgGroups` for the help arguments' callbacks; a thread that triggers
them has `Api.usage` / `Api.listArgGroups` in its call list).  Not covered: handlers created by
`Groups` (`mUsedByGroup = true`; their constructor's help arguments do reach the singleton through
the nested `internAddArgument` — such a thread is not `Plain`), and calls the closure does not see
at all (`std::function` targets, destructors). -/
theorem C09_nested_entries_modelled : nestedEntriesModelled = true := by
  have : nestedModelled (.evalUse 0 0) = true := by
    first
      | decide
      | fail "nested entry points of `evalUse` (Handler::evalArguments): its call closure names the entry point of another call that reaches a singleton member on a handler outside a group (usage / listArgGroups / addStandardArgument / evalArgumentString; see nestedEntries in the translator report)"
  have : nestedModelled (.construct false false) = true := by
    first
      | decide
      | fail "nested entry points of `construct` (Handler::Handler): other than the accepted address-taken usage / listArgGroups, its call closure names the entry point of a call that reaches a singleton member on a handler outside a group (see nestedEntries in the translator report)"
  have : nestedModelled (.addListArg 0) = true ∧ nestedModelled .addBracketHandler = true ∧
      nestedModelled .addSubGroupArg = true := by
    first
      | decide
      | fail "nested entry points of `addListArg` / `addBracketHandler` / `addSubGroupArg`: the call closure names the entry point of a call that reaches a singleton member on a handler outside a group (see nestedEntries in the translator report)"
  first
    | decide
    | fail "a nested entry point in the generated per-call footprints (nestedEntries) reaches a singleton member on a handler outside a group and the nesting call is not said to"

/-- not vacuous: the table of the tree under check has nested entries, the entry `usage` belongs
to a call and reaches the singleton outside a group (so a nested `usage` is what the obligation
refuses), and a nested `addArgument` — what `evalArguments` names today — does not -/
example : (entryFootprints.flatMap (·.nestedEntries)).length ≥ 1 ∧
    !(apisOfEntryName "usage").isEmpty = true ∧
    (apisOfEntryName "usage").all (fun b => b.touchesSingleton false) = true ∧
    (apisOfEntryName "addArgument").all (fun b => !b.touchesSingleton false) = true := by decide

/-- the obligation is not vacuous on the tree under check: the table has a row for each of the nine
calls, the closures are not trivial (more than 300 function names, more than 90 reached from
`evalArguments`), the constructors bind both standard streams, and seven rows of the call-site
table lie in the closures -/
example : entryFootprints.length = 9 ∧ callGraphFunctions > 300 ∧
    ((Api.evalUse 0 0).footprint.map (fun fp => decide (fp.functions > 90))) = some true ∧
    ((Api.construct false true).footprint.map (·.boundExternals.length)) = some 2 ∧
    (entryFootprints.flatMap (·.singletonCallers)).length = 7 := by decide

/-- **Isolation of plain handler threads, footprint condition proved, not assumed.**  Every
thread is given by the list of calls it makes on its own handler (`Api`: construct with/without
`hfInGroup`, bound to the standard streams or not; add a list argument; add a sub-group argument;
add a bracket handler; evaluate a use; usage; list of groups; standard arguments; argument string without handler);
its program `threadProg` is derived from that list, the process-wide cells being the regenerated
inventory, and a call touches the singleton's cells when one of its call sites **in the
regenerated call-site table** has a guard that may hold under the handler's `mUsedByGroup`.
If every thread is plain — constructed without `hfInGroup`, i.e. `mUsedByGroup = false`, and none
of the four calls that enter the group singleton unconditionally (`Plain`, decidable) — then for
every schedule that runs all threads to completion every thread has observed what it observes
alone and its destination variables hold what they hold after the run alone, and no schedule at
all contains a conflicting pair of accesses.  The proof uses `C09_singleton_callers_modelled`:
the calls a plain thread makes (`internAddArgument`, `addBracketHandler`, `addArgument` for a
sub-group) reach
`Groups::instance()` only under `mUsedByGroup`, which is false for it; with another guard in the
tree this theorem has no proof.  It also uses `C09_call_footprints_modelled`: the steps of a call
contain every process-wide mutable object the call closure of its C++ entry point names in the
tree under check (`Api.generated`, regenerated); for a plain call the obligation forces that list
to be empty (`plain_generated_nil`), with a static in `internAddArgument` or in a check reached
from `evalArguments` this theorem has no proof either.  Hand-written and therefore assumed: the
cells of the thread's own objects per call, and that a handler bound to the standard streams
writes them only in `usage` / `listArgGroups` (no `hfVerboseArgs`). -/
theorem C09_plain_handler_threads_isolated (threads : List (List Api))
    (hplain : ∀ th ∈ threads, Plain th = true)
    (σ0 : Store HCell HVal) (sched : List (Fin threads.length)) :
    let progs : Fin threads.length → Prog HCell HVal := fun i => threadProg i.val (threads[i])
    (((Cfg.init progs σ0).run sched).Complete →
      ∀ i, ((Cfg.init progs σ0).run sched).obs i = ((progs i).alone σ0 []).2 ∧
        ∀ k, ((Cfg.init progs σ0).run sched).store (.dest i.val k) = ((progs i).alone σ0 []).1 (.dest i.val k)) ∧
    (∀ a ∈ ((Cfg.init progs σ0).run sched).trace, ∀ b ∈ ((Cfg.init progs σ0).run sched).trace,
      ¬ a.Conflict b) := by
  intro progs
  have hl : ∀ i, (progs i).Local (handlerOwner threads.length) i :=
    fun i => threadProg_local C09_singleton_callers_modelled C09_call_footprints_modelled i (threads[i])
      (hplain _ (List.getElem_mem _))
  refine ⟨fun hdone i => ?_, C09_race_free _ (handlerOwner _) progs σ0 sched hl⟩
  have h := C09_noninterference _ (handlerOwner _) progs σ0 sched hl hdone i
  exact ⟨h.1, fun k => h.2 _ (Or.inl (handlerOwner_dest i k))⟩

/-- The dependency of the previous theorem, stated on its own: on a handler with
`mUsedByGroup = false` none of the calls a plain thread makes reaches a member of
`Singleton<Groups>` in the tree under check — *because* its call-site table is the modelled one.
With `mUsedByGroup = true` (a handler created by `Groups`) the same two calls do. -/
theorem C09_plain_calls_guarded_by_mUsedByGroup :
    (∀ a : Api, a.plain = true → a.touchesSingleton false = false) ∧
    (Api.addListArg 0).touchesSingleton true = true ∧ Api.addBracketHandler.touchesSingleton true = true ∧
    Api.addSubGroupArg.touchesSingleton true = true :=
  ⟨plain_not_touches C09_singleton_callers_modelled, by decide, by decide, by decide⟩

/-- `Plain` is a SUFFICIENT condition for the footprint condition inside the family of derived
thread programs, and not a restatement of it: plain threads satisfy it (first half), and a thread
with one call that enters the group singleton whatever the handler's flag `mUsedByGroup` (`usage`,
`listArgGroups`, `addStandardArgument`, `evalArgumentString`: a call site outside every `if`) has
every singleton member of the inventory in its write footprint and does NOT satisfy it (second
half).  The two halves do not meet: a handler constructed with `hfInGroup` on which no add-call is
made is neither plain nor one of the four — it is `Local`
(`C09_plain_is_sufficient_not_necessary`).  (The name is kept; "boundary" = the four unconditional
callers are proved outside.) -/
theorem C09_plain_is_the_boundary {n : Nat} (i : Fin n) (calls : List Api) :
    (Plain calls = true → (threadProg i.val calls).Local (handlerOwner n) i) ∧
    (∀ a ∈ calls, (∀ g, a.touchesSingleton g = true) → ¬ (threadProg i.val calls).Local (handlerOwner n) i) :=
  ⟨threadProg_local C09_singleton_callers_modelled C09_call_footprints_modelled i calls,
   fun a ha hu => threadProg_not_local i calls a ha hu (by decide)⟩

/-- `Plain` is not necessary (audit 2, part D, finding 6): the call list "construct a handler with
`hfInGroup` bound to the standard streams, evaluate one use" is not `Plain`, yet its derived thread
program satisfies the footprint condition — no add-call, so the cross check under `mUsedByGroup`
is never reached. -/
theorem C09_plain_is_sufficient_not_necessary :
    Plain [.construct true true, .evalUse 0 0] = false ∧
    (threadProg 0 [.construct true true, .evalUse 0 0]).Local (handlerOwner 1) (0 : Fin 1) :=
  group_handler_without_add_local C09_call_footprints_modelled

/-- … and the conclusion fails with it: two threads that each construct a plain handler and ask
for the usage both write the members of `Singleton<Groups>` (first use constructs the object);
the trace of the schedule `[0, 0, 0, 1, 1, 1]` contains a conflicting pair on the first inventory
cell.  (Whether that conflict is a data race in C++ is property C20: the singleton synchronises
it.  For C09 these threads are outside the quantifier.) -/
theorem C09_usage_threads_conflict :
    let progs : Fin 2 → Prog HCell HVal := fun i => threadProg i.val [.construct false true, .usage]
    ∃ a ∈ ((Cfg.init progs (fun _ => [])).run [0, 0, 0, 1, 1, 1]).trace,
    ∃ b ∈ ((Cfg.init progs (fun _ => [])).run [0, 0, 0, 1, 1, 1]).trace, a.Conflict b := by
  intro progs
  refine ⟨⟨0, .static 0, true⟩, by decide, ⟨1, .static 0, true⟩, by decide, ?_⟩
  exact ⟨by decide, rfl, Or.inl rfl⟩

/-- What the two hypotheses of the next theorem amount to (audit 2026-09-30): with the inventory
of the tree under check, "closed world" and "every justification's assumption holds" together
are EQUIVALENT to the footprint condition, for arbitrary programs. -/
theorem C09_hypotheses_are_the_footprint_condition {n : Nat} (progs : Fin n → Prog HCell HVal) :
    ((∀ i, ClosedWorld i (progs i)) ∧ ∀ j : Justification, j.Holds progs) ↔
    ∀ i, (progs i).Local (handlerOwner n) i :=
  hyps_iff_local progs C09_inventory_all_justified.1 C09_inventory_all_justified.2

/-- PARTIAL (renamed from `C09_handler_threads_isolated`): isolation for *arbitrary* programs
over the handler cells under two hypotheses — (closed world) a step of thread `i` reaches only
objects of its own thread or inventory objects; (justifications) no thread touches an inventory
entry carrying a justification.  By `C09_hypotheses_are_the_footprint_condition` these
hypotheses are the footprint condition itself split along the inventory, and `progs` is not
derived from the handler: the theorem only says that the *inventory* leaves nothing else to
assume (a new unjustified entry makes it unprovable).  The derivation for the handler's calls is
`C09_plain_handler_threads_isolated`.  Full statement that is missing: the footprint of the
C++ functions themselves, statement by statement. -/
theorem C09_handler_threads_isolated_partial (n : Nat) (progs : Fin n → Prog HCell HVal)
    (σ0 : Store HCell HVal) (sched : List (Fin n))
    (hworld : ∀ i, ClosedWorld i (progs i))
    (hjust : ∀ j : Justification, j.Holds progs) :
    (((Cfg.init progs σ0).run sched).Complete →
      ∀ i, ((Cfg.init progs σ0).run sched).obs i = ((progs i).alone σ0 []).2 ∧
        ∀ k, ((Cfg.init progs σ0).run sched).store (.dest i.val k) = ((progs i).alone σ0 []).1 (.dest i.val k)) ∧
    (∀ a ∈ ((Cfg.init progs σ0).run sched).trace, ∀ b ∈ ((Cfg.init progs σ0).run sched).trace,
      ¬ a.Conflict b) := by
  have hl := local_of_closedWorld progs C09_inventory_all_justified.1 C09_inventory_all_justified.2 hworld hjust
  refine ⟨fun hdone i => ?_, C09_race_free n (handlerOwner n) progs σ0 sched hl⟩
  have h := C09_noninterference n (handlerOwner n) progs σ0 sched hl hdone i
  exact ⟨h.1, fun k => h.2 _ (Or.inl (handlerOwner_dest i k))⟩

/-- PARTIAL (renamed from `C09_jobs_noninterference`): the thread programs the model driver
runs — only list-valued arguments with per-argument separators, one atomic step per use
(`TypedArg<ContainerAdapter<T>>::assign` after the `fix:` commit): for every list of jobs and
every complete schedule, every destination of every thread ends up with the contents of the run
alone — the line the model driver prints.  Missing: construction, checks, constraints, formats,
cardinalities of the workloads in the quantifier (the harness runs them, the model does not). -/
theorem C09_jobs_noninterference_partial (jobs : List Job) (sched : List (Fin jobs.length))
    (hdone : ((Cfg.init (fun i : Fin jobs.length => (jobs[i]).prog true i.val) (initStore jobs)).run sched).Complete) :
    ∀ (i : Fin jobs.length) (k : Nat),
      ((Cfg.init (fun i : Fin jobs.length => (jobs[i]).prog true i.val) (initStore jobs)).run sched).store (.dest i.val k)
        = (((jobs[i]).prog true i.val).alone (initStore jobs) []).1 (.dest i.val k) := by
  intro i k
  have h := C09_noninterference jobs.length (handlerOwner jobs.length) _ (initStore jobs) sched
    (fun i => jobProg_local i (jobs[i])) hdone i
  exact h.2 _ (Or.inl (handlerOwner_dest i k))

/-! ### the defect of the unchanged tree, in the model

`Tokenizer::convChar2String` kept the separator in a function-local `static char s[2]`
(`assignStaticBuf`): the footprint contains a process-wide mutable cell, the footprint condition
fails, and so do both conclusions.  (Repaired in /repo by a `fix:` commit; the inventory no
longer lists the buffer.) -/

-- `defectJobs` (two threads, separators `;` and `,`, both given the word `a,b;c`), `defectProgs` (their
-- pre-fix programs), `defectSched` = [0, 1, 0, 1] and `fixedProgs` are defined in Model/Interleave.lean

/-- With the static buffer there is a complete schedule after which thread 0's destination
differs from its run alone: it has split its value at thread 1's separator. -/
theorem C09_static_buffer_interferes :
    ((Cfg.init defectProgs (initStore defectJobs)).run defectSched).Complete ∧
    ((Cfg.init defectProgs (initStore defectJobs)).run defectSched).store (.dest 0 0) = ["a".toList, "b;c".toList] ∧
    ((defectProgs 0).alone (initStore defectJobs) []).1 (.dest 0 0) = ["a,b".toList, "c".toList] := by
  refine ⟨fun i => ?_, by decide, by decide⟩
  match i with
  | 0 => exact done_of_isDone _ (by decide)
  | 1 => exact done_of_isDone _ (by decide)

/-- … and the trace of that schedule contains a data race on the buffer cell. -/
theorem C09_static_buffer_races :
    ∃ a ∈ ((Cfg.init defectProgs (initStore defectJobs)).run defectSched).trace,
    ∃ b ∈ ((Cfg.init defectProgs (initStore defectJobs)).run defectSched).trace, a.Conflict b := by
  refine ⟨⟨0, .static 0, true⟩, by decide, ⟨1, .static 0, true⟩, by decide, ?_⟩
  exact ⟨by decide, rfl, Or.inl rfl⟩

/-! ### non-vacuity -/

/-- the hypotheses of `C09_noninterference` hold for a concrete two-thread workload with a
concrete complete schedule, and the conclusion is the expected split -/
example :
    (∀ i, (fixedProgs i).Local (handlerOwner 2) i) ∧
    ((Cfg.init fixedProgs (initStore defectJobs)).run [1, 0]).store (.dest 0 0) = ["a,b".toList, "c".toList] ∧
    ((Cfg.init fixedProgs (initStore defectJobs)).run [1, 0]).store (.dest 1 0) = ["a".toList, "b;c".toList] :=
  ⟨fun i => jobProg_local i (defectJobs[i]), by decide, by decide⟩

example : ((Cfg.init fixedProgs (initStore defectJobs)).run [1, 0]).Complete := by
  intro i
  match i with
  | 0 => exact done_of_isDone _ (by decide)
  | 1 => exact done_of_isDone _ (by decide)

/-- the hypotheses of `C09_handler_threads_isolated_partial` are satisfiable: the repaired
programs live in the closed world and touch no inventory cell at all -/
example : (∀ i, ClosedWorld i (fixedProgs i)) ∧ ∀ j : Justification, j.Holds fixedProgs :=
  closedWorld_of_local fixedProgs (fun i => jobProg_local i (defectJobs[i]))

/-- two plain handler threads of the kind the harness runs (even thread bound to
`std::cout/cerr`, odd thread with own streams; list arguments with separators `;` and `,`,
a bracket handler, uses of both arguments) -/
def plainThreads : List (List Api) :=
  [ [.construct false true, .addListArg 0, .addListArg 1, .evalUse 0 0, .evalUse 1 1],
    [.construct false false, .addListArg 0, .addSubGroupArg, .addBracketHandler, .evalUse 0 0] ]

/-- the hypothesis of `C09_plain_handler_threads_isolated` holds for them, a schedule that
interleaves them runs both to completion, and the conclusion is the expected split of each
thread's own value at its own separator -/
example : (∀ th ∈ plainThreads, Plain th = true) := by decide

example :
    let progs : Fin 2 → Prog HCell HVal := fun i => threadProg i.val (plainThreads[i])
    let σ0 := initStore [⟨[';', ','], [(0, "a,b;c".toList), (1, "x,y".toList)]⟩, ⟨[','], [(0, "a,b;c".toList)]⟩]
    let sched : List (Fin 2) := [0, 1, 0, 1, 0, 1, 0, 1, 0, 1, 0, 1, 0, 0, 0, 0, 0]
    (∀ i, ((Cfg.init progs σ0).run sched).rem i = .done) ∧
    ((Cfg.init progs σ0).run sched).store (.dest 0 0) = ["a,b".toList, "c".toList] ∧
    ((Cfg.init progs σ0).run sched).store (.dest 0 1) = ["x".toList, "y".toList] ∧
    ((Cfg.init progs σ0).run sched).store (.dest 1 0) = ["a".toList, "b;c".toList] := by
  intro progs σ0 sched
  refine ⟨fun i => ?_, by decide, by decide, by decide⟩
  match i with
  | 0 => exact done_of_isDone _ (by decide)
  | 1 => exact done_of_isDone _ (by decide)

/-- a thread that is not plain: the usage is requested; that call reaches the singleton whatever
the handler's flag (hypothesis of the second half of `C09_plain_is_the_boundary`) -/
example : Plain [.construct false true, .addListArg 0, .usage] = false ∧
    ∀ g, Api.usage.touchesSingleton g = true := by decide

/-- a handler of a group (`hfInGroup`) is not plain either, and its `addArgument` reaches the
singleton (`if (mUsedByGroup) Groups::instance().crossCheckArguments( this)`) -/
example : Plain [.construct true true, .addListArg 0] = false ∧
    (Api.addListArg 0).touchesSingleton true = true ∧ (Api.addListArg 0).touchesSingleton false = false := by
  decide

end CelmaVerif.Props.C09
