import CelmaVerif.Lemmas.InterleaveInventory
/-
  Property C09 — independent argument handlers can be used concurrently.

  "Handlers that share no destination variables may be set up and evaluated concurrently in
   different threads.  For every interleaving each thread observes exactly the results it would
   observe running alone, and no data race occurs on library-internal state."

  Three layers (DESIGN.md C09, design_notes/handlermt.md):
   1. the frame / non-interference theorem of the interleaving model, for every number of
      threads, all programs, all schedules (`C09_noninterference*`, `C09_race_free`);
   2. `C09_inventory_clean`: the inventory of process-wide mutable objects reachable from the
      handler, regenerated from the source on every run, has no entry without a justification;
   3. `C09_handler_threads_isolated`: closed world + clean inventory + the justifications'
      assumptions (explicit hypotheses) give the footprint condition of layer 1.
  The claim about the C++ code is partial: layer 3's closed-world hypothesis is an assumption
  about C++, supported (never replaced) by the ThreadSanitizer runs of the check.
-/
namespace CelmaVerif.Props.C09

open CelmaVerif.Interleave CelmaVerif.Generated.HandlerSharedState

/-- Non-interference, complete schedules: n threads, each a deterministic program; if every
program reads only cells of its own thread or immutable shared cells and writes only cells of
its own thread, then after *every* schedule that runs all threads to completion each thread
has observed (read) exactly the sequence of values it observes when run alone, and every cell
it can see holds the value it holds after the run alone. -/
theorem C09_noninterference {κ V : Type} [DecidableEq κ] (n : Nat) (owner : κ → Owner n)
    (progs : Fin n → Prog κ V) (σ0 : Store κ V) (sched : List (Fin n))
    (hlocal : ∀ i, (progs i).Local owner i)
    (hdone : ((Cfg.init progs σ0).run sched).Complete) :
    ∀ i, ((Cfg.init progs σ0).run sched).obs i = ((progs i).alone σ0 []).2 ∧
      ∀ c, Vis owner i c → ((Cfg.init progs σ0).run sched).store c = ((progs i).alone σ0 []).1 c := by
  intro i
  have inv := inv_run owner progs σ0 sched _ (inv_init owner progs σ0 hlocal)
  have ho := inv.obs i
  have ha := inv.agr i
  rw [hdone i] at ho ha
  exact ⟨ho, ha⟩

/-- Non-interference at every point of every schedule (no fairness or completeness needed):
whatever the other threads have done so far, letting thread `i` finish alone from the
configuration reached yields the observations and the visible final store of its run alone
from the start — the other threads have changed nothing thread `i` can ever see. -/
theorem C09_noninterference_every_prefix {κ V : Type} [DecidableEq κ] (n : Nat) (owner : κ → Owner n)
    (progs : Fin n → Prog κ V) (σ0 : Store κ V) (sched : List (Fin n))
    (hlocal : ∀ i, (progs i).Local owner i) (i : Fin n) :
    let c := (Cfg.init progs σ0).run sched
    ((c.rem i).alone c.store (c.obs i)).2 = ((progs i).alone σ0 []).2 ∧
      ∀ x, Vis owner i x → ((c.rem i).alone c.store (c.obs i)).1 x = ((progs i).alone σ0 []).1 x := by
  intro c
  have inv := inv_run owner progs σ0 sched _ (inv_init owner progs σ0 hlocal)
  exact ⟨inv.obs i, inv.agr i⟩

/-- Race freedom in the model's sense: under the footprint condition no schedule produces two
accesses by different threads to the same cell of which at least one is a write.  (The model has
no synchronisation, so every such pair would be a data race.) -/
theorem C09_race_free {κ V : Type} [DecidableEq κ] (n : Nat) (owner : κ → Owner n)
    (progs : Fin n → Prog κ V) (σ0 : Store κ V) (sched : List (Fin n))
    (hlocal : ∀ i, (progs i).Local owner i) :
    ∀ a ∈ ((Cfg.init progs σ0).run sched).trace, ∀ b ∈ ((Cfg.init progs σ0).run sched).trace,
      ¬ a.Conflict b := by
  intro a ha b hb
  have inv := inv_run owner progs σ0 sched _ (inv_init owner progs σ0 hlocal)
  exact legal_no_conflict owner a b (inv.legal a ha) (inv.legal b hb)

/-- The footprint condition in set form: a program is local exactly when every cell in its
footprint (over all its runs) is, for a write, a cell of its thread and, for a read, a cell of
its thread or an immutable shared one — `Footprint (progs i) ⊆ own i ∪ immutableShared`. -/
theorem C09_footprint_set {κ V : Type} [DecidableEq κ] (n : Nat) (owner : κ → Owner n) (i : Fin n)
    (p : Prog κ V) :
    p.Local owner i ↔
      ∀ c w, p.Footprint c w → (w = true → owner c = .thread i) ∧ (w = false → Vis owner i c) :=
  ⟨footprint_of_local owner i p, local_of_footprint owner i p⟩

/-- The completeness hypothesis of `C09_noninterference` is satisfiable for all programs: from
every initial store there is a schedule that runs every thread to completion. -/
theorem C09_complete_schedule_exists {κ V : Type} [DecidableEq κ] (n : Nat)
    (progs : Fin n → Prog κ V) (σ0 : Store κ V) :
    ∃ sched : List (Fin n), ((Cfg.init progs σ0).run sched).Complete := by
  obtain ⟨s, hs⟩ := finish_all (List.finRange n) (Cfg.init progs σ0)
  exact ⟨s, fun i => hs i (List.mem_finRange i)⟩

/-- The inventory of objects with static storage duration that are mutable, regenerated by
`translate/shared_state.py` from the #include / link closure of `prog_args/handler.hpp` in the
checked working tree, and of mutable static-storage objects declared elsewhere that this code
names, contains no entry without a justification.  A new `static` mutable object anywhere in
the reach makes this fail. -/
theorem C09_inventory_clean : unjustifiedStatics = [] ∧ unjustifiedExternals = [] := by
  decide

/-- Every inventory entry carries a justification constant (the form used by the isolation
theorem). -/
theorem C09_inventory_all_justified :
    (∀ e ∈ mutableStatics, (justifyStatic e).isSome = true) ∧
    (∀ x ∈ externalStatics, (justifyExternal x).isSome = true) := by
  decide

/-- Isolation of handler threads.  Assumptions, all explicit: (closed world) a step of thread
`i` reaches only objects of its own thread or objects with static storage duration, of which
the mutable ones are the inventory; (justifications) for each justification constant, what it
asserts about the threads in the quantifier — e.g. they do not go through
`Singleton<Groups>`.  Conclusion: for every schedule that runs all threads to completion every
thread has observed what it observes alone and its destination variables hold what they hold
after the run alone; and no schedule at all contains a conflicting pair of accesses. -/
theorem C09_handler_threads_isolated (n : Nat) (progs : Fin n → Prog HCell HVal)
    (σ0 : Store HCell HVal) (sched : List (Fin n))
    (hworld : ∀ i, ClosedWorld i (progs i))
    (hjust : ∀ j : Justification, j.Holds progs) :
    (((Cfg.init progs σ0).run sched).Complete →
      ∀ i, ((Cfg.init progs σ0).run sched).obs i = ((progs i).alone σ0 []).2 ∧
        ∀ k, ((Cfg.init progs σ0).run sched).store (.dest i.val k) = ((progs i).alone σ0 []).1 (.dest i.val k)) ∧
    (∀ a ∈ ((Cfg.init progs σ0).run sched).trace, ∀ b ∈ ((Cfg.init progs σ0).run sched).trace,
      ¬ a.Conflict b) := by
  have hl := local_of_closedWorld progs C09_inventory_all_justified.1 C09_inventory_all_justified.2 hworld hjust
  refine ⟨fun hdone i => ?_, C09_race_free n (handlerOwner n) progs σ0 sched hl⟩
  have h := C09_noninterference n (handlerOwner n) progs σ0 sched hl hdone i
  exact ⟨h.1, fun k => h.2 _ (Or.inl (handlerOwner_dest i k))⟩

/-- The thread programs of the check's workloads (list-valued arguments with per-argument
separators, tokenised as `TypedArg<ContainerAdapter<T>>::assign` does after the `fix:` commit):
for every list of jobs and every complete schedule, every destination of every thread ends up
with the contents of the run alone — the line the model driver prints. -/
theorem C09_jobs_noninterference (jobs : List Job) (sched : List (Fin jobs.length))
    (hdone : ((Cfg.init (fun i : Fin jobs.length => (jobs[i]).prog true i.val) (initStore jobs)).run sched).Complete) :
    ∀ (i : Fin jobs.length) (k : Nat),
      ((Cfg.init (fun i : Fin jobs.length => (jobs[i]).prog true i.val) (initStore jobs)).run sched).store (.dest i.val k)
        = (((jobs[i]).prog true i.val).alone (initStore jobs) []).1 (.dest i.val k) := by
  intro i k
  have h := C09_noninterference jobs.length (handlerOwner jobs.length) _ (initStore jobs) sched
    (fun i => jobProg_local i (jobs[i])) hdone i
  exact h.2 _ (Or.inl (handlerOwner_dest i k))

/-! ### the defect of the unchanged tree, in the model

`Tokenizer::convChar2String` kept the separator in a function-local `static char s[2]`
(`assignStaticBuf`): the footprint contains a process-wide mutable cell, the footprint condition
fails, and so do both conclusions.  (Repaired in /repo by a `fix:` commit; the inventory no
longer lists the buffer.) -/

-- `defectJobs` (two threads, separators `;` and `,`, both given the word `a,b;c`), `defectProgs` (their
-- pre-fix programs), `defectSched` = [0, 1, 0, 1] and `fixedProgs` are defined in Model/Interleave.lean

/-- With the static buffer there is a complete schedule after which thread 0's destination
differs from its run alone: it has split its value at thread 1's separator. -/
theorem C09_static_buffer_interferes :
    ((Cfg.init defectProgs (initStore defectJobs)).run defectSched).Complete ∧
    ((Cfg.init defectProgs (initStore defectJobs)).run defectSched).store (.dest 0 0) = ["a".toList, "b;c".toList] ∧
    ((defectProgs 0).alone (initStore defectJobs) []).1 (.dest 0 0) = ["a,b".toList, "c".toList] := by
  refine ⟨fun i => ?_, by decide, by decide⟩
  match i with
  | 0 => exact done_of_isDone _ (by decide)
  | 1 => exact done_of_isDone _ (by decide)

/-- … and the trace of that schedule contains a data race on the buffer cell. -/
theorem C09_static_buffer_races :
    ∃ a ∈ ((Cfg.init defectProgs (initStore defectJobs)).run defectSched).trace,
    ∃ b ∈ ((Cfg.init defectProgs (initStore defectJobs)).run defectSched).trace, a.Conflict b := by
  refine ⟨⟨0, .static 0, true⟩, by decide, ⟨1, .static 0, true⟩, by decide, ?_⟩
  exact ⟨by decide, rfl, Or.inl rfl⟩

/-! ### non-vacuity -/

/-- the hypotheses of `C09_noninterference` hold for a concrete two-thread workload with a
concrete complete schedule, and the conclusion is the expected split -/
example :
    (∀ i, (fixedProgs i).Local (handlerOwner 2) i) ∧
    ((Cfg.init fixedProgs (initStore defectJobs)).run [1, 0]).store (.dest 0 0) = ["a,b".toList, "c".toList] ∧
    ((Cfg.init fixedProgs (initStore defectJobs)).run [1, 0]).store (.dest 1 0) = ["a".toList, "b;c".toList] :=
  ⟨fun i => jobProg_local i (defectJobs[i]), by decide, by decide⟩

example : ((Cfg.init fixedProgs (initStore defectJobs)).run [1, 0]).Complete := by
  intro i
  match i with
  | 0 => exact done_of_isDone _ (by decide)
  | 1 => exact done_of_isDone _ (by decide)

/-- the hypotheses of `C09_handler_threads_isolated` are satisfiable: the repaired programs
live in the closed world and touch no inventory cell at all -/
example : (∀ i, ClosedWorld i (fixedProgs i)) ∧ ∀ j : Justification, j.Holds fixedProgs := by
  have hfp : ∀ (i : Fin 2) c w, (fixedProgs i).Footprint c w → handlerOwner 2 c = .thread i := by
    intro i c w hf
    have h := footprint_of_local (handlerOwner 2) i _ (jobProg_local i (defectJobs[i])) c w hf
    cases w with
    | true => exact h.1 rfl
    | false =>
      cases h.2 rfl with
      | inl h => exact h
      | inr h =>
        exfalso
        cases c <;> simp [handlerOwner] at h <;> split at h <;> cases h
  constructor
  · intro i c w hf
    have ho := hfp i c w hf
    cases c with
    | dest t k =>
      left; refine ⟨k, ?_⟩
      simp only [handlerOwner] at ho
      split at ho
      · have ht : t = i.val := congrArg Fin.val (Owner.thread.inj ho)
        rw [ht]
      · cases ho
    | sepv t k =>
      right; left; refine ⟨k, ?_⟩
      simp only [handlerOwner] at ho
      split at ho
      · have ht : t = i.val := congrArg Fin.val (Owner.thread.inj ho)
        rw [ht]
      · cases ho
    | tmp t =>
      right; right; left
      simp only [handlerOwner] at ho
      split at ho
      · have ht : t = i.val := congrArg Fin.val (Owner.thread.inj ho)
        rw [ht]
      · cases ho
    | argv t j =>
      right; right; right; left; refine ⟨j, ?_⟩
      simp only [handlerOwner] at ho
      split at ho
      · have ht : t = i.val := congrArg Fin.val (Owner.thread.inj ho)
        rw [ht]
      · cases ho
    | static e => simp [handlerOwner] at ho
    | ext x => simp [handlerOwner] at ho
  · intro j
    constructor
    · intro i e _ _ w hf
      have ho := hfp i _ w hf
      simp [handlerOwner] at ho
    · intro i x _ _ w hf
      have ho := hfp i _ w hf
      simp [handlerOwner] at ho

end CelmaVerif.Props.C09
