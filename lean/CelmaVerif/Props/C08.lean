import CelmaVerif.Lemmas.Groups
import CelmaVerif.Lemmas.GroupsDispatch
import CelmaVerif.Lemmas.GroupsCross
import CelmaVerif.Lemmas.GroupsExamples
/-
  C08 — evaluating through an argument group equals one handler owning all arguments.

  Property theorems only; the lemmas are in Lemmas/Groups*.lean.  `groupsEval`, `offer`, `memberCfg`,
  `groupDests` model `Groups::evalArguments` after the two `fix:` commits 4bb8db8 (member end checks)
  and 247ec56 (stale last-argument marker); `offerHead` is the loop body of the pinned commit.

  Full statement (not provable, see the findings below):
    theorem C08_group_equiv (cfg inits argMember globMember order argv) :
      GroupAgrees (evalArguments cfg (cfg.initState inits) {} argv)
                  (groupDests cfg argMember order <$> groupsEval cfg inits argMember globMember order argv)
  Proved: `C08_group_equiv_partial`, under `GroupWellFormed` (abbreviations off, keys pairwise
  non-clashing, no positional argument, constraint partners and the arguments of a handler constraint
  inside one member) for command lines without the word `!` and without a comma (`ArgvPlain`).
-/
namespace CelmaVerif.Props.C08
open CelmaVerif CelmaVerif.ProgArgs CelmaVerif.Keys

/-- Every rule attached inside a member handler is enforced at the end of a group evaluation: if
    `Groups::evalArguments` returns, then for every member the mandatory/cardinality check, the
    check for arguments still required by a `requires` constraint, and the end conditions of the
    member's handler constraints (all-of, one-of, and the value constraints differ / disjoint on the
    member's own destinations) have passed — the three checks `endChecks` makes for a stand-alone
    handler, on the member's own configuration and state.
    (Pinned commit: only the first of the three was made; `fix:` 4bb8db8.) -/
theorem C08_end_checks (cfg : Cfg) (inits : List DVal) (argMember globMember order : List Nat) (argv : List Word)
    (ms : List (Cfg × HState)) (h : groupsEval cfg inits argMember globMember order argv = .ok ms) :
    ∀ m ∈ ms, checkMandatoryCardinality m.1.args m.2.args = .ok () ∧
      pendingCheckRequired m.2.pending = .ok () ∧
      checkGlobals m.1.args m.2.args m.1.globals m.2.globals = .ok () :=
  groupsEval_end_checks cfg inits argMember globMember order argv ms h

/-- … and these are exactly the checks of stand-alone evaluation: `endChecks` of a handler returns
    iff the same three checks pass on its configuration and state (it then only forgets the last
    argument). -/
theorem C08_end_checks_standalone (cfg : Cfg) (h h' : HState) :
    endChecks cfg h = .ok h' ↔
      h' = { h with lastArg := none } ∧ checkMandatoryCardinality cfg.args h.args = .ok () ∧
      pendingCheckRequired h.pending = .ok () ∧
      checkGlobals cfg.args h.args cfg.globals h.globals = .ok () := by
  rw [endChecks_ok_iff, memberEndChecks_ok_iff]

/-- A group with a single member that owns all arguments and all handler constraints behaves like
    that handler alone, for every configuration, initial values and argument vector:
    * the handler accepts with final state `h` ⇒ the group accepts with the one member in a state
      that differs from `h` at most in the (cleared) last-argument marker — same argument states,
      same pending constraints, same handler-constraint states;
    * the handler throws `e` ⇒ the group throws `e` too, except that an unknown argument is reported
      as `std::runtime_error` by `Groups` and as `std::invalid_argument` by `Handler`;
    * (model only) an out-of-bounds access in one is one in the other.
    Since the handler's result is one of the three, this also gives the converse directions. -/
theorem C08_single_member (cfg : Cfg) (inits : List DVal) (argv : List Word) :
    let g := groupsEval cfg inits (List.replicate cfg.args.length 0) (List.replicate cfg.globals.length 0) [0] argv
    let s := evalArguments cfg (cfg.initState inits) {} argv
    (∀ h, s = .ok h → ∃ h', g = .ok [(cfg, h')] ∧ h = { h' with lastArg := none }) ∧
    (∀ e, s = .throw e → ∃ e', g = .throw e' ∧ (e' = e ∨ (e = .invalid_argument ∧ e' = .runtime_error))) ∧
    (∀ w, s = .oob w → ∃ w', g = .oob w') := by
  intro g s
  have h := groupsEval_single cfg inits argv
  refine ⟨?_, ?_, ?_⟩
  · intro h0 hs; rw [show evalArguments cfg (cfg.initState inits) {} argv = s from rfl, hs] at h; exact h
  · intro e hs; rw [show evalArguments cfg (cfg.initState inits) {} argv = s from rfl, hs] at h; exact h
  · intro w hs; rw [show evalArguments cfg (cfg.initState inits) {} argv = s from rfl, hs] at h; exact h

/-- … hence acceptance coincides -/
theorem C08_single_member_accepts (cfg : Cfg) (inits : List DVal) (argv : List Word) :
    (groupsEval cfg inits (List.replicate cfg.args.length 0) (List.replicate cfg.globals.length 0) [0] argv).isOk =
    (evalArguments cfg (cfg.initState inits) {} argv).isOk := by
  have h := groupsEval_single cfg inits argv
  cases hs : evalArguments cfg (cfg.initState inits) {} argv with
  | ok h0 => rw [hs] at h; obtain ⟨h', hg, _⟩ := h; rw [hg]; rfl
  | throw e => rw [hs] at h; obtain ⟨e', hg, _⟩ := h; rw [hg]; rfl
  | oob w => rw [hs] at h; obtain ⟨w', hg⟩ := h; rw [hg]; rfl

/-! ### dispatch -/

/-- Each key word is handled by exactly the handler that defines its key.  Members `pre`, then
    `(c, h)`, then `post`, in registration order; abbreviations off in every member; the members'
    key tables do not clash pairwise (`MembersDisjoint`, what the cross check establishes); the
    element is a key element (`-c` / `--word`) looked up with the key `k` (a character or a word,
    `k.Single`), and an entry of member `c` designates `k`.  Then
    * no entry of any other member equals `k` — `c` is the first and the only member that knows it;
    * the offer is `c`'s own `evalSingleArgument` answer (same new state, same cursor, same result,
      same exception), with every other member's state unchanged except that its last-argument
      marker is cleared (`clearLast`);
    * that answer is never `unknown`. -/
theorem C08_dispatch (pre post : List (Cfg × HState)) (c : Cfg) (h : HState) (ai : It) (k : Key)
    (hk : ElemKey ai k) (hs : k.Single)
    (habbr : ∀ m ∈ pre ++ (c, h) :: post, m.1.abbr = false)
    (hd : MembersDisjoint (pre ++ (c, h) :: post))
    (hc : ∃ e ∈ c.table, e.1.Clash k) :
    (∀ m ∈ pre ++ post, ∀ f ∈ m.1.table, f.1.eq k = false) ∧
    offer (ai.cur.ty != .value) (pre ++ (c, h) :: post) ai =
      (evalSingleArgument c h ai >>= fun (x : HState × It × ArgResult) =>
        pure (clearLast pre ++ (c, x.1) :: clearLast post, x.2.1, x.2.2)) ∧
    ∀ h' ai' r, evalSingleArgument c h ai = .ok (h', ai', r) → r = .consumed := by
  have hothers := membersDisjoint_others pre post c h k hs hd hc
  refine ⟨hothers, ?_⟩
  apply offer_dispatch pre post c h ai k hk
  · intro m hm
    exact ⟨habbr m (List.mem_append_left _ hm), hothers m (List.mem_append_left _ hm)⟩
  · obtain ⟨e, he, hek⟩ := hc
    exact ⟨e, he, (eq_iff_clash_of_single e.1 k hs).mpr hek⟩

/-! ### defining the same key in two members -/

/-- Defining the same key in two member handlers is refused.  (`groupAddArgument` models
    `Handler::internAddArgument` for a handler used by a group: `Storage::addArgument` into the own
    table, then `Groups::crossCheckArguments` = `ArgumentContainer::checkArgMix` against every other
    member; see Lemmas/GroupsCross.lean.)  If some key `o` of another member equals the new key
    (`==`: same short key, or same long key) or mismatches it (one part equal, the other different),
    the definition throws `std::invalid_argument`. -/
theorem C08_cross_check {α : Type} (own : List (Key × α)) (others : List (List Key)) (k : Key) (a : α)
    (t : List Key) (ht : t ∈ others) (o : Key) (ho : o ∈ t) (hc : o.eq k = true ∨ o.mismatch k = true) :
    groupAddArgument own others k a = .throw .invalid_argument :=
  groupAddArgument_refused own others k a t ht o ho hc

/-- … and nothing else is refused: for a member whose table did not clash with the others before,
    the definition is accepted (the entry is appended) exactly when the key designates no argument of
    the member itself and no argument of another member; afterwards the member still clashes with no
    other member.  Otherwise it throws `std::invalid_argument`. -/
theorem C08_cross_check_exact {α : Type} (own : List (Key × α)) (others : List (List Key)) (k : Key) (a : α)
    (hprev : ∀ t ∈ others, ∀ e ∈ own, ∀ o ∈ t, ¬ e.1.Clash o) :
    (groupAddArgument own others k a = .ok (own ++ [(k, a)]) ∧
      (¬ ∃ e ∈ own, e.1.Clash k) ∧ ∀ t ∈ others, ∀ o ∈ t, ¬ k.Clash o) ∨
    (groupAddArgument own others k a = .throw .invalid_argument ∧
      ((∃ e ∈ own, e.1.Clash k) ∨ ∃ t ∈ others, ∃ o ∈ t, k.Clash o)) :=
  groupAddArgument_cases own others k a hprev

/-! ### known finding: abbreviations are resolved per member -/

/-- Witness of the recorded finding `group-abbreviation-shadows-exact`: abbreviations enabled,
    member 0 defines `--number`, member 1 defines `--num`; `--num 3` through the group is stored in
    `number` (member 0 is asked first and takes `num` as an abbreviation), a single handler stores it
    in `num` (exact keys win): the two do not agree. -/
theorem C08_finding_group_abbreviation :
    ¬ GroupAgrees
        (evalArguments
          { args := [{ key := ⟨none, "number".toList⟩, kind := .int, vmode := .required, card := .unlimited },
                     { key := ⟨none, "num".toList⟩, kind := .int, vmode := .required, card := .unlimited }],
            abbr := true }
          (Cfg.initState
            { args := [{ key := ⟨none, "number".toList⟩, kind := .int, vmode := .required, card := .unlimited },
                       { key := ⟨none, "num".toList⟩, kind := .int, vmode := .required, card := .unlimited }],
              abbr := true } [.int 0, .int 0])
          {} ["p".toList, "--num".toList, "3".toList])
        (groupDests
          { args := [{ key := ⟨none, "number".toList⟩, kind := .int, vmode := .required, card := .unlimited },
                     { key := ⟨none, "num".toList⟩, kind := .int, vmode := .required, card := .unlimited }],
            abbr := true } [0, 1] [0, 1] <$>
          groupsEval
            { args := [{ key := ⟨none, "number".toList⟩, kind := .int, vmode := .required, card := .unlimited },
                       { key := ⟨none, "num".toList⟩, kind := .int, vmode := .required, card := .unlimited }],
              abbr := true } [.int 0, .int 0] [0, 1] [] [0, 1] ["p".toList, "--num".toList, "3".toList]) := by
  decide +kernel

/-! ### the equivalence -/

/-- Evaluating through a group equals one handler owning all arguments (partial: hypotheses below).
    The configuration `cfg` is distributed over the members named in `order` (`argMember[a]` owns
    argument `a`, `globMember[g]` owns handler constraint `g`) and the distribution is well formed
    (`GroupWellFormed`): abbreviations are off; the keys of all arguments are pairwise non-clashing;
    there is no positional argument; a key mentioned in a `requires`/`excludes` constraint of an
    argument designates no argument and no constraint key of another member; the arguments listed in
    a handler constraint belong to the member that owns the constraint; the argument list of a value
    constraint (differ / disjoint) is as `validValueArguments` leaves it, over int / string resp. two
    list arguments (`Cfg.ValueArgsOk`); every member is registered
    once and every argument / handler constraint belongs to a registered member.  One initial value
    per argument.  The command line contains neither the word `!` nor a comma (`ArgvPlain`).
    Then (`GroupAgrees`):
    * the single handler accepts ⇒ the group accepts, and the destinations read through the group in
      the order of `cfg.args` (`groupDests`) carry exactly the argument states (value, value-set and
      increment flags, cardinality counter) of the single handler;
    * the single handler throws `e` ⇒ the group throws `e` as well — mandatory, cardinality, value
      checks, `requires`/`excludes`, all-of/any-of/one-of/differ/disjoint included — except that an
      unknown argument
      is a `std::invalid_argument` for `Handler` and a `std::runtime_error` for `Groups`;
    * hence the group accepts exactly when the single handler does.
    What is missing for the full statement: abbreviations (refuted by
    `C08_finding_group_abbreviation`), the inversion word `!`, a comma inside a typed long key, a
    positional argument (refuted by the three `C08_witness_…` theorems), and constraints whose
    partners live in different members (not expressible through `Groups` at all: a member's
    `requires` can only name its own arguments). -/
theorem C08_group_equiv_partial (cfg : Cfg) (inits : List DVal) (argMember globMember order : List Nat)
    (argv : List Word) (hwf : GroupWellFormed cfg argMember globMember order) (hne : order ≠ [])
    (hinits : inits.length = cfg.args.length) (hargv : ArgvPlain argv) :
    GroupAgrees (evalArguments cfg (cfg.initState inits) {} argv)
      (groupDests cfg argMember order <$> groupsEval cfg inits argMember globMember order argv) :=
  group_agrees cfg inits argMember globMember order argv hwf hne hinits hargv

/-- The simulation behind it, member by member: under the same hypotheses, when the single handler
    accepts with final state `H'`, the group accepts with member states `ms` such that, for the
    state `H` of the single handler before it forgets its last argument,
    * `groupDests` is `cfg.args` zipped with `H'.args` (every destination, in definition order);
    * every member `(c, h)` at position `p` of `order` is the view of `H` through what the member
      owns (`MemRel`): `h.args` are the states of its own arguments, `h.globals` the states of its
      own handler constraints, `h.pending` the pending `requires`/`excludes` entries whose key is
      mentioned in a constraint of one of its own arguments, `h.lastArg` the position of `H`'s last
      argument if the member owns it (else none). -/
theorem C08_group_states_partial (cfg : Cfg) (inits : List DVal) (argMember globMember order : List Nat)
    (argv : List Word) (hwf : GroupWellFormed cfg argMember globMember order) (hne : order ≠ [])
    (hinits : inits.length = cfg.args.length) (hargv : ArgvPlain argv) (H' : HState)
    (hs : evalArguments cfg (cfg.initState inits) {} argv = .ok H') :
    ∃ ms H, groupsEval cfg inits argMember globMember order argv = .ok ms ∧ H' = { H with lastArg := none } ∧
      groupDests cfg argMember order ms = cfg.args.zip H'.args ∧
      ∀ (p m : Nat), order[p]? = some m → ∃ h, ms[p]? = some (memberCfg cfg argMember globMember m, h) ∧
        MemRel cfg (memberView argMember globMember m) H h := by
  have h := group_sim cfg inits argMember globMember order argv hwf hne hinits hargv
  rw [hs] at h
  obtain ⟨ms, H, hg, hH, hinv, hrel⟩ := h
  refine ⟨ms, H, hg, hH, ?_, ?_⟩
  · rw [groupDests_eq hwf hinv hrel, hH]
  · intro p m hp
    have : (groupViews argMember globMember order)[p]? = some (memberView argMember globMember m) := by
      unfold groupViews; rw [List.getElem?_map, hp]; rfl
    exact GRel_at hrel p _ this

/-! ### why the other hypotheses are there (witnesses on the model; abbreviations off in all three) -/

/-- The inversion word: flags `-x` (member 0) and `-y` (member 1), command line `-x ! -y`.  A single
    handler rejects it (`!` sets its inversion marker, `-y` does not allow inverting); through the
    group `!` is consumed by member 0 alone and `-y`, handled by member 1, is accepted. -/
theorem C08_witness_inversion_word :
    ¬ GroupAgrees
        (evalArguments
          { args := [{ key := ⟨some 'x', []⟩, kind := .flag, vmode := .none, card := .unlimited },
                     { key := ⟨some 'y', []⟩, kind := .flag, vmode := .none, card := .unlimited }], abbr := false }
          (Cfg.initState
            { args := [{ key := ⟨some 'x', []⟩, kind := .flag, vmode := .none, card := .unlimited },
                       { key := ⟨some 'y', []⟩, kind := .flag, vmode := .none, card := .unlimited }], abbr := false }
            [.flag false, .flag false])
          {} ["p".toList, "-x".toList, "!".toList, "-y".toList])
        (groupDests
          { args := [{ key := ⟨some 'x', []⟩, kind := .flag, vmode := .none, card := .unlimited },
                     { key := ⟨some 'y', []⟩, kind := .flag, vmode := .none, card := .unlimited }], abbr := false }
          [0, 1] [0, 1] <$>
          groupsEval
            { args := [{ key := ⟨some 'x', []⟩, kind := .flag, vmode := .none, card := .unlimited },
                       { key := ⟨some 'y', []⟩, kind := .flag, vmode := .none, card := .unlimited }], abbr := false }
            [.flag false, .flag false] [0, 1] [] [0, 1] ["p".toList, "-x".toList, "!".toList, "-y".toList]) := by
  decide +kernel

/-- A comma in a typed long key: `--lll` (member 1) defined before `-x` (member 0), members
    registered in the order 0, 1, command line `--x,lll`.  `ArgumentKey( "x,lll")` equals both keys;
    the single handler takes the first in definition order (`--lll`), the group the first in member
    order (`-x`). -/
theorem C08_witness_comma_key :
    ¬ GroupAgrees
        (evalArguments
          { args := [{ key := ⟨none, "lll".toList⟩, kind := .flag, vmode := .none, card := .unlimited },
                     { key := ⟨some 'x', []⟩, kind := .flag, vmode := .none, card := .unlimited }], abbr := false }
          (Cfg.initState
            { args := [{ key := ⟨none, "lll".toList⟩, kind := .flag, vmode := .none, card := .unlimited },
                       { key := ⟨some 'x', []⟩, kind := .flag, vmode := .none, card := .unlimited }], abbr := false }
            [.flag false, .flag false])
          {} ["p".toList, "--x,lll".toList])
        (groupDests
          { args := [{ key := ⟨none, "lll".toList⟩, kind := .flag, vmode := .none, card := .unlimited },
                     { key := ⟨some 'x', []⟩, kind := .flag, vmode := .none, card := .unlimited }], abbr := false }
          [1, 0] [0, 1] <$>
          groupsEval
            { args := [{ key := ⟨none, "lll".toList⟩, kind := .flag, vmode := .none, card := .unlimited },
                       { key := ⟨some 'x', []⟩, kind := .flag, vmode := .none, card := .unlimited }], abbr := false }
            [.flag false, .flag false] [1, 0] [] [0, 1] ["p".toList, "--x,lll".toList]) := by
  decide +kernel

/-- A positional argument: member 0 defines the positional argument, member 1 the multi-value `-m`;
    `-m 1 2`.  The single handler stores `[1, 2]` in `m`; in the group member 0 is asked first for the
    free value `2` and its positional argument takes it. -/
theorem C08_witness_positional_first :
    ¬ GroupAgrees
        (evalArguments
          { args := [{ key := Key.pos, kind := .str, vmode := .required, card := .unlimited },
                     { key := ⟨some 'm', []⟩, kind := .vecInt, vmode := .required, card := .unlimited, multi := true }],
            abbr := false }
          (Cfg.initState
            { args := [{ key := Key.pos, kind := .str, vmode := .required, card := .unlimited },
                       { key := ⟨some 'm', []⟩, kind := .vecInt, vmode := .required, card := .unlimited, multi := true }],
              abbr := false } [.str [], .vec []])
          {} ["p".toList, "-m".toList, "1".toList, "2".toList])
        (groupDests
          { args := [{ key := Key.pos, kind := .str, vmode := .required, card := .unlimited },
                     { key := ⟨some 'm', []⟩, kind := .vecInt, vmode := .required, card := .unlimited, multi := true }],
            abbr := false } [0, 1] [0, 1] <$>
          groupsEval
            { args := [{ key := Key.pos, kind := .str, vmode := .required, card := .unlimited },
                       { key := ⟨some 'm', []⟩, kind := .vecInt, vmode := .required, card := .unlimited, multi := true }],
              abbr := false } [.str [], .vec []] [0, 1] [] [0, 1] ["p".toList, "-m".toList, "1".toList, "2".toList]) := by
  decide +kernel

/-! ### non-vacuity

  `exCfg`: member 0 owns `-x` (requires `-y`), `-y` and the handler constraint all-of(x;y); member 1
  owns the multi-value `-m` and `--name` (Lemmas/GroupsExamples.lean). -/

-- the hypotheses of `C08_group_equiv_partial` are satisfiable, in both registration orders
example : GroupWellFormed exCfg exArgMember exGlobMember [0, 1] := exCfg_wf _ (Or.inl rfl)
example : GroupWellFormed exCfg exArgMember exGlobMember [1, 0] := exCfg_wf _ (Or.inr rfl)
example : ArgvPlain exArgvOk ∧ ArgvPlain exArgvRequires ∧ ArgvPlain exArgvStale := exArgv_plain
example : exInits.length = exCfg.args.length := rfl

-- accepted: `-m 1 2 -x -y --name=abc`, with the destinations of the single handler
example : (groupsEval exCfg exInits exArgMember exGlobMember [0, 1] exArgvOk).isOk = true := by decide +kernel
example : (match groupsEval exCfg exInits exArgMember exGlobMember [1, 0] exArgvOk with
    | .ok ms => (groupDests exCfg exArgMember [1, 0] ms).map (·.2.dest)
    | _ => []) = [.flag true, .flag true, .vec [1, 2], .str "abc".toList] := by decide +kernel
example : GroupAgrees (evalArguments exCfg (exCfg.initState exInits) {} exArgvOk)
    (groupDests exCfg exArgMember [0, 1] <$> groupsEval exCfg exInits exArgMember exGlobMember [0, 1] exArgvOk) := by
  decide +kernel

-- rejected by a rule attached inside member 0 (`-x` requires `-y`): `-m 1 -x`; the pinned code,
-- which only checked mandatory/cardinality at the end, accepted it
example : (match groupsEval exCfg exInits exArgMember exGlobMember [0, 1] exArgvRequires with
    | .throw .runtime_error => true | _ => false) = true := by decide +kernel
example : (match evalArguments exCfg (exCfg.initState exInits) {} exArgvRequires with
    | .throw .runtime_error => true | _ => false) = true := by decide +kernel
example : (groupsEvalHead exCfg exInits exArgMember exGlobMember [0, 1] exArgvRequires).isOk = true := by
  decide +kernel

-- the stale last argument: `-m 1 2 -x 3` is rejected (as by the single handler) by the repaired loop,
-- while the loop of the pinned commit (`offerHead`) stored `3` in `m`
example : (match groupsEval exCfg exInits exArgMember exGlobMember [0, 1] exArgvStale with
    | .throw .runtime_error => true | _ => false) = true := by decide +kernel
example : (evalArguments exCfg (exCfg.initState exInits) {} exArgvStale).isOk = false := by decide +kernel
example : (match groupsEvalHead exCfg exInits exArgMember exGlobMember [0, 1] exArgvStale with
    | .ok ms => (groupDests exCfg exArgMember [0, 1] ms).map (·.2.dest)
    | _ => []) = [.flag true, .flag false, .vec [1, 2, 3], .str []] := by decide +kernel

-- a value constraint inside a member: `-p` / `-b` (int, member 0) must differ, `-q` (flag) is member 1;
-- `-p 3 -q -b 3` is rejected by the group as by the single handler, `-p 3 -q -b 4` accepted by both
example : GroupAgrees (evalArguments exCfgV (exCfgV.initState exInitsV) {} exArgvVSame)
    (groupDests exCfgV [0, 0, 1] [1, 0] <$> groupsEval exCfgV exInitsV [0, 0, 1] [0] [1, 0] exArgvVSame) ∧
    (match groupsEval exCfgV exInitsV [0, 0, 1] [0] [1, 0] exArgvVSame with
      | .throw .runtime_error => true | _ => false) = true := by decide +kernel
example : GroupAgrees (evalArguments exCfgV (exCfgV.initState exInitsV) {} exArgvVDiff)
    (groupDests exCfgV [0, 0, 1] [1, 0] <$> groupsEval exCfgV exInitsV [0, 0, 1] [0] [1, 0] exArgvVDiff) ∧
    (groupsEval exCfgV exInitsV [0, 0, 1] [0] [1, 0] exArgvVDiff).isOk = true := by decide +kernel

-- dispatch: `-y` goes to member 0 in either registration order; cross check: `-m` cannot be added to member 0
example : groupAddArgument [(kx, 0), (ky, 1)] [[⟨some 'm', []⟩, ⟨none, "name".toList⟩]] ⟨some 'm', "max".toList⟩ 2 =
    .throw .invalid_argument := rfl
example : groupAddArgument [(kx, 0), (ky, 1)] [[⟨some 'm', []⟩, ⟨none, "name".toList⟩]] ⟨some 'z', []⟩ 2 =
    .ok [(kx, 0), (ky, 1), (⟨some 'z', []⟩, 2)] := rfl

end CelmaVerif.Props.C08
