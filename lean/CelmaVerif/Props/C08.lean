import CelmaVerif.Lemmas.Groups
/-
  C08 — evaluating through an argument group equals one handler owning all arguments.
-/
namespace CelmaVerif.Props.C08
open CelmaVerif CelmaVerif.ProgArgs CelmaVerif.Keys

/-- Every rule attached inside a member handler is enforced at the end of a group evaluation: if
    `Groups::evalArguments` returns, then for every member the mandatory/cardinality check, the
    check for arguments still required by a `requires` constraint, and the end conditions of the
    member's handler constraints (all-of, one-of) have passed — the three checks `endChecks` makes
    for a stand-alone handler, on the member's own configuration and state.
    (Pinned commit: only the first of the three was made; `fix:` 4bb8db8.) -/
theorem C08_end_checks (cfg : Cfg) (inits : List DVal) (argMember globMember order : List Nat) (argv : List Word)
    (ms : List (Cfg × HState)) (h : groupsEval cfg inits argMember globMember order argv = .ok ms) :
    ∀ m ∈ ms, checkMandatoryCardinality m.1.args m.2.args = .ok () ∧
      pendingCheckRequired m.2.pending = .ok () ∧ checkGlobals m.1.globals m.2.globals = .ok () :=
  groupsEval_end_checks cfg inits argMember globMember order argv ms h

/-- … and these are exactly the checks of stand-alone evaluation: `endChecks` of a handler returns
    iff the same three checks pass on its configuration and state (it then only forgets the last
    argument). -/
theorem C08_end_checks_standalone (cfg : Cfg) (h h' : HState) :
    endChecks cfg h = .ok h' ↔
      h' = { h with lastArg := none } ∧ checkMandatoryCardinality cfg.args h.args = .ok () ∧
      pendingCheckRequired h.pending = .ok () ∧ checkGlobals cfg.globals h.globals = .ok () := by
  rw [endChecks_ok_iff, memberEndChecks_ok_iff]

/-- A group with a single member that owns all arguments and all handler constraints behaves like
    that handler alone, for every configuration, initial values and argument vector:
    * the handler accepts with final state `h` ⇒ the group accepts with the one member in a state
      that differs from `h` at most in the (cleared) last-argument marker — same argument states,
      same pending constraints, same handler-constraint states;
    * the handler throws `e` ⇒ the group throws `e` too, except that an unknown argument is reported
      as `std::runtime_error` by `Groups` and as `std::invalid_argument` by `Handler`;
    * (model only) an out-of-bounds access in one is one in the other.
    Since the handler's result is one of the three, this also gives the converse directions. -/
theorem C08_single_member (cfg : Cfg) (inits : List DVal) (argv : List Word) :
    let g := groupsEval cfg inits (List.replicate cfg.args.length 0) (List.replicate cfg.globals.length 0) [0] argv
    let s := evalArguments cfg (cfg.initState inits) {} argv
    (∀ h, s = .ok h → ∃ h', g = .ok [(cfg, h')] ∧ h = { h' with lastArg := none }) ∧
    (∀ e, s = .throw e → ∃ e', g = .throw e' ∧ (e' = e ∨ (e = .invalid_argument ∧ e' = .runtime_error))) ∧
    (∀ w, s = .oob w → ∃ w', g = .oob w') := by
  intro g s
  have h := groupsEval_single cfg inits argv
  refine ⟨?_, ?_, ?_⟩
  · intro h0 hs; rw [show evalArguments cfg (cfg.initState inits) {} argv = s from rfl, hs] at h; exact h
  · intro e hs; rw [show evalArguments cfg (cfg.initState inits) {} argv = s from rfl, hs] at h; exact h
  · intro w hs; rw [show evalArguments cfg (cfg.initState inits) {} argv = s from rfl, hs] at h; exact h

/-- … hence acceptance coincides -/
theorem C08_single_member_accepts (cfg : Cfg) (inits : List DVal) (argv : List Word) :
    (groupsEval cfg inits (List.replicate cfg.args.length 0) (List.replicate cfg.globals.length 0) [0] argv).isOk =
    (evalArguments cfg (cfg.initState inits) {} argv).isOk := by
  have h := groupsEval_single cfg inits argv
  cases hs : evalArguments cfg (cfg.initState inits) {} argv with
  | ok h0 => rw [hs] at h; obtain ⟨h', hg, _⟩ := h; rw [hg]; rfl
  | throw e => rw [hs] at h; obtain ⟨e', hg, _⟩ := h; rw [hg]; rfl
  | oob w => rw [hs] at h; obtain ⟨w', hg⟩ := h; rw [hg]; rfl

/-! ### known finding: abbreviations are resolved per member -/

/-- Witness of the recorded finding `group-abbreviation-shadows-exact`: abbreviations enabled,
    member 0 defines `--number`, member 1 defines `--num`; `--num 3` through the group is stored in
    `number` (member 0 is asked first and takes `num` as an abbreviation), a single handler stores it
    in `num` (exact keys win): the two do not agree. -/
theorem C08_finding_group_abbreviation :
    ¬ GroupAgrees
        (evalArguments
          { args := [{ key := ⟨none, "number".toList⟩, kind := .int, vmode := .required, card := .unlimited },
                     { key := ⟨none, "num".toList⟩, kind := .int, vmode := .required, card := .unlimited }],
            abbr := true }
          (Cfg.initState
            { args := [{ key := ⟨none, "number".toList⟩, kind := .int, vmode := .required, card := .unlimited },
                       { key := ⟨none, "num".toList⟩, kind := .int, vmode := .required, card := .unlimited }],
              abbr := true } [.int 0, .int 0])
          {} ["p".toList, "--num".toList, "3".toList])
        (groupDests
          { args := [{ key := ⟨none, "number".toList⟩, kind := .int, vmode := .required, card := .unlimited },
                     { key := ⟨none, "num".toList⟩, kind := .int, vmode := .required, card := .unlimited }],
            abbr := true } [0, 1] [0, 1] <$>
          groupsEval
            { args := [{ key := ⟨none, "number".toList⟩, kind := .int, vmode := .required, card := .unlimited },
                       { key := ⟨none, "num".toList⟩, kind := .int, vmode := .required, card := .unlimited }],
              abbr := true } [.int 0, .int 0] [0, 1] [] [0, 1] ["p".toList, "--num".toList, "3".toList]) := by
  decide +kernel

end CelmaVerif.Props.C08
