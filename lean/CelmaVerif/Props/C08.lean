import CelmaVerif.Lemmas.Groups
import CelmaVerif.Lemmas.GroupsDispatch
import CelmaVerif.Lemmas.GroupsCross
/-
  C08 — evaluating through an argument group equals one handler owning all arguments.
-/
namespace CelmaVerif.Props.C08
open CelmaVerif CelmaVerif.ProgArgs CelmaVerif.Keys

/-- Every rule attached inside a member handler is enforced at the end of a group evaluation: if
    `Groups::evalArguments` returns, then for every member the mandatory/cardinality check, the
    check for arguments still required by a `requires` constraint, and the end conditions of the
    member's handler constraints (all-of, one-of) have passed — the three checks `endChecks` makes
    for a stand-alone handler, on the member's own configuration and state.
    (Pinned commit: only the first of the three was made; `fix:` 4bb8db8.) -/
theorem C08_end_checks (cfg : Cfg) (inits : List DVal) (argMember globMember order : List Nat) (argv : List Word)
    (ms : List (Cfg × HState)) (h : groupsEval cfg inits argMember globMember order argv = .ok ms) :
    ∀ m ∈ ms, checkMandatoryCardinality m.1.args m.2.args = .ok () ∧
      pendingCheckRequired m.2.pending = .ok () ∧ checkGlobals m.1.globals m.2.globals = .ok () :=
  groupsEval_end_checks cfg inits argMember globMember order argv ms h

/-- … and these are exactly the checks of stand-alone evaluation: `endChecks` of a handler returns
    iff the same three checks pass on its configuration and state (it then only forgets the last
    argument). -/
theorem C08_end_checks_standalone (cfg : Cfg) (h h' : HState) :
    endChecks cfg h = .ok h' ↔
      h' = { h with lastArg := none } ∧ checkMandatoryCardinality cfg.args h.args = .ok () ∧
      pendingCheckRequired h.pending = .ok () ∧ checkGlobals cfg.globals h.globals = .ok () := by
  rw [endChecks_ok_iff, memberEndChecks_ok_iff]

/-- A group with a single member that owns all arguments and all handler constraints behaves like
    that handler alone, for every configuration, initial values and argument vector:
    * the handler accepts with final state `h` ⇒ the group accepts with the one member in a state
      that differs from `h` at most in the (cleared) last-argument marker — same argument states,
      same pending constraints, same handler-constraint states;
    * the handler throws `e` ⇒ the group throws `e` too, except that an unknown argument is reported
      as `std::runtime_error` by `Groups` and as `std::invalid_argument` by `Handler`;
    * (model only) an out-of-bounds access in one is one in the other.
    Since the handler's result is one of the three, this also gives the converse directions. -/
theorem C08_single_member (cfg : Cfg) (inits : List DVal) (argv : List Word) :
    let g := groupsEval cfg inits (List.replicate cfg.args.length 0) (List.replicate cfg.globals.length 0) [0] argv
    let s := evalArguments cfg (cfg.initState inits) {} argv
    (∀ h, s = .ok h → ∃ h', g = .ok [(cfg, h')] ∧ h = { h' with lastArg := none }) ∧
    (∀ e, s = .throw e → ∃ e', g = .throw e' ∧ (e' = e ∨ (e = .invalid_argument ∧ e' = .runtime_error))) ∧
    (∀ w, s = .oob w → ∃ w', g = .oob w') := by
  intro g s
  have h := groupsEval_single cfg inits argv
  refine ⟨?_, ?_, ?_⟩
  · intro h0 hs; rw [show evalArguments cfg (cfg.initState inits) {} argv = s from rfl, hs] at h; exact h
  · intro e hs; rw [show evalArguments cfg (cfg.initState inits) {} argv = s from rfl, hs] at h; exact h
  · intro w hs; rw [show evalArguments cfg (cfg.initState inits) {} argv = s from rfl, hs] at h; exact h

/-- … hence acceptance coincides -/
theorem C08_single_member_accepts (cfg : Cfg) (inits : List DVal) (argv : List Word) :
    (groupsEval cfg inits (List.replicate cfg.args.length 0) (List.replicate cfg.globals.length 0) [0] argv).isOk =
    (evalArguments cfg (cfg.initState inits) {} argv).isOk := by
  have h := groupsEval_single cfg inits argv
  cases hs : evalArguments cfg (cfg.initState inits) {} argv with
  | ok h0 => rw [hs] at h; obtain ⟨h', hg, _⟩ := h; rw [hg]; rfl
  | throw e => rw [hs] at h; obtain ⟨e', hg, _⟩ := h; rw [hg]; rfl
  | oob w => rw [hs] at h; obtain ⟨w', hg⟩ := h; rw [hg]; rfl

/-! ### dispatch -/

/-- Each key word is handled by exactly the handler that defines its key.  Members `pre`, then
    `(c, h)`, then `post`, in registration order; abbreviations off in every member; the members'
    key tables do not clash pairwise (`MembersDisjoint`, what the cross check establishes); the
    element is a key element (`-c` / `--word`) looked up with the key `k` (a character or a word,
    `k.Single`), and an entry of member `c` designates `k`.  Then
    * no entry of any other member equals `k` — `c` is the first and the only member that knows it;
    * the offer is `c`'s own `evalSingleArgument` answer (same new state, same cursor, same result,
      same exception), with every other member's state unchanged except that its last-argument
      marker is cleared (`clearLast`);
    * that answer is never `unknown`. -/
theorem C08_dispatch (pre post : List (Cfg × HState)) (c : Cfg) (h : HState) (ai : It) (k : Key)
    (hk : ElemKey ai k) (hs : k.Single)
    (habbr : ∀ m ∈ pre ++ (c, h) :: post, m.1.abbr = false)
    (hd : MembersDisjoint (pre ++ (c, h) :: post))
    (hc : ∃ e ∈ c.table, e.1.Clash k) :
    (∀ m ∈ pre ++ post, ∀ f ∈ m.1.table, f.1.eq k = false) ∧
    offer (ai.cur.ty != .value) (pre ++ (c, h) :: post) ai =
      (evalSingleArgument c h ai >>= fun (x : HState × It × ArgResult) =>
        pure (clearLast pre ++ (c, x.1) :: clearLast post, x.2.1, x.2.2)) ∧
    ∀ h' ai' r, evalSingleArgument c h ai = .ok (h', ai', r) → r = .consumed := by
  have hothers := membersDisjoint_others pre post c h k hs hd hc
  refine ⟨hothers, ?_⟩
  apply offer_dispatch pre post c h ai k hk
  · intro m hm
    exact ⟨habbr m (List.mem_append_left _ hm), hothers m (List.mem_append_left _ hm)⟩
  · obtain ⟨e, he, hek⟩ := hc
    exact ⟨e, he, (eq_iff_clash_of_single e.1 k hs).mpr hek⟩

/-! ### defining the same key in two members -/

/-- Defining the same key in two member handlers is refused.  (`groupAddArgument` models
    `Handler::internAddArgument` for a handler used by a group: `Storage::addArgument` into the own
    table, then `Groups::crossCheckArguments` = `ArgumentContainer::checkArgMix` against every other
    member; see Lemmas/GroupsCross.lean.)  If some key `o` of another member equals the new key
    (`==`: same short key, or same long key) or mismatches it (one part equal, the other different),
    the definition throws `std::invalid_argument`. -/
theorem C08_cross_check {α : Type} (own : List (Key × α)) (others : List (List Key)) (k : Key) (a : α)
    (t : List Key) (ht : t ∈ others) (o : Key) (ho : o ∈ t) (hc : o.eq k = true ∨ o.mismatch k = true) :
    groupAddArgument own others k a = .throw .invalid_argument :=
  groupAddArgument_refused own others k a t ht o ho hc

/-- … and nothing else is refused: for a member whose table did not clash with the others before,
    the definition is accepted (the entry is appended) exactly when the key designates no argument of
    the member itself and no argument of another member; afterwards the member still clashes with no
    other member.  Otherwise it throws `std::invalid_argument`. -/
theorem C08_cross_check_exact {α : Type} (own : List (Key × α)) (others : List (List Key)) (k : Key) (a : α)
    (hprev : ∀ t ∈ others, ∀ e ∈ own, ∀ o ∈ t, ¬ e.1.Clash o) :
    (groupAddArgument own others k a = .ok (own ++ [(k, a)]) ∧
      (¬ ∃ e ∈ own, e.1.Clash k) ∧ ∀ t ∈ others, ∀ o ∈ t, ¬ k.Clash o) ∨
    (groupAddArgument own others k a = .throw .invalid_argument ∧
      ((∃ e ∈ own, e.1.Clash k) ∨ ∃ t ∈ others, ∃ o ∈ t, k.Clash o)) :=
  groupAddArgument_cases own others k a hprev

/-! ### known finding: abbreviations are resolved per member -/

/-- Witness of the recorded finding `group-abbreviation-shadows-exact`: abbreviations enabled,
    member 0 defines `--number`, member 1 defines `--num`; `--num 3` through the group is stored in
    `number` (member 0 is asked first and takes `num` as an abbreviation), a single handler stores it
    in `num` (exact keys win): the two do not agree. -/
theorem C08_finding_group_abbreviation :
    ¬ GroupAgrees
        (evalArguments
          { args := [{ key := ⟨none, "number".toList⟩, kind := .int, vmode := .required, card := .unlimited },
                     { key := ⟨none, "num".toList⟩, kind := .int, vmode := .required, card := .unlimited }],
            abbr := true }
          (Cfg.initState
            { args := [{ key := ⟨none, "number".toList⟩, kind := .int, vmode := .required, card := .unlimited },
                       { key := ⟨none, "num".toList⟩, kind := .int, vmode := .required, card := .unlimited }],
              abbr := true } [.int 0, .int 0])
          {} ["p".toList, "--num".toList, "3".toList])
        (groupDests
          { args := [{ key := ⟨none, "number".toList⟩, kind := .int, vmode := .required, card := .unlimited },
                     { key := ⟨none, "num".toList⟩, kind := .int, vmode := .required, card := .unlimited }],
            abbr := true } [0, 1] [0, 1] <$>
          groupsEval
            { args := [{ key := ⟨none, "number".toList⟩, kind := .int, vmode := .required, card := .unlimited },
                       { key := ⟨none, "num".toList⟩, kind := .int, vmode := .required, card := .unlimited }],
              abbr := true } [.int 0, .int 0] [0, 1] [] [0, 1] ["p".toList, "--num".toList, "3".toList]) := by
  decide +kernel

end CelmaVerif.Props.C08
