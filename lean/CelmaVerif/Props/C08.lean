import CelmaVerif.Lemmas.Groups
import CelmaVerif.Lemmas.GroupsDispatch
import CelmaVerif.Lemmas.GroupsCross
import CelmaVerif.Lemmas.GroupsExamples
import CelmaVerif.Lemmas.GroupsDispatchValue
import CelmaVerif.Lemmas.GroupsHistory
import CelmaVerif.Lemmas.GroupsRefusal
/-
  C08 — evaluating through an argument group equals one handler owning all arguments.

  Property theorems only; the lemmas are in Lemmas/Groups*.lean.  `groupsEval`, `offer`, `memberCfg`,
  `groupDests` model `Groups::evalArguments` after the two `fix:` commits 4bb8db8 (member end checks)
  and 247ec56 (stale last-argument marker); `offerHead` is the loop body of the pinned commit.

  Full statement (not provable, see the findings below):
    theorem C08_group_equiv (cfg inits argMember globMember order argv) :
      GroupAgrees (evalArguments cfg (cfg.initState inits) {} argv)
                  (groupDests cfg argMember order <$> groupsEval cfg inits argMember globMember order argv)
  Proved: `C08_group_equiv_partial`, under `GroupWellFormed` (abbreviations off, keys pairwise
  non-clashing, no positional argument, constraint partners and the arguments of a handler constraint
  inside one member) for command lines without the word `!` and without a comma inside a typed long
  key (`ArgvPlain`: in a word that starts with a dash, no comma between the FIRST later dash and the
  next `=` / the end of the word — the only stretch the cursor can read a long key from.  Inside:
  value words `-m 1,2,3`, `-m -1,2`; everything behind the `=` of a long key `--list=1,2`,
  `--max=-1,2`, `--name=a-b,c`; values glued to a short key with no dash before the comma `-m1,2`.
  Outside: `--x,lll`, `-a-x,lll` and also `-m-1,2` — a dash behind short key characters followed by a
  comma before the next `=`: whether `-1,2` is the value of `-m` or the long key `1,2` depends on the
  configuration, which `ArgvPlain` does not see).
  The relation `GroupAgrees` itself identifies EVERY `std::invalid_argument` of the single handler with
  a `std::runtime_error` of the group, whatever its cause; that the pair occurs only at the
  unknown-argument refusal is the separate theorem `C08_group_exceptions_partial`.
  "Keys pairwise non-clashing" is not an assumption about the program: `C08_accepted_history_disjoint`
  proves it for every registration history the cross check accepted.

  `C08_end_checks`, `C08_end_checks_standalone` are DEFINITIONAL lemmas (they unfold the model's
  `groupsEndChecks` / `endChecks`); the clause "rules inside a member are enforced as in stand-alone
  evaluation" is carried by `C08_group_equiv_partial` / `C08_group_accepts_iff_partial`.
-/
namespace CelmaVerif.Props.C08
open CelmaVerif CelmaVerif.ProgArgs CelmaVerif.Keys

/-- DEFINITIONAL LEMMA (unfolds `groupsEval` / `groupsEndChecks`; not the clause — the end-to-end
    statement is `C08_group_accepts_iff_partial`).
    Every rule attached inside a member handler is checked at the end of a group evaluation: if
    `Groups::evalArguments` returns, then for every member the mandatory/cardinality check, the
    check for arguments still required by a `requires` constraint, and the end conditions of the
    member's handler constraints (all-of, one-of, and the value constraints differ / disjoint on the
    member's own destinations) have passed — the three checks `endChecks` makes for a stand-alone
    handler, on the member's own configuration and state.
    (Pinned commit: only the first of the three was made; `fix:` 4bb8db8.) -/
theorem C08_end_checks (cfg : Cfg) (inits : List DVal) (argMember globMember order : List Nat) (argv : List Word)
    (ms : List (Cfg × HState)) (h : groupsEval cfg inits argMember globMember order argv = .ok ms) :
    ∀ m ∈ ms, checkMandatoryCardinality m.1.args m.2.args = .ok () ∧
      pendingCheckRequired m.2.pending = .ok () ∧
      checkGlobals m.1.args m.2.args m.1.globals m.2.globals = .ok () :=
  groupsEval_end_checks cfg inits argMember globMember order argv ms h

/-- DEFINITIONAL LEMMA (unfolds `endChecks`; not the clause).
    … and these are exactly the checks of stand-alone evaluation: `endChecks` of a handler returns
    iff the same three checks pass on its configuration and state (it then only forgets the last
    argument). -/
theorem C08_end_checks_standalone (cfg : Cfg) (h h' : HState) :
    endChecks cfg h = .ok h' ↔
      h' = { h with lastArg := none } ∧ checkMandatoryCardinality cfg.args h.args = .ok () ∧
      pendingCheckRequired h.pending = .ok () ∧
      checkGlobals cfg.args h.args cfg.globals h.globals = .ok () := by
  rw [endChecks_ok_iff, memberEndChecks_ok_iff]

/-- A group with a single member that owns all arguments and all handler constraints behaves like
    that handler alone, for every configuration, initial values and argument vector:
    * the handler accepts with final state `h` ⇒ the group accepts with the one member in a state
      that differs from `h` at most in the (cleared) last-argument marker — same argument states,
      same pending constraints, same handler-constraint states;
    * the handler throws `e` ⇒ the group throws `e` too, except that an unknown argument is reported
      as `std::runtime_error` by `Groups` and as `std::invalid_argument` by `Handler`;
    * (model only) an out-of-bounds access in one is one in the other.
    Since the handler's result is one of the three, this also gives the converse directions. -/
theorem C08_single_member (cfg : Cfg) (inits : List DVal) (argv : List Word) :
    let g := groupsEval cfg inits (List.replicate cfg.args.length 0) (List.replicate cfg.globals.length 0) [0] argv
    let s := evalArguments cfg (cfg.initState inits) {} argv
    (∀ h, s = .ok h → ∃ h', g = .ok [(cfg, h')] ∧ h = { h' with lastArg := none }) ∧
    (∀ e, s = .throw e → ∃ e', g = .throw e' ∧ (e' = e ∨ (e = .invalid_argument ∧ e' = .runtime_error))) ∧
    (∀ w, s = .oob w → ∃ w', g = .oob w') := by
  intro g s
  have h := groupsEval_single cfg inits argv
  refine ⟨?_, ?_, ?_⟩
  · intro h0 hs; rw [show evalArguments cfg (cfg.initState inits) {} argv = s from rfl, hs] at h; exact h
  · intro e hs; rw [show evalArguments cfg (cfg.initState inits) {} argv = s from rfl, hs] at h; exact h
  · intro w hs; rw [show evalArguments cfg (cfg.initState inits) {} argv = s from rfl, hs] at h; exact h

/-- … hence acceptance coincides -/
theorem C08_single_member_accepts (cfg : Cfg) (inits : List DVal) (argv : List Word) :
    (groupsEval cfg inits (List.replicate cfg.args.length 0) (List.replicate cfg.globals.length 0) [0] argv).isOk =
    (evalArguments cfg (cfg.initState inits) {} argv).isOk := by
  have h := groupsEval_single cfg inits argv
  cases hs : evalArguments cfg (cfg.initState inits) {} argv with
  | ok h0 => rw [hs] at h; obtain ⟨h', hg, _⟩ := h; rw [hg]; rfl
  | throw e => rw [hs] at h; obtain ⟨e', hg, _⟩ := h; rw [hg]; rfl
  | oob w => rw [hs] at h; obtain ⟨w', hg⟩ := h; rw [hg]; rfl

/-! ### dispatch -/

/-- Each key word is handled by exactly the handler that defines its key (partial: key elements,
    abbreviations off).  Members `pre`, then `(c, h)`, then `post`, in registration order, in
    ARBITRARY states; abbreviations off in every member; the members' key tables do not clash
    pairwise (`MembersDisjoint` — what the cross check establishes for every accepted registration
    history: `C08_accepted_history_disjoint`); the element is a key element (`-c` / `--word`) looked
    up with the key `k` (a character or a word, `k.Single` — every key typed without a comma is), and
    an entry of member `c` designates `k`.  Then
    * no entry of any other member equals `k` — `c` is the first and the only member that knows it;
    * the offer is `c`'s own `evalSingleArgument` answer (same new state, same cursor — hence the
      same value word consumed for the key, `--key=value`, `-kvalue` and `-k value` alike —, same
      result, same exception), with every other member's state unchanged except that its
      last-argument marker is cleared (`clearLast`);
    * that answer is never `unknown`.
    Missing for the full clause: abbreviations (refuted for groups by
    `C08_finding_group_abbreviation`), a typed long key with a comma (`C08_witness_comma_key`);
    free values are `C08_dispatch_value_partial`. -/
theorem C08_dispatch_partial (pre post : List (Cfg × HState)) (c : Cfg) (h : HState) (ai : It) (k : Key)
    (hk : ElemKey ai k) (hs : k.Single)
    (habbr : ∀ m ∈ pre ++ (c, h) :: post, m.1.abbr = false)
    (hd : MembersDisjoint (pre ++ (c, h) :: post))
    (hc : ∃ e ∈ c.table, e.1.Clash k) :
    (∀ m ∈ pre ++ post, ∀ f ∈ m.1.table, f.1.eq k = false) ∧
    offer (ai.cur.ty != .value) (pre ++ (c, h) :: post) ai =
      (evalSingleArgument c h ai >>= fun (x : HState × It × ArgResult) =>
        pure (clearLast pre ++ (c, x.1) :: clearLast post, x.2.1, x.2.2)) ∧
    ∀ h' ai' r, evalSingleArgument c h ai = .ok (h', ai', r) → r = .consumed := by
  have hothers := membersDisjoint_others pre post c h k hs hd hc
  refine ⟨hothers, ?_⟩
  apply offer_dispatch pre post c h ai k hk
  · intro m hm
    exact ⟨habbr m (List.mem_append_left _ hm), hothers m (List.mem_append_left _ hm)⟩
  · obtain ⟨e, he, hek⟩ := hc
    exact ⟨e, he, (eq_iff_clash_of_single e.1 k hs).mpr hek⟩

/-- A free value (a word that is neither a key nor attached to one, e.g. the `2` and `3,4` of
    `-m 1 2 3,4`) is handled by exactly the member whose multi-value argument was used last
    (partial: no positional argument and abbreviations off in the members asked before).
    Members `pre`, `(c, h)`, `post` in registration order; the element is a value; every member in
    `pre` passes a free value on (`PassesValue`: abbreviations off, it defines no positional
    argument, the argument it handled last — if any — does not take several values; in a run of
    `Groups::evalArguments` all members but the one that took the last key have no last argument at
    all, see `C08_dispatch_partial` and `MemRel.last` in `C08_group_states_partial`); member `c`
    handled its argument `i` last and that argument takes several values.  Then the offer is `c`'s
    `assignValue` on that argument (same exception if it throws); the members before and behind
    keep their states exactly, and the answer is `consumed`.
    Missing: a positional argument in an earlier member takes the value instead
    (`C08_witness_positional_first`). -/
theorem C08_dispatch_value_partial (pre post : List (Cfg × HState)) (c : Cfg) (h : HState) (ai : It)
    (hty : ai.cur.ty = .value) (hpre : ∀ m ∈ pre, PassesValue m)
    (i : Nat) (d : ArgDef) (hl : h.lastArg = some i) (hd : c.args[i]? = some d) (hm : d.multi = true) :
    offer (ai.cur.ty != .value) (pre ++ (c, h) :: post) ai =
      (assignValue h i d ai.cur.val >>= fun h' => pure (pre ++ (c, h') :: post, ai, .consumed)) :=
  offer_value_dispatch pre post c h ai hty hpre i d hl hd hm

/-- … and a free value that no member takes (every member passes it on) is refused: the offer
    answers `unknown`, no member state changes, and `Groups::evalArguments` throws
    `std::runtime_error` (partial in the same sense: no positional argument, abbreviations off). -/
theorem C08_dispatch_value_nobody_partial (ms : List (Cfg × HState)) (ai : It) (hty : ai.cur.ty = .value)
    (hall : ∀ m ∈ ms, PassesValue m) :
    offer (ai.cur.ty != .value) ms ai = .ok (ms, ai, .unknown) ∧
    ∀ fuel, ai.atEnd = false → groupsLoop (fuel + 1) ms ai = .throw .runtime_error :=
  ⟨offer_value_nobody ms ai hty hall, fun fuel hend => groupsLoop_value_nobody fuel ms ai hty hend hall⟩

/-! ### defining the same key in two members -/

/-- Defining the same key in two member handlers is refused.  (`groupAddArgument` models
    `Handler::internAddArgument` for a handler used by a group: `Storage::addArgument` into the own
    table, then `Groups::crossCheckArguments` = `ArgumentContainer::checkArgMix` against every other
    member; see Lemmas/GroupsCross.lean.)  If some key `o` of another member equals the new key
    (`==`: same short key, or same long key) or mismatches it (one part equal, the other different),
    the definition throws `std::invalid_argument`. -/
theorem C08_cross_check {α : Type} (own : List (Key × α)) (others : List (List Key)) (k : Key) (a : α)
    (t : List Key) (ht : t ∈ others) (o : Key) (ho : o ∈ t) (hc : o.eq k = true ∨ o.mismatch k = true) :
    groupAddArgument own others k a = .throw .invalid_argument :=
  groupAddArgument_refused own others k a t ht o ho hc

/-- … and nothing else is refused: for a member whose table did not clash with the others before,
    the definition is accepted (the entry is appended) exactly when the key designates no argument of
    the member itself and no argument of another member; afterwards the member still clashes with no
    other member.  Otherwise it throws `std::invalid_argument`. -/
theorem C08_cross_check_exact {α : Type} (own : List (Key × α)) (others : List (List Key)) (k : Key) (a : α)
    (hprev : ∀ t ∈ others, ∀ e ∈ own, ∀ o ∈ t, ¬ e.1.Clash o) :
    (groupAddArgument own others k a = .ok (own ++ [(k, a)]) ∧
      (¬ ∃ e ∈ own, e.1.Clash k) ∧ ∀ t ∈ others, ∀ o ∈ t, ¬ k.Clash o) ∨
    (groupAddArgument own others k a = .throw .invalid_argument ∧
      ((∃ e ∈ own, e.1.Clash k) ∨ ∃ t ∈ others, ∃ o ∈ t, k.Clash o)) :=
  groupAddArgument_cases own others k a hprev

/-- Lifted to registration histories: `n` members are created, then arguments are defined in any
    sequence `defs` of (member, key specification) pairs (`groupDefineSeq`, the model of
    `Handler::addArgument` on handlers used by a group, validated against the real classes by the
    `pa gdef` operation).  If no definition was refused, then
    * the members' tables are `tables` with `tables[m]` = exactly the keys defined for member `m`, in
      order (`definedKeys`), and no two keys of the group clash — neither inside a member nor
      between two members (`TablesDisjoint`);
    * any members `ms` whose key tables are these are `MembersDisjoint` — the hypothesis `hd` of
      `C08_dispatch_partial`;
    * any configuration `cfg` whose arguments, distributed by `argMember`, have per member the keys
      of that member's table in some order satisfies `Disjoint cfg.table` — the clause `disj` of
      `GroupWellFormed` in `C08_group_equiv_partial`.
    So "keys pairwise non-clashing" holds for every group that could be set up at all. -/
theorem C08_accepted_history_disjoint (n : Nat) (defs : List (Nat × List Char))
    (hacc : groupDefineSeq (List.replicate n []) defs 0 = none) :
    ∃ tables, groupDefineTables (List.replicate n []) defs = some tables ∧ tables.length = n ∧
      (∀ m, m < n → tables.getD m [] = definedKeys defs m) ∧
      TablesDisjoint tables ∧
      (∀ ms : List (Cfg × HState), ms.map (fun m => m.1.table.map (·.1)) = tables.map (fun t => t.map (·.1)) →
        MembersDisjoint ms) ∧
      (∀ (cfg : Cfg) (argMember : List Nat), argMember.length = cfg.args.length →
        (∀ m, ((pick (memberArgIdx argMember m) cfg.args).map (·.key)).Perm ((tables.getD m []).map (·.1))) →
        Disjoint cfg.table) := by
  obtain ⟨tables, ht⟩ := (groupDefineSeq_none_iff defs _ 0).mp hacc
  obtain ⟨hdis, hlen⟩ := groupDefineTables_disjoint defs _ tables (tablesDisjoint_replicate n) ht
  rw [List.length_replicate] at hlen
  refine ⟨tables, ht, hlen, ?_, hdis, fun ms hms => membersDisjoint_of_tables hdis ms hms,
    fun cfg am alen hperm => disjoint_of_tables hdis cfg am alen hperm⟩
  intro m hm
  have := groupDefineTables_content defs _ tables ht m (by rw [List.length_replicate]; exact hm)
  rw [this, List.getD_eq_getElem?_getD, List.getElem?_replicate, if_pos hm]
  rfl

/-! ### known finding: abbreviations are resolved per member -/

/-- Witness of the recorded finding `group-abbreviation-shadows-exact`: abbreviations enabled,
    member 0 defines `--number`, member 1 defines `--num`; `--num 3` through the group is stored in
    `number` (member 0 is asked first and takes `num` as an abbreviation), a single handler stores it
    in `num` (exact keys win): the two do not agree. -/
theorem C08_finding_group_abbreviation :
    ¬ GroupAgrees
        (evalArguments
          { args := [{ key := ⟨none, "number".toList⟩, kind := .int, vmode := .required, card := .unlimited },
                     { key := ⟨none, "num".toList⟩, kind := .int, vmode := .required, card := .unlimited }],
            abbr := true }
          (Cfg.initState
            { args := [{ key := ⟨none, "number".toList⟩, kind := .int, vmode := .required, card := .unlimited },
                       { key := ⟨none, "num".toList⟩, kind := .int, vmode := .required, card := .unlimited }],
              abbr := true } [.int 0, .int 0])
          {} ["p".toList, "--num".toList, "3".toList])
        (groupDests
          { args := [{ key := ⟨none, "number".toList⟩, kind := .int, vmode := .required, card := .unlimited },
                     { key := ⟨none, "num".toList⟩, kind := .int, vmode := .required, card := .unlimited }],
            abbr := true } [0, 1] [0, 1] <$>
          groupsEval
            { args := [{ key := ⟨none, "number".toList⟩, kind := .int, vmode := .required, card := .unlimited },
                       { key := ⟨none, "num".toList⟩, kind := .int, vmode := .required, card := .unlimited }],
              abbr := true } [.int 0, .int 0] [0, 1] [] [0, 1] ["p".toList, "--num".toList, "3".toList]) := by
  decide +kernel

/-! ### the equivalence -/

/-- Evaluating through a group equals one handler owning all arguments (partial: hypotheses below).
    The configuration `cfg` is distributed over the members named in `order` (`argMember[a]` owns
    argument `a`, `globMember[g]` owns handler constraint `g`) and the distribution is well formed
    (`GroupWellFormed`): abbreviations are off; the keys of all arguments are pairwise non-clashing;
    there is no positional argument; a key mentioned in a `requires`/`excludes` constraint of an
    argument designates no argument and no constraint key of another member; the arguments listed in
    a handler constraint belong to the member that owns the constraint; the argument list of a value
    constraint (differ / disjoint) is as `validValueArguments` leaves it, over int / string resp. two
    list arguments (`Cfg.ValueArgsOk`); every member is registered
    once and every argument / handler constraint belongs to a registered member.  One initial value
    per argument.  The command line contains no word `!`, and no comma inside a typed long key: in
    a word that starts with a dash, no comma between the FIRST later dash and the next `=` or the end
    of the word (`ArgvPlain`) — the cursor reads at most one long key from a word, behind that dash,
    and takes everything behind its `=` as a value.  Inside are: value words (`-m 1,2,3`, `-m 1,-2`,
    `-m -1,2`), everything behind the `=` of a long key (`--list=1,2,3`, `--max=-1,2`,
    `--name=a-b,c`, `--files=my-file,other`), values glued to short keys when no dash precedes the
    comma (`-m1,2,3`, `-m4,-5`).  Excluded are `--x,lll`, `-a-x,lll`, and also `-m-1,2`-style words
    (a dash behind short key characters followed by a comma before the next `=`): whether `-1,2`
    there is the value of `-m` or a further, long key `1,2` depends on whether `-m` takes a value,
    i.e. on the configuration, and `ArgvPlain` is a condition on the command line alone.  (On the
    example configuration group and single handler agree on `-m-1,2`, see the examples; it is the
    hypothesis that is too narrow there, not the property that fails.)
    The key hypothesis `disj` holds for every group that could be registered
    (`C08_accepted_history_disjoint`).
    Then (`GroupAgrees`):
    * the single handler accepts ⇒ the group accepts, and the destinations read through the group in
      the order of `cfg.args` (`groupDests`) carry exactly the argument states (value, value-set and
      increment flags, cardinality counter) of the single handler;
    * the single handler throws `e` ⇒ the group throws `e` as well — mandatory, cardinality, value
      checks, `requires`/`excludes`, all-of/any-of/one-of/differ/disjoint included — except that an
      unknown argument
      is a `std::invalid_argument` for `Handler` and a `std::runtime_error` for `Groups`;
    * hence the group accepts exactly when the single handler does (`C08_group_accepts_iff_partial`).
    COARSENESS OF `GroupAgrees`: the relation identifies EVERY `std::invalid_argument` of the single
    handler with a `std::runtime_error` of the group, whatever its cause — also the
    `invalid_argument` of a malformed typed key (`ArgumentKey( "---x")` for the word `-----x`, "too
    many leading dashes", from `wordKey`) or of `hasIntersection` / `compareValue` on unsuited
    destination types.  THIS theorem therefore does not exclude a group that reports the malformed
    key `---x` as `std::runtime_error` (such a group would satisfy `GroupAgrees`).  That the pair
    (`invalid_argument`, `runtime_error`) occurs ONLY at the unknown-argument refusal of
    `iterateLoop` is the companion theorem `C08_group_exceptions_partial` below, not a consequence
    of `GroupAgrees`.
    What is missing for the full statement: abbreviations (refuted by
    `C08_finding_group_abbreviation`), the inversion word `!`, a comma inside a typed long key, a
    positional argument (refuted by the three `C08_witness_…` theorems), and constraints whose
    partners live in different members (not expressible through `Groups` at all: a member's
    `requires` can only name its own arguments). -/
theorem C08_group_equiv_partial (cfg : Cfg) (inits : List DVal) (argMember globMember order : List Nat)
    (argv : List Word) (hwf : GroupWellFormed cfg argMember globMember order) (hne : order ≠ [])
    (hinits : inits.length = cfg.args.length) (hargv : ArgvPlain argv) :
    GroupAgrees (evalArguments cfg (cfg.initState inits) {} argv)
      (groupDests cfg argMember order <$> groupsEval cfg inits argMember globMember order argv) :=
  group_agrees cfg inits argMember globMember order argv hwf hne hinits hargv

/-- Companion of `C08_group_equiv_partial`, the exception classes exactly (same hypotheses): if the
    single handler throws `e` and the group throws `e'`, then `e' = e`, or `e` is
    `std::invalid_argument`, `e'` is `std::runtime_error` AND the single handler's run is its
    unknown-argument refusal — the cursor could be opened (`It.begin`), every element before the
    last was consumed, and for the last one `evalSingleArgument` RETURNED the answer `unknown`
    without throwing (`UnknownRefusal`, which conversely makes `iterateLoop` throw
    `invalid_argument`: `UnknownRefusal.throws`).  So an `invalid_argument` that is thrown inside
    `evalSingleArgument` — a malformed typed key such as `---x` (word `-----x`) from `wordKey`,
    `hasIntersection` / `compareValue` on unsuited destinations — or by the cursor is an
    `invalid_argument` of the group as well.  This is what `GroupAgrees` alone does not say. -/
theorem C08_group_exceptions_partial (cfg : Cfg) (inits : List DVal) (argMember globMember order : List Nat)
    (argv : List Word) (hwf : GroupWellFormed cfg argMember globMember order) (hne : order ≠ [])
    (hinits : inits.length = cfg.args.length) (hargv : ArgvPlain argv) (e e' : Exc)
    (hs : evalArguments cfg (cfg.initState inits) {} argv = .throw e)
    (hg : groupsEval cfg inits argMember globMember order argv = .throw e') :
    e' = e ∨ (e = .invalid_argument ∧ e' = .runtime_error ∧
      ∃ ai, It.begin argv = .ok ai ∧ UnknownRefusal cfg (totalChars argv) (cfg.initState inits) ai) := by
  have h := group_agrees cfg inits argMember globMember order argv hwf hne hinits hargv
  rw [hs, hg] at h
  rcases (h : e' = e ∨ (e = .invalid_argument ∧ e' = .runtime_error)) with h | ⟨rfl, rfl⟩
  · exact Or.inl h
  · exact Or.inr ⟨rfl, rfl, group_refusal cfg inits argMember globMember order argv hwf hne hinits hargv hs hg⟩

/-- End to end: under the same hypotheses the group accepts a command line exactly when the single
    handler owning all arguments accepts it.  In particular every rule attached inside a member
    (mandatory, cardinality, value checks, `requires`/`excludes`, handler constraints) whose
    violation makes the stand-alone handler refuse the line makes the group refuse it, and the
    group refuses nothing else. -/
theorem C08_group_accepts_iff_partial (cfg : Cfg) (inits : List DVal) (argMember globMember order : List Nat)
    (argv : List Word) (hwf : GroupWellFormed cfg argMember globMember order) (hne : order ≠ [])
    (hinits : inits.length = cfg.args.length) (hargv : ArgvPlain argv) :
    (groupsEval cfg inits argMember globMember order argv).isOk =
      (evalArguments cfg (cfg.initState inits) {} argv).isOk := by
  have h := group_agrees cfg inits argMember globMember order argv hwf hne hinits hargv
  cases hs : evalArguments cfg (cfg.initState inits) {} argv <;>
    cases hg : groupsEval cfg inits argMember globMember order argv <;>
    rw [hs, hg] at h <;> first | rfl | exact h.elim

/-- The simulation behind it, member by member: under the same hypotheses, when the single handler
    accepts with final state `H'`, the group accepts with member states `ms` such that, for the
    state `H` of the single handler before it forgets its last argument,
    * `groupDests` is `cfg.args` zipped with `H'.args` (every destination, in definition order);
    * every member `(c, h)` at position `p` of `order` is the view of `H` through what the member
      owns (`MemRel`): `h.args` are the states of its own arguments, `h.globals` the states of its
      own handler constraints, `h.pending` the pending `requires`/`excludes` entries whose key is
      mentioned in a constraint of one of its own arguments, `h.lastArg` the position of `H`'s last
      argument if the member owns it (else none). -/
theorem C08_group_states_partial (cfg : Cfg) (inits : List DVal) (argMember globMember order : List Nat)
    (argv : List Word) (hwf : GroupWellFormed cfg argMember globMember order) (hne : order ≠ [])
    (hinits : inits.length = cfg.args.length) (hargv : ArgvPlain argv) (H' : HState)
    (hs : evalArguments cfg (cfg.initState inits) {} argv = .ok H') :
    ∃ ms H, groupsEval cfg inits argMember globMember order argv = .ok ms ∧ H' = { H with lastArg := none } ∧
      groupDests cfg argMember order ms = cfg.args.zip H'.args ∧
      ∀ (p m : Nat), order[p]? = some m → ∃ h, ms[p]? = some (memberCfg cfg argMember globMember m, h) ∧
        MemRel cfg (memberView argMember globMember m) H h := by
  have h := group_sim cfg inits argMember globMember order argv hwf hne hinits hargv
  rw [hs] at h
  obtain ⟨ms, H, hg, hH, hinv, hrel⟩ := h
  refine ⟨ms, H, hg, hH, ?_, ?_⟩
  · rw [groupDests_eq hwf hinv hrel, hH]
  · intro p m hp
    have : (groupViews argMember globMember order)[p]? = some (memberView argMember globMember m) := by
      unfold groupViews; rw [List.getElem?_map, hp]; rfl
    exact GRel_at hrel p _ this

/-! ### why the other hypotheses are there (abbreviations off in all three)

  All three were replayed on the real `Groups` / `Handler` objects (implementation = model) and are
  recorded as known findings `group-inversion-word-first-member-only`,
  `group-comma-in-typed-long-key`, `group-positional-takes-free-value` (known_findings.d/progargs.json);
  the theorems below are their Lean negations. -/

/-- Known finding `group-inversion-word-first-member-only`.  The inversion word: flags `-x` (member 0) and `-y` (member 1), command line `-x ! -y`.  A single
    handler rejects it (`!` sets its inversion marker, `-y` does not allow inverting); through the
    group `!` is consumed by member 0 alone and `-y`, handled by member 1, is accepted. -/
theorem C08_witness_inversion_word :
    ¬ GroupAgrees
        (evalArguments
          { args := [{ key := ⟨some 'x', []⟩, kind := .flag, vmode := .none, card := .unlimited },
                     { key := ⟨some 'y', []⟩, kind := .flag, vmode := .none, card := .unlimited }], abbr := false }
          (Cfg.initState
            { args := [{ key := ⟨some 'x', []⟩, kind := .flag, vmode := .none, card := .unlimited },
                       { key := ⟨some 'y', []⟩, kind := .flag, vmode := .none, card := .unlimited }], abbr := false }
            [.flag false, .flag false])
          {} ["p".toList, "-x".toList, "!".toList, "-y".toList])
        (groupDests
          { args := [{ key := ⟨some 'x', []⟩, kind := .flag, vmode := .none, card := .unlimited },
                     { key := ⟨some 'y', []⟩, kind := .flag, vmode := .none, card := .unlimited }], abbr := false }
          [0, 1] [0, 1] <$>
          groupsEval
            { args := [{ key := ⟨some 'x', []⟩, kind := .flag, vmode := .none, card := .unlimited },
                       { key := ⟨some 'y', []⟩, kind := .flag, vmode := .none, card := .unlimited }], abbr := false }
            [.flag false, .flag false] [0, 1] [] [0, 1] ["p".toList, "-x".toList, "!".toList, "-y".toList]) := by
  decide +kernel

/-- Known finding `group-comma-in-typed-long-key`.  A comma in a typed long key: `--lll` (member 1) defined before `-x` (member 0), members
    registered in the order 0, 1, command line `--x,lll`.  `ArgumentKey( "x,lll")` equals both keys;
    the single handler takes the first in definition order (`--lll`), the group the first in member
    order (`-x`). -/
theorem C08_witness_comma_key :
    ¬ GroupAgrees
        (evalArguments
          { args := [{ key := ⟨none, "lll".toList⟩, kind := .flag, vmode := .none, card := .unlimited },
                     { key := ⟨some 'x', []⟩, kind := .flag, vmode := .none, card := .unlimited }], abbr := false }
          (Cfg.initState
            { args := [{ key := ⟨none, "lll".toList⟩, kind := .flag, vmode := .none, card := .unlimited },
                       { key := ⟨some 'x', []⟩, kind := .flag, vmode := .none, card := .unlimited }], abbr := false }
            [.flag false, .flag false])
          {} ["p".toList, "--x,lll".toList])
        (groupDests
          { args := [{ key := ⟨none, "lll".toList⟩, kind := .flag, vmode := .none, card := .unlimited },
                     { key := ⟨some 'x', []⟩, kind := .flag, vmode := .none, card := .unlimited }], abbr := false }
          [1, 0] [0, 1] <$>
          groupsEval
            { args := [{ key := ⟨none, "lll".toList⟩, kind := .flag, vmode := .none, card := .unlimited },
                       { key := ⟨some 'x', []⟩, kind := .flag, vmode := .none, card := .unlimited }], abbr := false }
            [.flag false, .flag false] [1, 0] [] [0, 1] ["p".toList, "--x,lll".toList]) := by
  decide +kernel

/-- Known finding `group-positional-takes-free-value`.  A positional argument: member 0 defines the positional argument, member 1 the multi-value `-m`;
    `-m 1 2`.  The single handler stores `[1, 2]` in `m`; in the group member 0 is asked first for the
    free value `2` and its positional argument takes it. -/
theorem C08_witness_positional_first :
    ¬ GroupAgrees
        (evalArguments
          { args := [{ key := Key.pos, kind := .str, vmode := .required, card := .unlimited },
                     { key := ⟨some 'm', []⟩, kind := .vecInt, vmode := .required, card := .unlimited, multi := true }],
            abbr := false }
          (Cfg.initState
            { args := [{ key := Key.pos, kind := .str, vmode := .required, card := .unlimited },
                       { key := ⟨some 'm', []⟩, kind := .vecInt, vmode := .required, card := .unlimited, multi := true }],
              abbr := false } [.str [], .vec []])
          {} ["p".toList, "-m".toList, "1".toList, "2".toList])
        (groupDests
          { args := [{ key := Key.pos, kind := .str, vmode := .required, card := .unlimited },
                     { key := ⟨some 'm', []⟩, kind := .vecInt, vmode := .required, card := .unlimited, multi := true }],
            abbr := false } [0, 1] [0, 1] <$>
          groupsEval
            { args := [{ key := Key.pos, kind := .str, vmode := .required, card := .unlimited },
                       { key := ⟨some 'm', []⟩, kind := .vecInt, vmode := .required, card := .unlimited, multi := true }],
              abbr := false } [.str [], .vec []] [0, 1] [] [0, 1] ["p".toList, "-m".toList, "1".toList, "2".toList]) := by
  decide +kernel

/-! ### non-vacuity

  `exCfg`: member 0 owns `-x` (requires `-y`), `-y` and the handler constraint all-of(x;y); member 1
  owns the multi-value `-m` and `--name` (Lemmas/GroupsExamples.lean). -/

-- the hypotheses of `C08_group_equiv_partial` are satisfiable, in both registration orders
example : GroupWellFormed exCfg exArgMember exGlobMember [0, 1] := exCfg_wf _ (Or.inl rfl)
example : GroupWellFormed exCfg exArgMember exGlobMember [1, 0] := exCfg_wf _ (Or.inr rfl)
example : ArgvPlain exArgvOk ∧ ArgvPlain exArgvRequires ∧ ArgvPlain exArgvStale := exArgv_plain
-- list values are inside `ArgvPlain`; the comma-in-key witness and the inversion word are not
example : ArgvPlain exArgvList := exArgvList_plain
example : ¬ ArgvPlain ["p".toList, "--x,lll".toList] ∧ ¬ ArgvPlain ["p".toList, "-x".toList, "!".toList] ∧
    ¬ ArgvPlain ["p".toList, "-a-x,lll".toList] := exArgv_not_plain
-- the exact border of `ArgvPlain`.  Inside: whatever follows the `=` of a long key (dashes and commas
-- alike), and value words
example : ArgvPlain ["p".toList, "--max=-1,2".toList] := by decide
example : ArgvPlain ["p".toList, "--name=a-b,c".toList] := by decide
example : ArgvPlain ["p".toList, "--files=my-file,other".toList] := by decide
example : ArgvPlain ["p".toList, "-m".toList, "-1,2".toList] := by decide
-- outside: a comma between the first later dash of a word and the next `=` — also `-m-1,2`, where only
-- the configuration decides whether `-1,2` is the value of `-m` or the long key `1,2` — and the word `!`
example : ¬ ArgvPlain ["p".toList, "-m-1,2".toList] := by decide
example : ¬ ArgvPlain ["p".toList, "--x,lll".toList] := by decide
example : ¬ ArgvPlain ["p".toList, "-a-x,lll".toList] := by decide
example : ¬ ArgvPlain ["p".toList, "!".toList] := by decide
-- a comma in the key part itself stays outside even with a value behind it
example : ¬ ArgvPlain ["p".toList, "--na,me=a".toList] := by decide
example : exInits.length = exCfg.args.length := rfl

-- accepted: `-m 1 2 -x -y --name=abc`, with the destinations of the single handler
example : (groupsEval exCfg exInits exArgMember exGlobMember [0, 1] exArgvOk).isOk = true := by decide +kernel
example : (match groupsEval exCfg exInits exArgMember exGlobMember [1, 0] exArgvOk with
    | .ok ms => (groupDests exCfg exArgMember [1, 0] ms).map (·.2.dest)
    | _ => []) = [.flag true, .flag true, .vec [1, 2], .str "abc".toList] := by decide +kernel
example : GroupAgrees (evalArguments exCfg (exCfg.initState exInits) {} exArgvOk)
    (groupDests exCfg exArgMember [0, 1] <$> groupsEval exCfg exInits exArgMember exGlobMember [0, 1] exArgvOk) := by
  decide +kernel

-- list values through the group: `-m 1,2,3 -x -y --name=a,b -m4,-5`, same destinations as the single handler
example : (match groupsEval exCfg exInits exArgMember exGlobMember [1, 0] exArgvList with
    | .ok ms => (groupDests exCfg exArgMember [1, 0] ms).map (·.2.dest)
    | _ => []) = [.flag true, .flag true, .vec [1, 2, 3, 4, -5], .str "a,b".toList] := by decide +kernel
example : GroupAgrees (evalArguments exCfg (exCfg.initState exInits) {} exArgvList)
    (groupDests exCfg exArgMember [1, 0] <$> groupsEval exCfg exInits exArgMember exGlobMember [1, 0] exArgvList) := by
  decide +kernel

-- a string value with dashes and a comma behind the `=` of a long key (inside `ArgvPlain` since the
-- hypothesis was narrowed to the first later dash): `--name=a-b,c -x -y`, accepted by both, same value
example : (match groupsEval exCfg exInits exArgMember exGlobMember [0, 1]
      ["p".toList, "--name=a-b,c".toList, "-x".toList, "-y".toList] with
    | .ok ms => (groupDests exCfg exArgMember [0, 1] ms).map (·.2.dest)
    | _ => []) = [.flag true, .flag true, .vec [], .str "a-b,c".toList] := by decide +kernel
example : GroupAgrees (evalArguments exCfg (exCfg.initState exInits) {} ["p".toList, "--name=a-b,c".toList, "-x".toList, "-y".toList])
    (groupDests exCfg exArgMember [0, 1] <$> groupsEval exCfg exInits exArgMember exGlobMember [0, 1]
      ["p".toList, "--name=a-b,c".toList, "-x".toList, "-y".toList]) := by decide +kernel
-- `-m-1,2 -x -y` is OUTSIDE `ArgvPlain` although group and single handler agree on it for this
-- configuration (`-m` takes a value): the hypothesis is sufficient, not necessary
example : GroupAgrees (evalArguments exCfg (exCfg.initState exInits) {} ["p".toList, "-m-1,2".toList, "-x".toList, "-y".toList])
    (groupDests exCfg exArgMember [1, 0] <$> groupsEval exCfg exInits exArgMember exGlobMember [1, 0]
      ["p".toList, "-m-1,2".toList, "-x".toList, "-y".toList]) := by decide +kernel

-- how coarse `GroupAgrees` is on exceptions: the relation itself accepts the pair (`invalid_argument`,
-- `runtime_error`) without looking at the cause …
example (ds : Res (List (ArgDef × ArgSt))) (h : ds = .throw .runtime_error) :
    GroupAgrees (.throw .invalid_argument) ds := by subst h; exact Or.inr ⟨rfl, rfl⟩
-- … the unknown argument `-z` produces that pair; the malformed typed key `---x` (word `-----x`) is an
-- `invalid_argument` of both evaluators — as it must be by `C08_group_exceptions_partial`, not by
-- `C08_group_equiv_partial`
example : (match evalArguments exCfg (exCfg.initState exInits) {} ["p".toList, "-z".toList],
      groupsEval exCfg exInits exArgMember exGlobMember [0, 1] ["p".toList, "-z".toList] with
    | .throw .invalid_argument, .throw .runtime_error => true | _, _ => false) = true := by decide +kernel
example : (match evalArguments exCfg (exCfg.initState exInits) {} ["p".toList, "-----x".toList],
      groupsEval exCfg exInits exArgMember exGlobMember [0, 1] ["p".toList, "-----x".toList] with
    | .throw .invalid_argument, .throw .invalid_argument => true | _, _ => false) = true := by decide +kernel

-- `C08_group_exceptions_partial` on `-x -y -z`: its second alternative is met (the refusal after two
-- consumed elements), and `UnknownRefusal` fails for the malformed key, whose exception is thrown
-- inside `evalSingleArgument`
example : ∃ ai, It.begin ["p".toList, "-x".toList, "-y".toList, "-z".toList] = .ok ai ∧
    UnknownRefusal exCfg (totalChars ["p".toList, "-x".toList, "-y".toList, "-z".toList]) (exCfg.initState exInits) ai := by
  have h := C08_group_exceptions_partial exCfg exInits exArgMember exGlobMember [0, 1]
    ["p".toList, "-x".toList, "-y".toList, "-z".toList] (exCfg_wf _ (Or.inl rfl)) (by decide) rfl (by decide)
    .invalid_argument .runtime_error (throws_of_match _ _ (by decide +kernel)) (throws_of_match _ _ (by decide +kernel))
  rcases h with h | ⟨_, _, h⟩
  · cases h
  · exact h
example : ∀ ai, It.begin ["p".toList, "-----x".toList] = .ok ai →
    ¬ UnknownRefusal exCfg (totalChars ["p".toList, "-----x".toList]) (exCfg.initState exInits) ai := by
  intro ai hb hu
  obtain ⟨_, h', ai', r, he, _⟩ := (show UnknownRefusal exCfg (_ + 1) _ ai from hu)
  have : (match It.begin ["p".toList, "-----x".toList] with
      | .ok a => (match evalSingleArgument exCfg (exCfg.initState exInits) a with | .ok _ => false | _ => true)
      | _ => true) = true := by decide +kernel
  rw [hb] at this
  dsimp only at this
  rw [he] at this
  cases this

-- rejected by a rule attached inside member 0 (`-x` requires `-y`): `-m 1 -x`; the pinned code,
-- which only checked mandatory/cardinality at the end, accepted it
example : (match groupsEval exCfg exInits exArgMember exGlobMember [0, 1] exArgvRequires with
    | .throw .runtime_error => true | _ => false) = true := by decide +kernel
example : (match evalArguments exCfg (exCfg.initState exInits) {} exArgvRequires with
    | .throw .runtime_error => true | _ => false) = true := by decide +kernel
example : (groupsEvalHead exCfg exInits exArgMember exGlobMember [0, 1] exArgvRequires).isOk = true := by
  decide +kernel

-- the stale last argument: `-m 1 2 -x 3` is rejected (as by the single handler) by the repaired loop,
-- while the loop of the pinned commit (`offerHead`) stored `3` in `m`
example : (match groupsEval exCfg exInits exArgMember exGlobMember [0, 1] exArgvStale with
    | .throw .runtime_error => true | _ => false) = true := by decide +kernel
example : (evalArguments exCfg (exCfg.initState exInits) {} exArgvStale).isOk = false := by decide +kernel
example : (match groupsEvalHead exCfg exInits exArgMember exGlobMember [0, 1] exArgvStale with
    | .ok ms => (groupDests exCfg exArgMember [0, 1] ms).map (·.2.dest)
    | _ => []) = [.flag true, .flag false, .vec [1, 2, 3], .str []] := by decide +kernel

-- a value constraint inside a member: `-p` / `-b` (int, member 0) must differ, `-q` (flag) is member 1;
-- `-p 3 -q -b 3` is rejected by the group as by the single handler, `-p 3 -q -b 4` accepted by both
example : GroupAgrees (evalArguments exCfgV (exCfgV.initState exInitsV) {} exArgvVSame)
    (groupDests exCfgV [0, 0, 1] [1, 0] <$> groupsEval exCfgV exInitsV [0, 0, 1] [0] [1, 0] exArgvVSame) ∧
    (match groupsEval exCfgV exInitsV [0, 0, 1] [0] [1, 0] exArgvVSame with
      | .throw .runtime_error => true | _ => false) = true := by decide +kernel
example : GroupAgrees (evalArguments exCfgV (exCfgV.initState exInitsV) {} exArgvVDiff)
    (groupDests exCfgV [0, 0, 1] [1, 0] <$> groupsEval exCfgV exInitsV [0, 0, 1] [0] [1, 0] exArgvVDiff) ∧
    (groupsEval exCfgV exInitsV [0, 0, 1] [0] [1, 0] exArgvVDiff).isOk = true := by decide +kernel

-- dispatch of a key element: `-y` (cursor of `p -y`) with member 1 registered before member 0 — all
-- hypotheses of `C08_dispatch_partial` hold, and the offer stores the flag in member 0 only
example : (match It.begin ["p".toList, "-y".toList] with | .ok it => decide (it = exItKey) | _ => false) = true := by
  decide
example : ElemKey exItKey ky ∧ ky.Single := ⟨Or.inl ⟨rfl, rfl⟩, Or.inr rfl⟩
example : ∀ m ∈ [exM1] ++ exM0 :: [], m.1.abbr = false := by decide
example : MembersDisjoint ([exM1] ++ exM0 :: []) := by unfold MembersDisjoint; decide
example : ∃ e ∈ exM0.1.table, e.1.Clash ky := by decide
example : (match offer (exItKey.cur.ty != .value) ([exM1] ++ exM0 :: []) exItKey with
    | .ok x => some (x.1.map (fun (m : Cfg × HState) => m.2.args.map (fun a => a.dest)), x.2.2)
    | _ => none) = some ([[.vec [], .str []], [.flag false, .flag true]], .consumed) := by decide +kernel

-- dispatch of a free value: `2,3` after `-m 1`, member 0 registered first passes it on, member 1 (last
-- argument `-m`, multi-value) takes it — all hypotheses of `C08_dispatch_value_partial` hold
example : exItVal.cur.ty = .value := rfl
example : PassesValue exM0 := ⟨rfl, by decide, by intro i d h; cases h⟩
example : exM1m.2.lastArg = some 0 ∧ (∃ d, exM1m.1.args[0]? = some d ∧ d.multi = true) := ⟨rfl, _, rfl, rfl⟩
example : (match offer (exItVal.cur.ty != .value) ([exM0] ++ exM1m :: []) exItVal with
    | .ok x => some (x.1.map (fun (m : Cfg × HState) => m.2.args.map (fun a => a.dest)), x.2.2)
    | _ => none) = some ([[.flag false, .flag false], [.vec [2, 3], .str []]], .consumed) := by decide +kernel
-- … and nobody takes it when member 1 did not handle `-m` last
example : PassesValue exM1 := ⟨rfl, by decide, by intro i d h; cases h⟩

-- registration histories: an accepted one (the tables of `exCfg`), and one refused at definition 2
example : groupDefineSeq (List.replicate 2 [])
    [(0, "x".toList), (1, "m,max".toList), (0, "y".toList), (1, "name".toList)] 0 = none := by decide
example : groupDefineSeq (List.replicate 2 []) [(0, "x".toList), (1, "m,max".toList), (0, "max".toList)] 0 =
    some (.invalid_argument, 2) := by decide

-- cross check, one definition: `-m` cannot be added to member 0
example : groupAddArgument [(kx, 0), (ky, 1)] [[⟨some 'm', []⟩, ⟨none, "name".toList⟩]] ⟨some 'm', "max".toList⟩ 2 =
    .throw .invalid_argument := rfl
example : groupAddArgument [(kx, 0), (ky, 1)] [[⟨some 'm', []⟩, ⟨none, "name".toList⟩]] ⟨some 'z', []⟩ 2 =
    .ok [(kx, 0), (ky, 1), (⟨some 'z', []⟩, 2)] := rfl

end CelmaVerif.Props.C08
